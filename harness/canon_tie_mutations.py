"""Demonstration for the source-text tie of C15 (tag py2lean-canon, notes/NOTES-py2lean-canon.md): apply
semantic mutations / meaning-preserving refactorings of `similarity_transform`, `reachable_form`,
`observable_form` (control/canonical.py) and `model_reduction` (control/modelsimp.py) to a SCRATCH worktree
of /repo, run `check.py C15 --tier quick` against it (VERIF_REPO, VERIF_NO_EVIDENCE=1) and report which
proof obligations break and whether a VIOLATION with a failing input is reported.

    git -C /repo worktree add --detach /tmp/w/g7_repo HEAD
    /venv/bin/python harness/canon_tie_mutations.py /tmp/w/g7_repo [name ...]
    git -C /repo worktree remove --force /tmp/w/g7_repo

Never run against /repo itself.  The script finishes with a regeneration from the unchanged /repo."""
import json
import os
import re
import subprocess
import sys
import time

HERE = os.path.dirname(os.path.abspath(__file__))
VERIF = os.path.dirname(HERE)
CANON = "control/canonical.py"
SIMP = "control/modelsimp.py"

# (name, kind, file, [(old text, new text), ...]); kind: 'mutation' (must be reported) | 'refactor' (must
# pass) | 'outside' (meaning kept but outside the translated subset: reported without a failing input)
EDITS = [
    ("sim-timescale-on-C", "mutation", CANON, [
        ("        zsys.C = rsolve(T, zsys.C)\n", "        zsys.C = rsolve(T, zsys.C) / timescale\n")]),
    ("sim-inverse-C-rsolve", "mutation", CANON, [
        ("        zsys.C = zsys.C @ T\n", "        zsys.C = rsolve(T, zsys.C)\n")]),
    ("reach-T-not-transposed", "mutation", CANON, [
        ("    Tzx = solve(Wrx.T, Wrz.T).T  #", "    Tzx = solve(Wrx.T, Wrz.T)  #")]),
    ("reach-companion-sign", "mutation", CANON, [
        ("        zsys.A[0, i] = -Apoly[i+1] / Apoly[0]\n", "        zsys.A[0, i] = Apoly[i+1] / Apoly[0]\n")]),
    ("obs-B-not-transformed", "mutation", CANON, [
        ("    zsys.B = Tzx @ xsys.B\n", "    zsys.B = xsys.B\n")]),
    ("red-matchdc-Dr", "mutation", SIMP, [
        ("        Dr = sys.D - C2 @ A22I_B2\n", "        Dr = sys.D\n")]),
    ("red-unique-dropped", "mutation", SIMP, [
        ("                idx = np.unique(np.arange(len(labels))[idx])\n",
         "                idx = np.arange(len(labels))[idx]\n")]),
    ("red-discrete-guard-weakened", "mutation", SIMP, [
        ("        if sys.isdtime(strict=True):\n", "        if sys.isdtime(strict=False):\n")]),
    ("form-dispatch-swapped", "mutation", CANON, [
        ("    if form == 'reachable':\n        return reachable_form(xsys)\n",
         "    if form == 'reachable':\n        return observable_form(xsys)\n")]),
    # agrees with the unchanged code on every system with fewer than 9 states (the correspondence family
    # generates at most 5): only the tie can see it
    ("reach-subdiagonal-skips-one", "mutation", CANON, [
        ("    for i in range(0, xsys.nstates):\n        zsys.A[0, i] = -Apoly[i+1] / Apoly[0]\n"
         "        if (i+1 < xsys.nstates):\n            zsys.A[i+1, i] = 1.0\n",
         "    for i in range(0, xsys.nstates):\n        zsys.A[0, i] = -Apoly[i+1] / Apoly[0]\n"
         "        if (i+1 < xsys.nstates) and i != 7:\n            zsys.A[i+1, i] = 1.0\n")]),
    # ---- meaning-preserving refactorings: every obligation must stay discharged -----------------
    ("r-sim-named-temporary", "refactor", CANON, [
        ("        zsys.A = rsolve(T, T @ zsys.A) / timescale\n",
         "        TA = T @ zsys.A\n        zsys.A = rsolve(T, TA) / timescale\n")]),
    ("r-sim-B-C-reordered", "refactor", CANON, [
        ("        zsys.B = T @ zsys.B / timescale\n        zsys.C = rsolve(T, zsys.C)\n",
         "        zsys.C = rsolve(T, zsys.C)\n        zsys.B = T @ zsys.B / timescale\n")]),
    ("r-reach-renamed", "refactor", CANON, [
        ("    Apoly = poly(xsys.A)                # characteristic polynomial\n    for i in range(0, xsys.nstates):\n"
         "        zsys.A[0, i] = -Apoly[i+1] / Apoly[0]\n",
         "    cp = poly(xsys.A)\n    for k in range(0, xsys.nstates):\n        zsys.A[0, k] = -cp[k+1] / cp[0]\n"),
        ("        if (i+1 < xsys.nstates):\n            zsys.A[i+1, i] = 1.0\n\n    # Compute the reachability",
         "        if (k+1 < xsys.nstates):\n            zsys.A[k+1, k] = 1.0\n\n    # Compute the reachability")]),
    ("r-reach-loop-body-reordered", "refactor", CANON, [
        ("        zsys.A[0, i] = -Apoly[i+1] / Apoly[0]\n        if (i+1 < xsys.nstates):\n            zsys.A[i+1, i] = 1.0\n",
         "        if (i+1 < xsys.nstates):\n            zsys.A[i+1, i] = 1.0\n        c = -Apoly[i+1] / Apoly[0]\n"
         "        zsys.A[0, i] = c\n")]),
    ("r-obs-np-solve-named", "refactor", CANON, [
        ("    Tzx = solve(Wrz, Wrx)  #", "    W1 = Wrz\n    Tzx = np.linalg.solve(W1, Wrx)  #")]),
    ("r-red-named-column-blocks", "refactor", SIMP, [
        ("    A11 = sys.A[:, keep_states][keep_states, :]     # states we are keeping\n",
         "    AK = sys.A[:, keep_states]\n    A11 = AK[keep_states, :]\n"),
        ("    A21 = sys.A[:, keep_states][elim_states, :]\n", "    A21 = AK[elim_states, :]\n")]),
    ("r-red-resolve-renamed", "refactor", SIMP, [
        ("            idx = np.atleast_1d(_expand_key(key))\n            if idx.size > 0:\n"
         "                idx = np.unique(np.arange(len(labels))[idx])\n            return idx\n",
         "            expanded = _expand_key(key)\n            ix = np.atleast_1d(expanded)\n            if ix.size > 0:\n"
         "                ix = np.unique(np.arange(len(labels))[ix])\n            return ix\n")]),
    ("r-red-B-C-blocks-reordered", "refactor", SIMP, [
        ("    B1 = sys.B[keep_states, :]\n    B2 = sys.B[elim_states, :]\n\n    C1 = sys.C[:, keep_states]\n"
         "    C2 = sys.C[:, elim_states]\n",
         "    C2 = sys.C[:, elim_states]\n    C1 = sys.C[:, keep_states]\n    B2 = sys.B[elim_states, :]\n"
         "    B1 = sys.B[keep_states, :]\n")]),
    ("r-form-tests-reordered", "refactor", CANON, [
        ("    if form == 'reachable':\n        return reachable_form(xsys)\n    elif form == 'observable':\n"
         "        return observable_form(xsys)\n",
         "    if form == 'observable':\n        return observable_form(xsys)\n    elif form == 'reachable':\n"
         "        return reachable_form(xsys)\n")]),
    # ---- outside the translator's subset (meaning kept) -----------------------------------------
    ("x-sim-np-dot", "outside", CANON, [
        ("        zsys.C = zsys.C @ T\n", "        zsys.C = np.dot(zsys.C, T)\n")]),
]


def checkout(repo):
    subprocess.run(["git", "-C", repo, "checkout", "--", CANON, SIMP], check=True)


def run(repo, name):
    _, kind, rel, pairs = [e for e in EDITS if e[0] == name][0]
    checkout(repo)
    path = os.path.join(repo, rel)
    src = open(path).read()
    for old, new in pairs:
        if src.count(old) != 1:
            return {"name": name, "error": "pattern occurs %d times: %r" % (src.count(old), old[:60])}
        src = src.replace(old, new)
    open(path, "w").write(src)
    env = dict(os.environ, VERIF_REPO=repo, VERIF_NO_EVIDENCE="1", VERIF_SEED=os.environ.get("VERIF_SEED", "0"))
    t0 = time.time()
    p = subprocess.run(["/venv/bin/python", os.path.join(HERE, "check.py"), "C15", "--tier", "quick"],
                       cwd=VERIF, env=env, text=True, capture_output=True)
    out = p.stdout + p.stderr
    checkout(repo)
    viol = [l for l in out.split("\n") if l.startswith("VIOLATION")]
    summ = [l for l in out.split("\n") if l.startswith("C15 tier=")]
    m = re.search(r"obligations=(\d+)/(\d+)", out)
    first = None
    for v in viol:
        mm = re.search(r"replay=(\S+)", v)
        if mm and "no-failing-input-found" not in v:
            try:
                d = json.load(open(os.path.join(VERIF, mm.group(1))))
                c = d.get("case") or (d.get("cases") or [None])[0]
                first = {"replay": mm.group(1), "op": (c or {}).get("op"), "detail": str(d.get("detail", ""))[:200]}
            except Exception as e:      # noqa
                first = {"replay": mm.group(1), "error": str(e)}
            break
    broken = re.findall(r"(CtrlVerif/Props/\S+?\.lean):(\d+)", out)
    return {"name": name, "kind": kind, "file": rel, "exit": p.returncode,
            "obligations": m.group(0) if m else None, "violations": len(viol),
            "no_failing_input": sum("no-failing-input-found" in v for v in viol), "first_failing_input": first,
            "broken_at": sorted({b[0] for b in broken})[:4], "summary": summ[-1] if summ else out[-400:],
            "wall": round(time.time() - t0, 1),
            "problems": [l[:200] for l in out.split("\n") if "cannot be translated" in l][:2],
            "as_expected": (p.returncode == 1 and bool(viol)) if kind in ("mutation", "outside")
            else p.returncode == 0}


if __name__ == "__main__":
    repo = os.path.abspath(sys.argv[1])
    if os.path.realpath(repo) == os.path.realpath("/repo"):
        sys.exit("refusing to edit /repo")
    names = sys.argv[2:] or [e[0] for e in EDITS]
    results = []
    for nm in names:
        r = run(repo, nm)
        results.append(r)
        print(json.dumps(r), flush=True)
    # leave the generated files as the unchanged tree defines them
    sys.path.insert(0, HERE)
    from core import py2lean_canon, leanproj
    py2lean_canon.regenerate("/repo", leanproj.LEAN)
    bad = [r["name"] for r in results if not r.get("as_expected")]
    print("not as expected:", bad)
