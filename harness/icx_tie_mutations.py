"""Demonstration for the source-text tie of C07, tag py2lean-interconnect
(notes/NOTES-py2lean-interconnect.md): apply semantic mutations / meaning-preserving refactorings of
`InputOutputSystem._find_signals` (control/iosys.py) and of the pre-processing statement groups of
`interconnect()` (control/nlsys.py) to a SCRATCH worktree of /repo, run `check.py C07 --tier quick`
against it (VERIF_REPO, VERIF_NO_EVIDENCE=1) and report which proof obligations break and whether a
VIOLATION with a failing input is reported.

    git -C /repo worktree add --detach /tmp/w/g20_repo HEAD
    /venv/bin/python harness/icx_tie_mutations.py /tmp/w/g20_repo [name ...]
    git -C /repo worktree remove --force /tmp/w/g20_repo

Never run against /repo itself.  The script finishes with a regeneration from the unchanged /repo."""
import json
import os
import sys

HERE = os.path.dirname(os.path.abspath(__file__))
sys.path.insert(0, HERE)
import ic_tie_mutations as base  # noqa: E402

IOSYS, NLSYS = base.IOSYS, base.NLSYS

EDITS = [
    # ---- _find_signals -------------------------------------------------------------------------------
    ("fs-slice-stop-inclusive", "mutation", IOSYS, [
        ("                       (stop is None or int(msig.group(2)) < stop):",
         "                       (stop is None or int(msig.group(2)) <= stop):")]),
    ("fs-base-sorted-order", "mutation", IOSYS, [
        ("                # Try to use name as a base name\n                for var in sigdict:",
         "                # Try to use name as a base name\n                for var in sorted(sigdict):")]),
    ("fs-base-shadows-label", "mutation", IOSYS, [
        ("            elif mb and sigdict.get(name, None) is None:", "            elif mb:")]),
    ("fs-none-test-any-dropped", "mutation", IOSYS, [
        ("        return None if len(index_list) == 0 or \\\n            any([idx is None for idx in index_list]) else index_list",
         "        return None if len(index_list) == 0 else index_list")]),
    ("fs-start-exclusive", "mutation", IOSYS, [
        ("                       (start is None or int(msig.group(2)) >= start) and \\",
         "                       (start is None or int(msig.group(2)) > start) and \\")]),
    # ---- interconnect(): implicit loop, normalisation, count checks, add_unused ------------------------
    ("ic-implicit-threshold", "mutation", NLSYS, [
        ("                if len(connect) > 1:\n                    connections.append(connect)",
         "                if len(connect) > 2:\n                    connections.append(connect)")]),
    ("ic-implicit-own-name", "mutation", NLSYS, [
        ("                        connect.append(output_sys.name + \".\" + input_name)",
         "                        connect.append(input_sys.name + \".\" + input_name)")]),
    ("ic-normalize-tuple-only", "mutation", NLSYS, [
        ("                all([isinstance(cnxn, (str, tuple)) for cnxn in connections]):",
         "                all([isinstance(cnxn, tuple) for cnxn in connections]):")]),
    ("ic-conn-source-as-input", "mutation", NLSYS, [
        ("            output_spec = _parse_spec(syslist, spec, 'output')\n",
         "            output_spec = _parse_spec(syslist, spec, 'input')\n")]),
    ("ic-check-inputs-int", "mutation", NLSYS, [
        ("            or isinstance(inputs, int) and inputs != len(inplist)):",
         "            or isinstance(inputs, int) and inputs > len(inplist)):")]),
    ("ic-addunused-label-of-output", "mutation", NLSYS, [
        ("            inputs.append(newsys.syslist[isys].input_labels[isig])",
         "            inputs.append(newsys.syslist[isys].output_labels[isig])")]),
    ("ic-addunused-labels-swapped-lists", "mutation", NLSYS, [
        ("            outlist=outlist, inputs=inputs, outputs=outputs, states=states,\n"
         "            params=params, dt=dt, name=name, warn_duplicate=warn_duplicate,\n"
         "            connection_type=connection_type, **kwargs)\n\n    # check for implicitly dropped signals",
         "            outlist=outlist, inputs=outputs, outputs=inputs, states=states,\n"
         "            params=params, dt=dt, name=name, warn_duplicate=warn_duplicate,\n"
         "            connection_type=connection_type, **kwargs)\n\n    # check for implicitly dropped signals")]),
    # ---- refactorings -----------------------------------------------------------------------------------
    ("r-fs-renamed", "refactor", IOSYS, [
        ("        index_list = []\n        for name in name_list:", "        found = []\n        for name in name_list:"),
        ("                            index_list.append(sigdict.get(var))\n            elif mb",
         "                            found.append(sigdict.get(var))\n            elif mb"),
        ("                    if msig:\n                        index_list.append(sigdict.get(var))",
         "                    if msig:\n                        found.append(sigdict.get(var))"),
        ("            else:\n                index_list.append(sigdict.get(name, None))",
         "            else:\n                found.append(sigdict.get(name, None))"),
        ("        return None if len(index_list) == 0 or \\\n            any([idx is None for idx in index_list]) else index_list",
         "        return None if len(found) == 0 or \\\n            any([k is None for k in found]) else found")]),
    ("r-fs-reordered-temporaries", "refactor", IOSYS, [
        ("            ms = re.match(r'([\\w$]+)\\[([\\d]*):([\\d]*)\\]$', name)  # slice\n"
         "            mb = re.match(r'([\\w$]+)$', name)                     # base\n",
         "            mb = re.match(r'([\\w$]+)$', name)                     # base\n"
         "            ms = re.match(r'([\\w$]+)\\[([\\d]*):([\\d]*)\\]$', name)  # slice\n"),
        ("                base = ms.group(1)\n                start = None if ms.group(2) == '' else int(ms.group(2))\n"
         "                stop = None if ms.group(3) == '' else int(ms.group(3))\n",
         "                stop = None if ms.group(3) == '' else int(ms.group(3))\n"
         "                start = None if ms.group(2) == '' else int(ms.group(2))\n"
         "                base = ms.group(1)\n")]),
    ("r-fs-named-temporary", "refactor", IOSYS, [
        ("                    if msig and msig.group(1) == base and \\\n"
         "                       (start is None or int(msig.group(2)) >= start) and \\\n"
         "                       (stop is None or int(msig.group(2)) < stop):\n"
         "                            index_list.append(sigdict.get(var))",
         "                    if msig and msig.group(1) == base and \\\n"
         "                       (start is None or int(msig.group(2)) >= start) and \\\n"
         "                       (stop is None or int(msig.group(2)) < stop):\n"
         "                            position = sigdict.get(var)\n"
         "                            index_list.append(position)")]),
    ("r-ic-implicit-renamed", "refactor", NLSYS, [
        ("                connect = [input_sys.name + \".\" + input_name]\n"
         "                for output_sys in syslist:\n"
         "                    if input_name in output_sys.output_labels:\n"
         "                        connect.append(output_sys.name + \".\" + input_name)\n"
         "                if len(connect) > 1:\n"
         "                    connections.append(connect)",
         "                target = input_sys.name + \".\" + input_name\n"
         "                cnx = [target]\n"
         "                for source_sys in syslist:\n"
         "                    if input_name in source_sys.output_labels:\n"
         "                        cnx.append(source_sys.name + \".\" + input_name)\n"
         "                if len(cnx) > 1:\n"
         "                    connections.append(cnx)")]),
    # the two appends of each loop body exchanged, a named temporary, renamed loop variables
    ("r-ic-addunused-reordered", "refactor", NLSYS, [
        ("        for isys, isig in dropped_inputs:\n"
         "            inplist.append((isys, isig))\n"
         "            inputs.append(newsys.syslist[isys].input_labels[isig])\n"
         "        for osys, osig in dropped_outputs:\n"
         "            outlist.append((osys, osig))\n"
         "            outputs.append(newsys.syslist[osys].output_labels[osig])\n",
         "        for k, j in dropped_inputs:\n"
         "            inputs.append(newsys.syslist[k].input_labels[j])\n"
         "            inplist.append((k, j))\n"
         "        for osys, osig in dropped_outputs:\n"
         "            label = newsys.syslist[osys].output_labels[osig]\n"
         "            outputs.append(label)\n"
         "            outlist.append((osys, osig))\n")]),
    ("r-ic-conn-renamed", "refactor", NLSYS, [
        ("        input_spec = _parse_spec(syslist, connection[0], 'input')\n        input_spec_list = [input_spec]\n",
         "        head = connection[0]\n        target_spec = _parse_spec(syslist, head, 'input')\n        input_spec_list = [target_spec]\n"),
        ("            output_spec = _parse_spec(syslist, spec, 'output')\n            output_specs_list[0].append(output_spec)\n",
         "            source_spec = _parse_spec(syslist, spec, 'output')\n            output_specs_list[0].append(source_spec)\n")]),
    ("r-ic-check-rewritten", "refactor", NLSYS, [
        ("            isinstance(inputs, (list, tuple)) and len(inputs) != len(inplist)\n",
         "            isinstance(inputs, (list, tuple)) and len(inplist) != len(inputs)\n")]),
]

base.EDITS = EDITS

if __name__ == "__main__":
    repo = os.path.abspath(sys.argv[1])
    if os.path.realpath(repo) == os.path.realpath("/repo"):
        sys.exit("refusing to edit /repo")
    names = sys.argv[2:] or [e[0] for e in EDITS]
    results = []
    for nm in names:
        r = base.run(repo, nm)
        results.append(r)
        print(json.dumps(r), flush=True)
    from core import py2lean_ic, py2lean_icx, leanproj
    py2lean_ic.regenerate("/repo", leanproj.LEAN)
    py2lean_icx.regenerate("/repo", leanproj.LEAN)
    bad = [r["name"] for r in results if not r.get("as_expected")]
    print("not as expected:", bad)
