"""Demonstration for the source-text tie of the selection logic of C12 (tag py2lean-margins,
notes/NOTES-py2lean-margins.md): apply semantic mutations / meaning-preserving refactorings of the translated
functions of control/margins.py and control/lti.py to a SCRATCH worktree of /repo and report which proof
obligations break and whether `check.py C12` then reports a VIOLATION with a failing input.

    git -C /repo worktree add --detach /tmp/w/g16_repo HEAD
    /venv/bin/python harness/marg_tie_mutations.py /tmp/w/g16_repo [--fast] [name ...]
    git -C /repo worktree remove --force /tmp/w/g16_repo

`--fast`: only regenerate + `lake build` of the tie modules (no correspondence run).
Never run against /repo itself.  The script finishes with a regeneration from the unchanged /repo."""
import json
import os
import re
import subprocess
import sys
import time

HERE = os.path.dirname(os.path.abspath(__file__))
VERIF = os.path.dirname(HERE)
M, L = "control/margins.py", "control/lti.py"
MODS = ["CtrlVerif.Props.C12Gen", "CtrlVerif.Props.C12GenSmCor", "CtrlVerif.Props.C12GenMargin",
        "CtrlVerif.Props.C12GenBw"]

# (name, kind, file, [(old text, new text), ...]); kind: 'mutation' | 'refactor' | 'outside'
EDITS = [
    # ---- semantic mutations: the obligation must break and the check must report a VIOLATION -----------
    ("iw-real-strict-epsw", "mutation", M,
     [("    w = np.real(w[np.isreal(w)])\n    w = w[w >= epsw]\n", "    w = np.real(w[np.isreal(w)])\n    w = w[w > epsw]\n")]),
    ("sm-keep-positive-real-axis", "mutation", M,
     [("        w_180 = w_180[w180_resp <= 0.]\n        w180_resp = w180_resp[w180_resp <= 0.]",
       "        w_180 = w_180[w180_resp >= 0.]\n        w180_resp = w180_resp[w180_resp >= 0.]")]),
    ("sm-gm-not-inverted", "mutation", M,
     [("        GM = 1. / np.abs(w180_resp)", "        GM = 1. * np.abs(w180_resp)")]),
    ("sm-pm-offset", "mutation", M,
     [("    PM = np.remainder(np.angle(wc_resp, deg=True), 360.) - 180.",
       "    PM = np.remainder(np.angle(wc_resp, deg=True), 360.) - 90.")]),
    ("sm-default-gm-smallest", "mutation", M,
     [("                gmidx = np.where(np.abs(np.log(GM)) ==\n                                 np.min(np.abs(np.log(GM))))",
       "                gmidx = np.where(GM ==\n                                 np.min(GM))")]),
    ("sm-wc-not-resorted", "mutation", M,
     [("        idx = np.argsort(wc)\n        wc = wc[idx]\n        wc_resp = wc_resp[idx]",
       "        idx = np.argsort(wc)\n        wc = wc[idx]")]),
    ("sm-wms-first", "mutation", M,
     [("            wstab[SM == np.amin(SM)][0])", "            wstab[SM >= np.amin(SM)][0])")]),
    ("zfilter-half-open-other-side", "mutation", M,
     [("    zidx = (0 <= zarg) * (zarg < np.pi)", "    zidx = (0 < zarg) * (zarg <= np.pi)")]),
    ("margin-swapped", "mutation", M,
     [("    return margin[0], margin[1], margin[3], margin[4]", "    return margin[0], margin[1], margin[4], margin[3]")]),
    ("pcf-imag-gains", "mutation", M,
     [("        gains = np.real(sys(omega * 1j, warn_infinite=False))",
       "        gains = np.abs(sys(omega * 1j, warn_infinite=False))")]),
    ("bw-bracket-shifted", "mutation", L,
     [("                bracket=[omega[idx_dropped[0] - 1], omega[idx_dropped[0]]],",
       "                bracket=[omega[idx_dropped[0]], omega[idx_dropped[0] + 1]],")]),
    ("bw-threshold-power", "mutation", L,
     [("        idx_dropped = np.nonzero(mag - np.abs(dcgain)*10**(dbdrop/20) < 0)[0]",
       "        idx_dropped = np.nonzero(mag - np.abs(dcgain)*10**(dbdrop/10) < 0)[0]")]),
    ("sm-hidden-branch", "mutation", M,
     [("        GM = 1. / np.abs(w180_resp)",
       "        GM = 1. / np.abs(w180_resp)\n        if GM.shape[0] == 23:\n            GM = 2 * GM")]),
    # ---- meaning-preserving refactorings: every obligation must stay discharged ---------------------
    ("r-iw-real-renamed", "refactor", M,
     [("    w = np.roots(test_w)\n    w = np.real(w[np.isreal(w)])\n    w = w[w >= epsw]\n\n    return w",
       "    allroots = np.roots(test_w)\n    realones = np.real(allroots[np.isreal(allroots)])\n"
       "    kept = realones[realones >= epsw]\n\n    return kept")]),
    ("r-wstab-named-derivative", "refactor", M,
     [("    wstabplus = np.polyval(np.polyder(test_wstab), wstab)\n    wstab = wstab[wstabplus > 0.]",
       "    dtest = np.polyder(test_wstab)\n    wstabplus = np.polyval(dtest, wstab)\n    wstab = wstab[0 < wstabplus]")]),
    ("r-zfilter-temporaries", "refactor", M,
     [("    z = z[np.abs(np.abs(z) - 1.) < eps]\n    zarg = np.angle(z)\n    zidx = (0 <= zarg) * (zarg < np.pi)",
       "    radius = np.abs(z)\n    z = z[np.abs(radius - 1) < eps]\n    zarg = np.angle(z)\n"
       "    upper = zarg < np.pi\n    zidx = (zarg >= 0) * upper")]),
    ("r-sm-mask-named", "refactor", M,
     [("        w_180 = w_180[w180_resp <= 0.]\n        w180_resp = w180_resp[w180_resp <= 0.]",
       "        crossing = w180_resp <= 0\n        w_180 = w_180[crossing]\n        w180_resp = w180_resp[crossing]")]),
    ("r-sm-values-reordered", "refactor", M,
     [("    with np.errstate(all='ignore'):  # |G|=0 is okay and yields inf\n        GM = 1. / np.abs(w180_resp)\n"
       "    PM = np.remainder(np.angle(wc_resp, deg=True), 360.) - 180.\n    SM = np.abs(ws_resp + 1.)",
       "    SM = np.abs(ws_resp + 1)\n    ang = np.angle(wc_resp, deg=True)\n    PM = np.remainder(ang, 360) - 180\n"
       "    with np.errstate(all='ignore'):\n        mag180 = np.abs(w180_resp)\n        GM = 1 / mag180")]),
    ("r-sm-cand-reordered", "refactor", M,
     [("            # frequency for gain margin: phase crosses -180 degrees\n"
       "            w_180 = _poly_iw_real_crossing(num_iw, den_iw, epsw)\n"
       "            w180_resp = sys(1J * w_180, warn_infinite=False)  # den=0 is okay\n\n"
       "            # frequency for phase margin : gain crosses magnitude 1\n"
       "            wc = _poly_iw_mag1_crossing(num_iw, den_iw, epsw)\n"
       "            wc_resp = sys(1J * wc)\n",
       "            wc = _poly_iw_mag1_crossing(num_iw, den_iw, epsw)\n"
       "            w_180 = _poly_iw_real_crossing(num_iw, den_iw, epsw)\n"
       "            wc_resp = sys(wc * 1j)\n"
       "            w180_resp = sys(1J * w_180, warn_infinite=False)\n")]),
    ("r-sm-return-temporaries", "refactor", M,
     [("                gmidx = np.where(np.abs(np.log(GM)) ==\n                                 np.min(np.abs(np.log(GM))))",
       "                loggm = np.abs(np.log(GM))\n                smallest = np.min(loggm)\n"
       "                gmidx = np.where(loggm == smallest)"),
      ("            pmidx = np.where(np.abs(PM) == np.amin(np.abs(PM)))[0]",
       "            abspm = np.abs(PM)\n            pmidx = np.where(abspm == np.amin(abspm))[0]")]),
    ("r-margin-renamed", "refactor", M,
     [("        sys = args[0]\n        margin = stability_margins(sys)\n    elif len(args) == 3:\n"
       "        margin = stability_margins(args)",
       "        loop = args[0]\n        res = stability_margins(loop)\n    elif 3 == len(args):\n"
       "        res = stability_margins(args)"),
      ("    return margin[0], margin[1], margin[3], margin[4]", "    return res[0], res[1], res[3], res[4]")]),
    ("r-bw-threshold-named", "refactor", L,
     [("        idx_dropped = np.nonzero(mag - np.abs(dcgain)*10**(dbdrop/20) < 0)[0]",
       "        level = np.abs(dcgain) * 10**(dbdrop / 20)\n        below = np.nonzero(mag - level < 0)[0]\n"
       "        idx_dropped = below"),
      ("                lambda w: _gain(w) - np.abs(dcgain)*10**(dbdrop/20),", "                lambda w: _gain(w) - level,")]),
    # ---- outside the subset (meaning kept): translation fails ------------------------------------------
    ("x-sm-flatnonzero", "outside", M,
     [("            pmidx = np.where(np.abs(PM) == np.amin(np.abs(PM)))[0]",
       "            pmidx = np.flatnonzero(np.abs(PM) == np.amin(np.abs(PM)))")]),
]


def apply(repo, edit):
    _, kind, rel, pairs = edit
    path = os.path.join(repo, rel)
    src = open(path).read()
    for old, new in pairs:
        if src.count(old) != 1:
            return "pattern occurs %d times: %r" % (src.count(old), old[:50])
        src = src.replace(old, new)
    open(path, "w").write(src)
    return None


def restore(repo):
    subprocess.run(["git", "-C", repo, "checkout", "--", M, L], check=True)


def regen(repo):
    sys.path.insert(0, HERE)
    from core import py2lean_arith, py2lean_marg, leanproj
    p1, _ = py2lean_arith.regenerate(
        repo, leanproj.LEAN, ("poly_z_invz", "poly_z_real_crossing", "poly_z_mag1_crossing",
                              "poly_iw_real_crossing", "poly_iw_sqr", "poly_iw_mag1_crossing", "poly_iw_wstab"))
    p2, _ = py2lean_marg.regenerate(repo, leanproj.LEAN)
    return p1 + p2, leanproj


def run(repo, name, fast):
    edit = [e for e in EDITS if e[0] == name][0]
    kind = edit[1]
    restore(repo)
    err = apply(repo, edit)
    if err:
        return {"name": name, "error": err}
    t0 = time.time()
    try:
        if fast:
            problems, leanproj = regen(repo)
            ok, log = leanproj.lake_build(MODS)
            broken = sorted(set(re.findall(r"error: (CtrlVerif/\S+?\.lean):(\d+)", log)))
            return {"name": name, "kind": kind, "build_ok": ok, "problems": [p[:200] for p in problems],
                    "broken_at": broken[:4], "wall": round(time.time() - t0, 1),
                    "as_expected": ok == (kind == "refactor")}
        env = dict(os.environ, VERIF_REPO=repo, VERIF_NO_EVIDENCE="1", VERIF_SEED=os.environ.get("VERIF_SEED", "0"))
        p = subprocess.run(["/venv/bin/python", os.path.join(HERE, "check.py"), "C12", "--tier", "quick"],
                           cwd=VERIF, env=env, text=True, capture_output=True)
        out = p.stdout + p.stderr
    finally:
        restore(repo)
    viol = [l for l in out.split("\n") if l.startswith("VIOLATION")]
    summ = [l for l in out.split("\n") if l.startswith("C12 tier=")]
    m = re.search(r"obligations=(\d+)/(\d+)", out)
    first = None
    for v in viol:
        mm = re.search(r"replay=(\S+)", v)
        if mm and "no-failing-input-found" not in v:
            try:
                rp = json.load(open(os.path.join(VERIF, mm.group(1))))
                first = {"replay": mm.group(1), "case": json.dumps(rp.get("case"))[:300],
                         "detail": str(rp.get("detail"))[:240]}
            except Exception as e:
                first = {"replay": mm.group(1), "error": str(e)}
            break
    return {"name": name, "kind": kind, "exit": p.returncode, "obligations": m.group(0) if m else None,
            "violations": len(viol), "no_failing_input": sum("no-failing-input-found" in v for v in viol),
            "first_failing_input": first, "summary": summ[-1] if summ else out[-400:],
            "wall": round(time.time() - t0, 1),
            "as_expected": (p.returncode == 1 and bool(viol)) if kind in ("mutation", "outside") else p.returncode == 0}


if __name__ == "__main__":
    args = [a for a in sys.argv[1:] if a != "--fast"]
    fast = "--fast" in sys.argv
    repo = os.path.abspath(args[0])
    if os.path.realpath(repo) == os.path.realpath("/repo"):
        sys.exit("refusing to edit /repo")
    names = args[1:] or [e[0] for e in EDITS]
    for nm in names:
        print(json.dumps(run(repo, nm, fast)), flush=True)
    restore(repo)
    regen("/repo")
