"""Demonstration for the source-text tie of C20 (tag py2lean-flat, notes/NOTES-py2lean-flat.md): apply semantic
mutations / meaning-preserving refactorings of `LinearFlatSystem.__init__ / forward / reverse`
(control/flatsys/linflat.py), `_basis_flag_matrix`, `point_to_point` (flatsys.py) and `SystemTrajectory.eval`
(systraj.py) to a SCRATCH worktree of /repo, run `check.py C20 --tier quick` against it (VERIF_REPO,
VERIF_NO_EVIDENCE=1) and report which proof obligations break and whether a VIOLATION with a failing input is
reported.

    git -C /repo worktree add --detach /tmp/w/g17_repo HEAD
    /venv/bin/python harness/flat_tie_mutations.py /tmp/w/g17_repo [name ...]
    git -C /repo worktree remove --force /tmp/w/g17_repo

Never run against /repo itself.  The script finishes with a regeneration from the unchanged /repo."""
import json
import os
import re
import subprocess
import sys
import time

HERE = os.path.dirname(os.path.abspath(__file__))
VERIF = os.path.dirname(HERE)
LIN = "control/flatsys/linflat.py"
FLAT = "control/flatsys/flatsys.py"
TRAJ = "control/flatsys/systraj.py"
FILES = [LIN, FLAT, TRAJ]

# (name, kind, file, [(old text, new text), ...]); kind: 'mutation' (must be reported) | 'refactor' (must pass)
EDITS = [
    ("init-no-row-flip", "mutation", LIN, [
        ("        Tr = np.array(Tr[::-1, ::])     # flip rows\n", "        Tr = np.array(Tr)\n")]),
    ("init-Cf-second-row", "mutation", LIN, [
        ("Cfz[0, 0] = 1\n", "Cfz[0, -1] = 1\n")]),
    ("fwd-input-dropped", "mutation", LIN, [
        ("            zflag[0][i] = (H @ (self.A @ x + self.B @ u)).item()\n",
         "            zflag[0][i] = (H @ (self.A @ x)).item()\n")]),
    ("rev-sign", "mutation", LIN, [
        ("        u = zflag[0][-1] - self.F @ z\n", "        u = zflag[0][-1] + self.F @ z\n")]),
    ("mat-derivative-off-by-one", "mutation", FLAT, [
        ("            M[flag_off + k, coef_off + j] = basis.eval_deriv(j, k, t, var=i)\n",
         "            M[flag_off + k, coef_off + j] = basis.eval_deriv(j, k + 1, t, var=i)\n")]),
    ("mat-row-offset-by-index", "mutation", FLAT, [
        ("            M[flag_off + k, coef_off + j] = basis.eval_deriv(j, k, t, var=i)\n",
         "            M[i * flag_len + k, coef_off + j] = basis.eval_deriv(j, k, t, var=i)\n")]),
    ("p2p-Z-halves-swapped", "mutation", FLAT, [
        ("    Z = np.hstack([np.hstack(zflag_T0), np.hstack(zflag_Tf)])\n",
         "    Z = np.hstack([np.hstack(zflag_Tf), np.hstack(zflag_T0)])\n")]),
    ("eval-highest-derivative-skipped", "mutation", TRAJ, [
        ("                    for k in range(flag_len):\n", "                    for k in range(flag_len - 1):\n")]),
    # agrees with the unchanged code on every system with fewer than 9 states (the family generates at most 4):
    # only the tie can see it
    ("fwd-ninth-derivative-zero", "mutation", LIN, [
        ("            H = H @ self.A       # derivative for next iteration\n",
         "            H = H @ self.A       # derivative for next iteration\n"
         "            if i == 9:\n                zflag[0][i] = 0.0\n")]),
    # ---- meaning-preserving refactorings: every obligation must stay discharged -----------------
    ("r-init-renamed", "refactor", LIN, [
        ("        zsys, Tr = control.reachable_form(linsys)\n        Tr = np.array(Tr[::-1, ::])     # flip rows\n",
         "        zs, Tzx = control.reachable_form(linsys)\n        Tflip = np.array(Tzx[::-1, ::])\n"),
        ("        self.F = np.array(zsys.A[0, ::-1])      # input function coeffs\n"
         "        self.T = Tr                             # state space transformation\n"
         "        self.Tinv = np.linalg.inv(Tr)           # compute inverse once\n",
         "        self.F = np.array(zs.A[0, ::-1])\n        self.T = Tflip\n        self.Tinv = np.linalg.inv(Tflip)\n"),
        ("        self.Cf = Cfz @ Tr\n", "        self.Cf = Cfz @ Tflip\n")]),
    ("r-init-statements-reordered", "refactor", LIN, [
        ("        self.F = np.array(zsys.A[0, ::-1])      # input function coeffs\n"
         "        self.T = Tr                             # state space transformation\n",
         "        self.T = Tr\n        firstrow = zsys.A[0, ::-1]\n        self.F = np.array(firstrow)\n")]),
    ("r-fwd-named-temporary", "refactor", LIN, [
        ("            zflag[0][i] = (H @ (self.A @ x + self.B @ u)).item()\n",
         "            dx = self.A @ x + self.B @ u\n            zflag[0][i] = (H @ dx).item()\n")]),
    ("r-rev-named-temporaries", "refactor", LIN, [
        ("        u = zflag[0][-1] - self.F @ z\n",
         "        zlast = zflag[0][-1]\n        Fz = self.F @ z\n        u = zlast - Fz\n")]),
    ("r-mat-renamed-offsets", "refactor", FLAT, [
        ("    flag_off = 0\n    coef_off = 0\n    for i, flag_len in enumerate(flagshape):\n"
         "        coef_len = basis.var_ncoefs(i)\n"
         "        for j, k in itertools.product(range(coef_len), range(flag_len)):\n"
         "            M[flag_off + k, coef_off + j] = basis.eval_deriv(j, k, t, var=i)\n"
         "        flag_off += flag_len\n        coef_off += coef_len\n",
         "    row0 = 0\n    col0 = 0\n    for out, nder in enumerate(flagshape):\n"
         "        ncoef = basis.var_ncoefs(out)\n"
         "        for jj, kk in itertools.product(range(ncoef), range(nder)):\n"
         "            M[row0 + kk, col0 + jj] = basis.eval_deriv(jj, kk, t, var=out)\n"
         "        row0 = row0 + nder\n        col0 = col0 + ncoef\n")]),
    ("r-p2p-named-halves", "refactor", FLAT, [
        ("    Z = np.hstack([np.hstack(zflag_T0), np.hstack(zflag_Tf)])\n",
         "    Z0 = np.hstack(zflag_T0)\n    Zf = np.hstack(zflag_Tf)\n    Z = np.hstack([Z0, Zf])\n")]),
    ("r-eval-renamed", "refactor", TRAJ, [
        ("        for tind, t in enumerate(tlist):\n", "        for col, t in enumerate(tlist):\n"),
        ("            xd[:,tind], ud[:,tind] = \\\n", "            xd[:,col], ud[:,col] = \\\n"),
        ("                flag_len = self.flaglen[i]\n                zflag.append(np.zeros(flag_len))\n",
         "                nder = self.flaglen[i]\n                zflag.append(np.zeros(nder))\n"),
        ("                    for k in range(flag_len):\n", "                    for k in range(nder):\n")]),
]


def checkout(repo):
    subprocess.run(["git", "-C", repo, "checkout", "--"] + FILES, check=True)


def run(repo, name):
    _, kind, rel, pairs = [e for e in EDITS if e[0] == name][0]
    checkout(repo)
    path = os.path.join(repo, rel)
    src = open(path).read()
    for old, new in pairs:
        if src.count(old) != 1:
            return {"name": name, "error": "pattern occurs %d times: %r" % (src.count(old), old[:60])}
        src = src.replace(old, new)
    open(path, "w").write(src)
    env = dict(os.environ, VERIF_REPO=repo, VERIF_NO_EVIDENCE="1", VERIF_SEED=os.environ.get("VERIF_SEED", "0"))
    t0 = time.time()
    p = subprocess.run(["/venv/bin/python", os.path.join(HERE, "check.py"), "C20", "--tier", "quick"],
                       cwd=VERIF, env=env, text=True, capture_output=True)
    out = p.stdout + p.stderr
    checkout(repo)
    viol = [l for l in out.split("\n") if l.startswith("VIOLATION")]
    summ = [l for l in out.split("\n") if l.startswith("C20 tier=")]
    m = re.search(r"obligations=(\d+)/(\d+)", out)
    first = None
    for v in viol:
        mm = re.search(r"replay=(\S+)", v)
        if mm and "no-failing-input-found" not in v:
            try:
                d = json.load(open(os.path.join(VERIF, mm.group(1))))
                first = {"replay": mm.group(1), "features": d.get("features"), "detail": str(d.get("detail", ""))[:200]}
            except Exception as e:      # noqa
                first = {"replay": mm.group(1), "error": str(e)}
            break
    broken = re.findall(r"(CtrlVerif/Props/\S+?\.lean):(\d+)", out)
    return {"name": name, "kind": kind, "file": rel, "exit": p.returncode,
            "obligations": m.group(0) if m else None, "violations": len(viol),
            "no_failing_input": sum("no-failing-input-found" in v for v in viol), "first_failing_input": first,
            "broken_at": sorted({b[0] for b in broken})[:4], "summary": summ[-1] if summ else out[-400:],
            "wall": round(time.time() - t0, 1),
            "problems": [l[:200] for l in out.split("\n") if "cannot be translated" in l][:2],
            "as_expected": (p.returncode == 1 and bool(viol)) if kind == "mutation" else p.returncode == 0}


if __name__ == "__main__":
    repo = os.path.abspath(sys.argv[1])
    if os.path.realpath(repo) == os.path.realpath("/repo"):
        sys.exit("refusing to edit /repo")
    names = sys.argv[2:] or [e[0] for e in EDITS]
    results = []
    for nm in names:
        r = run(repo, nm)
        results.append(r)
        print(json.dumps(r), flush=True)
    # leave the generated files as the unchanged tree defines them
    sys.path.insert(0, HERE)
    from core import py2lean_flat, leanproj
    py2lean_flat.regenerate("/repo", leanproj.LEAN)
    bad = [r["name"] for r in results if not r.get("as_expected")]
    print("not as expected:", bad)
