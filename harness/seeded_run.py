#!/venv/bin/python
"""Run the registered checks against the seeded breaking changes under /verif/seeded/.

usage: seeded_run.py [--tier quick|thorough] [--on-repo] [ids...]

For each seeded/<id>/ (patch.diff, demo.py, meta.json) the patch is applied to a scratch worktree
of /repo (default; removed afterwards) or to /repo itself (--on-repo: `git apply`, run,
`git checkout -- .`), the demonstration is run (must fail with the change), and the check of the
property named in meta.json is run with VERIF_REPO pointing at the patched tree.  Prints one line
per seed: caught / MISSED, and writes seeded/RESULTS.json.  Never commits anything to /repo."""
import argparse
import json
import os
import subprocess
import sys
import tempfile

VERIF = os.path.dirname(os.path.dirname(os.path.abspath(__file__)))
SEEDED = os.path.join(VERIF, "seeded")


def sh(cmd, **kw):
    return subprocess.run(cmd, text=True, capture_output=True, **kw)


def main():
    ap = argparse.ArgumentParser()
    ap.add_argument("--tier", default="quick")
    ap.add_argument("--on-repo", action="store_true")
    ap.add_argument("--seeds", default="0")
    ap.add_argument("ids", nargs="*")
    a = ap.parse_args()
    ids = a.ids or sorted(d for d in os.listdir(SEEDED) if os.path.isdir(os.path.join(SEEDED, d)))
    results = {}
    if os.path.exists(os.path.join(SEEDED, "RESULTS.json")):
        results = json.load(open(os.path.join(SEEDED, "RESULTS.json")))
    for sid in ids:
        d = os.path.join(SEEDED, sid)
        meta = json.load(open(os.path.join(d, "meta.json")))
        props = meta.get("checks") or [meta["property"]]
        patch = os.path.join(d, "patch.diff")
        if a.on_repo:
            tree = "/repo"
            if sh(["git", "-C", tree, "status", "--porcelain", "--untracked-files=no"]).stdout.strip():
                print("/repo is not clean; refusing")
                sys.exit(2)
        else:
            tree = tempfile.mkdtemp(prefix="seed_", dir="/tmp")
            os.rmdir(tree)
            r = sh(["git", "-C", "/repo", "worktree", "add", "--detach", tree, "HEAD"])
            if r.returncode:
                print(sid, "worktree failed", r.stderr)
                continue
        try:
            r = sh(["git", "-C", tree, "apply", patch])
            if r.returncode:
                print("%s: patch does not apply: %s" % (sid, r.stderr.strip()[:200]))
                results[sid] = {"status": "patch-does-not-apply"}
                continue
            env = dict(os.environ, PYTHONPATH=tree, VERIF_REPO=tree, MPLBACKEND="Agg", VERIF_NO_EVIDENCE="1")
            demo = sh(["/venv/bin/python", os.path.join(d, "demo.py")], env=env, cwd=d)
            out = {"demo_fails_with_change": demo.returncode != 0, "checks": {}}
            caught = False
            for prop in props:
                for seed in a.seeds.split(","):
                    e2 = dict(env, VERIF_SEED=seed)
                    if a.on_repo:
                        e2.pop("VERIF_REPO")
                    r = sh(["/venv/bin/python", os.path.join(VERIF, "harness", "check.py"), prop,
                            "--tier", a.tier], env=e2, cwd=VERIF)
                    viol = [l for l in r.stdout.split("\n") if l.startswith("VIOLATION")]
                    out["checks"]["%s/%s/seed%s" % (prop, a.tier, seed)] = {
                        "rc": r.returncode, "violations": viol[:4],
                        "no_failing_input": any("no-failing-input-found" in v for v in viol)}
                    if r.returncode == 1 and viol:
                        caught = True
                        break
                if caught:
                    break
            out["status"] = "caught" if caught else "MISSED"
            results[sid] = out
            print("%s: %s (demo fails with change: %s) %s" % (
                sid, out["status"], out["demo_fails_with_change"],
                "; ".join(v for c in out["checks"].values() for v in c["violations"][:1])))
        finally:
            if a.on_repo:
                sh(["git", "-C", "/repo", "checkout", "--", "."])
            else:
                sh(["git", "-C", "/repo", "worktree", "remove", "--force", tree])
            # Generated/*.lean were rewritten from the patched tree's source text: regenerate them
            # from the unchanged /repo (every check regenerates its own anyway)
            sh(["/venv/bin/python", os.path.join(VERIF, "harness", "regen_all.py")],
               env={k: v for k, v in os.environ.items() if k != "VERIF_REPO"})
            # evidence files are rewritten by the runs above against a patched tree: the caller
            # re-runs the checks on /repo before committing evidence
    json.dump(results, open(os.path.join(SEEDED, "RESULTS.json"), "w"), indent=1, sort_keys=True)


if __name__ == "__main__":
    main()
