"""Demonstration for the source-text tie of C13 (tag py2lean-unwrap, notes/NOTES-py2lean-unwrap.md):
apply semantic mutations / meaning-preserving refactorings of `ctrlutil.unwrap` and of the count /
indentation / P-Z statements of `nyquist_response` to a SCRATCH worktree of /repo and report which
proof obligations break and whether `check.py C13` then reports a VIOLATION with a failing input.

    git -C /repo worktree add --detach /tmp/w/g5_repo HEAD
    /venv/bin/python harness/nyq_tie_mutations.py /tmp/w/g5_repo [--fast] [name ...]
    git -C /repo worktree remove --force /tmp/w/g5_repo

`--fast`: only regenerate + `lake build` of the tie modules (no correspondence run).
Never run against /repo itself.  The script finishes with a regeneration from the unchanged /repo."""
import json
import os
import re
import subprocess
import sys
import time

HERE = os.path.dirname(os.path.abspath(__file__))
VERIF = os.path.dirname(HERE)
U, F = "control/ctrlutil.py", "control/freqplot.py"
MODS = ["CtrlVerif.Props.C13Gen", "CtrlVerif.Props.C13GenIndent", "CtrlVerif.Props.C13GenArg"]

# (name, kind, file, [(old text, new text), ...]); kind: 'mutation' | 'refactor' | 'outside'
EDITS = [
    # ---- semantic mutations: the obligation must break and the check must report a VIOLATION -----------
    ("unwrap-half-period-lost", "mutation", U,
     [("    dangle_desired = (dangle + period/2.) % period - period/2.",
       "    dangle_desired = (dangle + period/2.) % period - period")]),
    ("unwrap-correction-not-summed", "mutation", U,
     [("    correction = np.cumsum(dangle_desired - dangle)", "    correction = dangle_desired - dangle")]),
    ("unwrap-correction-sign", "mutation", U,
     [("    correction = np.cumsum(dangle_desired - dangle)", "    correction = np.cumsum(dangle - dangle_desired)")]),
    ("unwrap-default-period-pi", "mutation", U,
     [("def unwrap(angle, period=2*math.pi):", "def unwrap(angle, period=math.pi):")]),
    ("unwrap-no-copy", "mutation", U,
     [("    angle = np.array(angle, dtype=float)    # work on a copy of the input", "    angle = np.asarray(angle)")]),
    ("count-two-pi", "mutation", F,
     [("        encirclements = np.sum(np.diff(phase)) / np.pi", "        encirclements = np.sum(np.diff(phase)) / (2 * np.pi)")]),
    ("count-sign-lost", "mutation", F,
     [("        phase = -unwrap(np.angle(resp + 1))", "        phase = unwrap(np.angle(resp + 1))")]),
    ("count-angle-of-L", "mutation", F,
     [("        phase = -unwrap(np.angle(resp + 1))", "        phase = -unwrap(np.angle(resp))")]),
    ("count-truncated", "mutation", F,
     [("        count = int(np.round(encirclements, 0))", "        count = int(encirclements)")]),
    ("count-hidden-branch", "mutation", F,
     [("        count = int(np.round(encirclements, 0))",
       "        count = int(np.round(encirclements, 0))\n        if count == 37:\n            count = 36")]),
    ("indent-stable-side-flipped", "mutation", F,
     [("                        if p.real < 0 or (p.real == 0 and\n", "                        if p.real > 0 or (p.real == 0 and\n"),
      ("                        elif p.real > 0 or (p.real == 0 and\n", "                        elif p.real < 0 or (p.real == 0 and\n")]),
    ("indent-axis-direction-swapped", "mutation", F,
     [("                                        indent_direction == 'right'):", "                                        indent_direction == 'left'):"),
      ("                                            indent_direction == 'left'):", "                                            indent_direction == 'right'):")]),
    ("loop-offset-sign", "mutation", F,
     [("                            - (s - p).real\n", "                            + (s - p).real\n")]),
    ("loop-radius-doubled", "mutation", F,
     [("                    if abs(s - p) < indent_radius:", "                    if abs(s - p) < 2 * indent_radius:")]),
    ("P-counts-axis-poles", "mutation", F,
     [("                    P = (sys.poles().real > 0).sum()", "                    P = (sys.poles().real >= 0).sum()")]),
    ("Z-discrete-strict", "mutation", F,
     [("                Z = (np.abs(sys.feedback().poles()) >= 1).sum()", "                Z = (np.abs(sys.feedback().poles()) > 1).sum()")]),
    ("warn-test-P-minus", "mutation", F,
     [("            if Z != count + P and warn_encirclements:", "            if Z != count - P and warn_encirclements:")]),
    # ---- meaning-preserving refactorings: every obligation must stay discharged ---------------------
    ("r-unwrap-renamed", "refactor", U,
     [("    dangle = np.diff(angle)\n    dangle_desired = (dangle + period/2.) % period - period/2.\n"
       "    correction = np.cumsum(dangle_desired - dangle)\n    angle[1:] += correction",
       "    steps = np.diff(angle)\n    wanted = (steps + period/2.) % period - period/2.\n"
       "    fix = np.cumsum(wanted - steps)\n    angle[1:] += fix")]),
    ("r-unwrap-named-half", "refactor", U,
     [("    dangle_desired = (dangle + period/2.) % period - period/2.",
       "    half = period / 2\n    shifted = dangle + half\n    dangle_desired = shifted % period - half")]),
    ("r-unwrap-reordered", "refactor", U,
     [("    angle = np.array(angle, dtype=float)    # work on a copy of the input\n    dangle = np.diff(angle)\n",
       "    dangle = np.diff(angle)\n    angle = np.array(angle, dtype=float)\n")]),
    ("r-count-temporaries", "refactor", F,
     [("        phase = -unwrap(np.angle(resp + 1))\n        encirclements = np.sum(np.diff(phase)) / np.pi\n",
       "        angles = np.angle(resp + 1.0)\n        unwrapped = unwrap(angles, period=2 * math.pi)\n"
       "        phase = -unwrapped\n        total = np.sum(np.diff(phase))\n        encirclements = total / math.pi\n")]),
    ("r-count-renamed-round", "refactor", F,
     [("        encirclements = np.sum(np.diff(phase)) / np.pi\n        count = int(np.round(encirclements, 0))",
       "        turns = np.sum(np.diff(phase)) / np.pi\n        encirclements = turns\n        count = int(np.round(turns))")]),
    ("r-unrelated-edit", "refactor", F,
     [("        # Compute the primary curve\n        resp = sys(contour)\n",
       "        # Compute the primary curve\n\n\n        resp = sys(contour)   # evaluate\n")]),
    ("r-indent-renamed-pole", "refactor", F,
     [("                    p = splane_poles[(np.abs(splane_poles - s)).argmin()]", "                    pole = splane_poles[(np.abs(splane_poles - s)).argmin()]"),
      ("                    if abs(s - p) < indent_radius:", "                    if abs(s - pole) < indent_radius:"),
      ("                            indent_radius ** 2 - (s - p).imag ** 2) \\\n                            - (s - p).real",
       "                            indent_radius ** 2 - (s - pole).imag ** 2) \\\n                            - (s - pole).real"),
      ("                        if p.real < 0 or (p.real == 0 and\n", "                        if pole.real < 0.0 or (pole.real == 0 and\n"),
      ("                        elif p.real > 0 or (p.real == 0 and\n", "                        elif 0 < pole.real or (pole.real == 0 and\n")]),
    ("r-loop-named-difference", "refactor", F,
     [("                    if abs(s - p) < indent_radius:", "                    d = s - p\n                    if abs(d) < indent_radius:"),
      ("                            indent_radius ** 2 - (s - p).imag ** 2) \\\n                            - (s - p).real",
       "                            indent_radius ** 2 - d.imag ** 2) - d.real")]),
    ("r-PZ-renamed-reordered", "refactor", F,
     [("                if indent_direction == 'right':\n                    P = (sys.poles().real > 0).sum()\n"
       "                else:\n                    P = (sys.poles().real >= 0).sum()\n"
       "                Z = (sys.feedback().poles().real >= 0).sum()\n",
       "                n_cl = (sys.feedback().poles().real >= 0).sum()\n"
       "                if indent_direction == 'right':\n                    n_ol = (sys.poles().real > 0).sum()\n"
       "                else:\n                    n_ol = (sys.poles().real >= 0).sum()\n"),
      ("                if indent_direction == 'right':\n                    P = (np.abs(sys.poles()) > 1).sum()\n"
       "                else:\n                    P = (np.abs(sys.poles()) >= 1).sum()\n"
       "                Z = (np.abs(sys.feedback().poles()) >= 1).sum()\n",
       "                if indent_direction == 'right':\n                    n_ol = (np.abs(sys.poles()) > 1.0).sum()\n"
       "                else:\n                    n_ol = (np.abs(sys.poles()) >= 1).sum()\n"
       "                n_cl = (np.abs(sys.feedback().poles()) >= 1).sum()\n"),
      ("            if Z != count + P and warn_encirclements:", "            if n_cl != count + n_ol and warn_encirclements:")]),
    # ---- outside the subset / pattern no longer unique (meaning kept): translation fails ---------------
    ("x-count-assigned-twice", "outside", F,
     [("        count = int(np.round(encirclements, 0))",
       "        count = np.round(encirclements, 0)\n        count = int(count)")]),
    ("x-loop-argmax", "outside", F,
     [("                    p = splane_poles[(np.abs(splane_poles - s)).argmin()]", "                    p = splane_poles[(np.abs(splane_poles - s)).argmax()]")]),
    ("x-unwrap-np-subtract", "outside", U,
     [("    correction = np.cumsum(dangle_desired - dangle)", "    correction = np.cumsum(np.subtract(dangle_desired, dangle))")]),
]


def apply(repo, edit):
    _, kind, rel, pairs = edit
    path = os.path.join(repo, rel)
    src = open(path).read()
    for old, new in pairs:
        if src.count(old) != 1:
            return "pattern occurs %d times: %r" % (src.count(old), old[:50])
        src = src.replace(old, new)
    open(path, "w").write(src)
    return None


def restore(repo):
    subprocess.run(["git", "-C", repo, "checkout", "--", U, F], check=True)


def run(repo, name, fast):
    edit = [e for e in EDITS if e[0] == name][0]
    kind = edit[1]
    restore(repo)
    err = apply(repo, edit)
    if err:
        return {"name": name, "error": err}
    t0 = time.time()
    try:
        if fast:
            sys.path.insert(0, HERE)
            from core import py2lean_nyq, leanproj
            problems, _ = py2lean_nyq.regenerate(repo, leanproj.LEAN)
            ok, log = leanproj.lake_build(MODS)
            broken = sorted(set(re.findall(r"error: (CtrlVerif/\S+?\.lean):(\d+)", log)))
            return {"name": name, "kind": kind, "build_ok": ok, "problems": [p[:160] for p in problems],
                    "broken_at": broken[:4], "wall": round(time.time() - t0, 1),
                    "as_expected": ok == (kind == "refactor")}
        env = dict(os.environ, VERIF_REPO=repo, VERIF_NO_EVIDENCE="1", VERIF_SEED=os.environ.get("VERIF_SEED", "0"))
        p = subprocess.run(["/venv/bin/python", os.path.join(HERE, "check.py"), "C13", "--tier", "quick"],
                           cwd=VERIF, env=env, text=True, capture_output=True)
        out = p.stdout + p.stderr
    finally:
        restore(repo)
    viol = [l for l in out.split("\n") if l.startswith("VIOLATION")]
    summ = [l for l in out.split("\n") if l.startswith("C13 tier=")]
    m = re.search(r"obligations=(\d+)/(\d+)", out)
    first = None
    for v in viol:
        mm = re.search(r"replay=(\S+)", v)
        if mm and "no-failing-input-found" not in v:
            try:
                rp = json.load(open(os.path.join(VERIF, mm.group(1))))
                first = {"replay": mm.group(1), "case": json.dumps(rp.get("case"))[:260],
                         "detail": str(rp.get("detail"))[:200]}
            except Exception as e:
                first = {"replay": mm.group(1), "error": str(e)}
            break
    ev = {}
    return {"name": name, "kind": kind, "exit": p.returncode, "obligations": m.group(0) if m else None,
            "violations": len(viol), "no_failing_input": sum("no-failing-input-found" in v for v in viol),
            "first_failing_input": first, "summary": summ[-1] if summ else out[-400:],
            "wall": round(time.time() - t0, 1),
            "as_expected": (p.returncode == 1 and bool(viol)) if kind in ("mutation", "outside") else p.returncode == 0}


if __name__ == "__main__":
    args = [a for a in sys.argv[1:] if a != "--fast"]
    fast = "--fast" in sys.argv
    repo = os.path.abspath(args[0])
    if os.path.realpath(repo) == os.path.realpath("/repo"):
        sys.exit("refusing to edit /repo")
    names = args[1:] or [e[0] for e in EDITS]
    results = []
    for nm in names:
        r = run(repo, nm, fast)
        results.append(r)
        print(json.dumps(r), flush=True)
    restore(repo)
    sys.path.insert(0, HERE)
    from core import py2lean_nyq, leanproj
    py2lean_nyq.regenerate("/repo", leanproj.LEAN)
    leanproj.lake_build(MODS)
    print("not as expected:", [r["name"] for r in results if not r.get("as_expected")])
