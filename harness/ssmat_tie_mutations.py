#!/venv/bin/python
"""Mutation / refactoring demonstration for the source-text tie of `statesp._ssmatrix` (py2lean_ssmat, C11):
applies each edit to control/statesp.py of a scratch worktree, regenerates Generated/SsMatrix.lean from it
and builds the Props module.  usage: ssmat_tie_mutations.py <scratch worktree>
(the Generated file is restored from /repo at the end)"""
import os
import subprocess
import sys
import time
sys.path.insert(0, os.path.dirname(os.path.abspath(__file__)))
from core import py2lean_ssmat, leanproj

MUT = [
    ("M1 vectors become columns by default (axis test flipped)", [("shape = (1, shape[0]) if axis == 1 else (shape[0], 1)", "shape = (1, shape[0]) if axis == 0 else (shape[0], 1)")]),
    ("M2 the (1, 0) rule dropped", [("    elif (ndim == 2 and shape == (1, 0)) or \\\n         (ndim == 1 and shape == (0, )):", "    elif (ndim == 1 and shape == (0, )):")]),
    ("M3 3-d arrays pass", [("    if (ndim > 2):", "    if (ndim > 3):")]),
    ("M4 rows check compares the column count", [("    if rows is not None and shape[0] != rows:", "    if rows is not None and shape[1] != rows:")]),
    ("M5 square check skipped when rows is given", [("    if square and shape[0] != shape[1]:", "    if square and rows is None and shape[0] != shape[1]:")]),
    ("M6 scalars become (1, 0)", [("        shape = (1, 1)\n", "        shape = (1, 0)\n")]),
    ("M7 integer data kept as integers", [("arr = np.array(data, dtype=float)", "arr = np.array(data)")]),
]
REF = [
    ("R1 message texts changed", [("must be 2-dimensional", "must have two dimensions")]),
    ("R2 redundant parentheses removed", [("    if (ndim > 2):", "    if ndim > 2:")]),
]


def build():
    t = time.time()
    r = subprocess.run(["lake", "build", "CtrlVerif.Props.C11GenSsMat"], cwd=leanproj.LEAN,
                       capture_output=True, text=True)
    errs = [l for l in (r.stdout + r.stderr).split("\n") if l.startswith("error:") and ".lean:" in l]
    return r.returncode == 0, errs, time.time() - t


def main(repo):
    path = os.path.join(repo, "control", "statesp.py")
    orig = open(path).read()
    try:
        for name, edits in MUT + REF:
            src = orig
            if edits == "rename":
                a = src.index("def _check_convert_array(")
                b = src.index("# Forced response of a linear system")
                body = src[a:b].replace("s_legal", "shp").replace("the_val", "v0")
                src = src[:a] + body + src[b:]
            else:
                for old, new in edits:
                    assert src.count(old) == 1, (name, old, src.count(old))
                    src = src.replace(old, new)
            open(path, "w").write(src)
            probs, _ = py2lean_ssmat.regenerate(repo, leanproj.LEAN)
            ok, errs, dt = build()
            print("%-75s %s  (%.0fs) %s" % (name, "all obligations hold" if ok and not probs else "BROKEN",
                                            dt, (probs or errs)[:1]), flush=True)
    finally:
        open(path, "w").write(orig)
        py2lean_ssmat.regenerate("/repo", leanproj.LEAN)
        build()


if __name__ == "__main__":
    main(sys.argv[1])
