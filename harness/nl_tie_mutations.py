"""Demonstration for notes/NOTES-py2lean-nlsys.md: semantic mutations of the translated statements of
control/nlsys.py must break an obligation of C08 AND make the check report a VIOLATION; meaning-preserving
refactorings must keep every obligation discharged.  Usage:
    /venv/bin/python harness/nl_tie_mutations.py /tmp/w/g19_repo [name ...]
(the worktree is restored after every case; Generated/NL*.lean are regenerated from /repo at the end)."""
import os
import re
import subprocess
import sys
import time

HERE = os.path.dirname(os.path.abspath(__file__))
VERIF = os.path.dirname(HERE)

CASES = [
    # name, kind, [(old, new)]
    ("M1-ufun-weights-swapped", "mutation",
     [("return U[..., idx-1] * (1. - dt) + U[..., idx] * dt", "return U[..., idx-1] * dt + U[..., idx] * (1. - dt)")]),
    ("M2-loop-output-after-update", "mutation",
     [("            y.append(sys._out(t, x, u[-1]))\n\n            # Update the state for the next iteration\n            x = sys._rhs(t, x, u[-1])",
       "            x = sys._rhs(t, x, u[-1])\n            y.append(sys._out(t, x, u[-1]))")]),
    ("M3-vector-padding-in-front", "mutation",
     [("val = np.hstack([val, np.zeros(size - val.size)])", "val = np.hstack([np.zeros(size - val.size), val])")]),
    ("M4-linearize-input-step-doubled", "mutation",
     [("            du[i] = eps\n", "            du[i] = 2 * eps\n")]),
    ("M5-rootfun-discrete-sign", "mutation",
     [("            if sys.isdtime(strict=True):\n                dx -= x\n", "            if sys.isdtime(strict=True):\n                dx += x\n")]),
    ("M6-update-params-precedence", "mutation",
     [("            local.update(self.params)   # update with global params\n            if params:\n                local.update(params)    # update with locally passed parameters\n",
       "            if params:\n                local.update(params)    # update with locally passed parameters\n            local.update(self.params)   # update with global params\n")]),
    ("M7-ufun-clip-lower-bound", "mutation",
     [("side='left'), 1, len(T)-1)", "side='left'), 0, len(T)-1)")]),
    ("M8-opindex-state-vars-not-deleted", "mutation",
     [("else np.delete(np.array(range(nstates)), ix))", "else np.delete(np.array(range(nstates)), iu))")]),
    ("M9-ufun-special-time-tie-only", "mutation",
     [("        dt = (t - T[idx-1]) / (T[idx] - T[idx-1])\n        return U[", "        dt = (t - T[idx-1]) / (T[idx] - T[idx-1])\n        if t == 12345.678:\n            dt = 0.\n        return U[")]),
    ("M10-short-cut-discrete-term-dropped", "mutation",
     [("                def state_rhs(z): return sys._rhs(t, z, u0) - dxdes - z\n", "                def state_rhs(z): return sys._rhs(t, z, u0) - dxdes\n")]),
    ("R1-ufun-renamed", "refactoring",
     [("        idx = np.clip(np.searchsorted(T, t, side='left'), 1, len(T)-1)\n        dt = (t - T[idx-1]) / (T[idx] - T[idx-1])\n        return U[..., idx-1] * (1. - dt) + U[..., idx] * dt",
       "        k = np.clip(np.searchsorted(T, t, side='left'), 1, len(T) - 1)\n        lo = k - 1\n        w = (t - T[lo]) / (T[k] - T[lo])\n        return U[..., lo] * (1. - w) + U[..., k] * w")]),
    ("R2-loop-named-temporary-and-reordered", "refactoring",
     [("        soln.y = []                     # Solution, following scipy convention\n        u, y = [], []                   # System input, output\n",
       "        u, y = [], []                   # System input, output\n        soln.y = []                     # Solution, following scipy convention\n"),
      ("            soln.y.append(x)\n            u.append(ufun(t))\n            y.append(sys._out(t, x, u[-1]))\n\n            # Update the state for the next iteration\n            x = sys._rhs(t, x, u[-1])",
       "            uk = ufun(t)\n            u.append(uk)\n            soln.y.append(x)\n            y.append(sys._out(t, x, uk))\n            x = sys._rhs(t, x, uk)")]),
    ("R3-vector-renamed", "refactoring",
     [("        val_list = []\n        for i, v in enumerate(arg):\n            v = np.array(v).reshape(-1)             # convert to 1D array\n            val_list += v.tolist()                  # add elements to list\n        val = np.array(val_list)",
       "        acc = []\n        for k, part in enumerate(arg):\n            flat = np.array(part).reshape(-1)\n            acc = acc + flat.tolist()\n        val = np.array(acc)")]),
    ("R4-linearize-renamed-reordered", "refactoring",
     [("        F0 = self._rhs(t, x0, u0)\n        H0 = self._out(t, x0, u0)\n", "        H0 = self._out(t, x0, u0)\n        F0 = self._rhs(t, x0, u0)\n"),
      ("            dx = np.zeros((nstates,))\n            dx[i] = eps\n            A[:, i] = (self._rhs(t, x0 + dx, u0) - F0) / eps\n            C[:, i] = (self._out(t, x0 + dx, u0) - H0) / eps",
       "            delta = np.zeros((nstates,))\n            delta[i] = eps\n            xp = x0 + delta\n            A[:, i] = (self._rhs(t, xp, u0) - F0) / eps\n            C[:, i] = (self._out(t, xp, u0) - H0) / eps")]),
    ("R5-rootfun-renamed", "refactoring",
     [("            dx = sys._rhs(t, x, u) - dx0\n            if sys.isdtime(strict=True):\n                dx -= x\n",
       "            resid = sys._rhs(t, x, u) - dx0\n            if sys.isdtime(strict=True):\n                resid = resid - x\n            dx = resid\n")]),
    ("R6-update-params-renamed", "refactoring",
     [("            local = sys.params.copy()   # start with system parameters\n            local.update(self.params)   # update with global params\n            if params:\n                local.update(params)    # update with locally passed parameters\n            sys._update_params(local)",
       "            merged = sys.params.copy()\n            merged.update(self.params)\n            if params:\n                merged.update(params)\n            sys._update_params(merged)")]),
]


def run(repo, names):
    path = os.path.join(repo, "control", "nlsys.py")
    orig = open(path).read()
    rows = []
    try:
        for name, kind, reps in CASES:
            if names and name not in names:
                continue
            src = orig
            for old, new in reps:
                if src.count(old) != 1:
                    raise SystemExit("%s: pattern found %d times: %r" % (name, src.count(old), old[:60]))
                src = src.replace(old, new)
            with open(path, "w") as f:
                f.write(src)
            env = dict(os.environ, VERIF_REPO=repo, VERIF_NO_EVIDENCE="1", VERIF_SEED=os.environ.get("VERIF_SEED", "1"))
            t0 = time.time()
            p = subprocess.run(["/venv/bin/python", os.path.join(HERE, "check.py"), "C08", "--tier", "quick"],
                               cwd=VERIF, env=env, text=True, capture_output=True)
            out = p.stdout + p.stderr
            m = re.search(r"obligations=(\d+)/(\d+)", out)
            viol = [l for l in out.split("\n") if l.startswith("VIOLATION")]
            nf = sum(1 for l in viol if "no-failing-input-found" in l)
            m2 = re.search(r"violating=(\d+)", out)
            broken = re.findall(r"error: CtrlVerif/Props/(\w+)\.lean", out)
            rows.append((name, kind, p.returncode, m.group(0) if m else "?", len(viol), nf, m2.group(1) if m2 else "?",
                         sorted(set(broken)), round(time.time() - t0)))
            print(rows[-1], flush=True)
            if os.environ.get("VERIF_SHOW"):
                print(out[-3000:])
    finally:
        with open(path, "w") as f:
            f.write(orig)
        sys.path.insert(0, HERE)
        from core import py2lean_nl, leanproj
        py2lean_nl.regenerate("/repo", leanproj.LEAN)
    return rows


if __name__ == "__main__":
    run(sys.argv[1], sys.argv[2:])
