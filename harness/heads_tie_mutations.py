"""Demonstration for the source-text tie of the HEAD of stability_margins (C12)
(tag py2lean-heads, notes/NOTES-py2lean-heads.md): apply semantic mutations / meaning-preserving refactorings of
the translated statements to a SCRATCH worktree of /repo and report which proof obligations break and whether
`check.py` then reports a VIOLATION with a failing input.

    git -C /repo worktree add --detach /tmp/w/g23_repo HEAD
    /venv/bin/python harness/heads_tie_mutations.py /tmp/w/g23_repo [--fast] [name ...]
    git -C /repo worktree remove --force /tmp/w/g23_repo

`--fast`: only regenerate + `lake build` of the tie modules (no correspondence run).
Never run against /repo itself.  The script finishes with a regeneration from the unchanged /repo."""
import json
import os
import re
import subprocess
import sys
import time

HERE = os.path.dirname(os.path.abspath(__file__))
VERIF = os.path.dirname(HERE)
M = "control/margins.py"
MODS = {"C12": ["CtrlVerif.Props.C12GenHead"]}

BODE = ("            sys = frdata.FRD(mag * np.exp(1j * phase * math.pi / 180.),\n"
        "                             omega, smooth=True)")

# (name, kind, property, file, [(old text, new text), ...]); kind: 'mutation' | 'refactor' | 'outside'
EDITS = [
    # ---- semantic mutations -------------------------------------------------------------------------------
    ("bode-phase-in-place", "mutation", "C12", M,
     [(BODE, "            phase *= math.pi / 180.\n            sys = frdata.FRD(mag * np.exp(1j * phase),\n"
             "                             omega, smooth=True)")]),
    ("bode-degrees-as-half-turns", "mutation", "C12", M,
     [("np.exp(1j * phase * math.pi / 180.)", "np.exp(1j * phase * math.pi / 360.)")]),
    ("frd-copy-not-smooth", "mutation", "C12", M,
     [("            sys = frdata.FRD(sysdata, smooth=True)", "            sys = frdata.FRD(sysdata)")]),
    ("method-poly-unknown", "mutation", "C12", M,
     [("    elif method != 'poly':", "    elif method != 'polynomial':")]),
    ("siso-check-inverted", "mutation", "C12", M,
     [("    if not issiso(sys):", "    if issiso(sys):")]),
    ("best-fallback-continuous", "mutation", "C12", M,
     [("        if isinstance(sys, xferfcn.TransferFunction) and not sys.isctime():\n            if _likely",
       "        if isinstance(sys, xferfcn.TransferFunction) and sys.isctime():\n            if _likely")]),
    ("likely-threshold", "mutation", "C12", M,
     [("    return np.linalg.norm(p1) < 1e-4 * np.linalg.norm(p2)",
       "    return np.linalg.norm(p1) < 1e-2 * np.linalg.norm(p2)")]),
    ("nyquist-cut-doubled", "mutation", "C12", M,
     [("                omega_sys = omega_sys[omega_sys < np.pi / sys.dt]\n                sys = frdata.FRD(sys, omega_sys, smooth=True)\n    elif method != 'poly'",
       "                omega_sys = omega_sys[omega_sys < 2 * np.pi / sys.dt]\n                sys = frdata.FRD(sys, omega_sys, smooth=True)\n    elif method != 'poly'")]),
    ("hidden-method-branch", "mutation", "C12", M,
     [("    elif method != 'poly':", "    elif method == 'poly ':\n        sys = frdata.FRD(sys, freqplot._default_frequency_range(sys))\n    elif method != 'poly':")]),
    # ---- meaning-preserving refactorings -----------------------------------------------------------------
    ("r-bode-renamed", "refactor", "C12", M,
     [("            mag, phase, omega = sysdata\n" + BODE,
       "            gain, ang, freqs = sysdata\n            sys = frdata.FRD(gain * np.exp(1j * ang * math.pi / 180.),\n"
       "                             freqs, smooth=True)")]),
    ("r-bode-named-response", "refactor", "C12", M,
     [(BODE, "            resp = mag * np.exp(1j * phase * math.pi / 180.)\n"
             "            sys = frdata.FRD(resp, omega, smooth=True)")]),
    ("r-dispatch-tf-first", "refactor", "C12", M,
     [("        if isinstance(sysdata, frdata.FRD):\n            sys = frdata.FRD(sysdata, smooth=True)\n"
       "        elif isinstance(sysdata, xferfcn.TransferFunction):\n            sys = sysdata\n",
       "        if isinstance(sysdata, xferfcn.TransferFunction):\n            sys = sysdata\n"
       "        elif isinstance(sysdata, frdata.FRD):\n            sys = frdata.FRD(sysdata, smooth=True)\n")]),
    ("r-nyquist-limit-named", "refactor", "C12", M,
     [("                omega_sys = omega_sys[omega_sys < np.pi / sys.dt]\n                sys = frdata.FRD(sys, omega_sys, smooth=True)\n    elif method != 'poly'",
       "                limit = np.pi / sys.dt\n                below = omega_sys[omega_sys < limit]\n"
       "                sys = frdata.FRD(sys, below, smooth=True)\n    elif method != 'poly'")]),
    ("r-method-tests-flipped", "refactor", "C12", M,
     [("    if method == 'frd':", "    if 'frd' == method:"),
      ("    elif method != 'poly':\n        raise ValueError(\"method \" + method + \" unknown\")",
       "    elif method == 'poly':\n        pass\n    else:\n        raise ValueError(\"method \" + method + \" unknown\")")]),
    ("r-likely-reordered", "refactor", "C12", M,
     [("    p1 = np.polymul(num, num_inv_zp)\n    p2 = np.polymul(den, den_inv_zq)\n    if p_q < 0:\n        # * z**(-p_q)\n"
       "        x = [1] + [0] * (-p_q)\n        p1 = np.polymul(p1, x)\n    return np.linalg.norm(p1) < 1e-4 * np.linalg.norm(p2)",
       "    pden = np.polymul(den, den_inv_zq)\n    pnum = np.polymul(num, num_inv_zp)\n    if p_q < 0:\n"
       "        shift = [1] + [0] * (-p_q)\n        pnum = np.polymul(pnum, shift)\n    small = 1e-4 * np.linalg.norm(pden)\n"
       "    return np.linalg.norm(pnum) < small")]),
    # ---- outside the subset (meaning kept): translation fails --------------------------------------------
    ("x-dispatch-hasattr", "outside", "C12", M,
     [("        elif getattr(sysdata, '__iter__', False) and len(sysdata) == 3:",
       "        elif hasattr(sysdata, '__iter__') and len(sysdata) == 3:")]),
]


def apply(repo, edit):
    _, kind, prop, rel, pairs = edit
    path = os.path.join(repo, rel)
    src = open(path).read()
    for old, new in pairs:
        if src.count(old) != 1:
            return "pattern occurs %d times: %r" % (src.count(old), old[:50])
        src = src.replace(old, new)
    open(path, "w").write(src)
    return None


def restore(repo):
    subprocess.run(["git", "-C", repo, "checkout", "--", M], check=True)


def regen(repo, prop):
    sys.path.insert(0, HERE)
    from core import py2lean_heads, leanproj
    p, _ = py2lean_heads.regenerate(repo, leanproj.LEAN)
    return p, leanproj


def run(repo, name, fast):
    edit = [e for e in EDITS if e[0] == name][0]
    kind, prop = edit[1], edit[2]
    restore(repo)
    err = apply(repo, edit)
    if err:
        return {"name": name, "error": err}
    t0 = time.time()
    try:
        if fast:
            problems, leanproj = regen(repo, prop)
            ok, log = leanproj.lake_build(MODS[prop])
            broken = sorted(set(re.findall(r"error: (CtrlVerif/\S+?\.lean):(\d+)", log)))
            return {"name": name, "kind": kind, "build_ok": ok, "problems": [p[:200] for p in problems],
                    "broken_at": broken[:4], "wall": round(time.time() - t0, 1),
                    "as_expected": ok == (kind == "refactor")}
        env = dict(os.environ, VERIF_REPO=repo, VERIF_NO_EVIDENCE="1", VERIF_SEED=os.environ.get("VERIF_SEED", "0"))
        p = subprocess.run(["/venv/bin/python", os.path.join(HERE, "check.py"), prop, "--tier", "quick"],
                           cwd=VERIF, env=env, text=True, capture_output=True)
        out = p.stdout + p.stderr
    finally:
        restore(repo)
    viol = [l for l in out.split("\n") if l.startswith("VIOLATION")]
    summ = [l for l in out.split("\n") if l.startswith(prop + " tier=")]
    m = re.search(r"obligations=(\d+)/(\d+)", out)
    first = None
    for v in viol:
        mm = re.search(r"replay=(\S+)", v)
        if mm and "no-failing-input-found" not in v:
            try:
                rp = json.load(open(os.path.join(VERIF, mm.group(1))))
                first = {"replay": mm.group(1), "case": json.dumps(rp.get("case"))[:300],
                         "detail": str(rp.get("detail"))[:240]}
            except Exception as e:
                first = {"replay": mm.group(1), "error": str(e)}
            break
    return {"name": name, "kind": kind, "exit": p.returncode, "obligations": m.group(0) if m else None,
            "violations": len(viol), "no_failing_input": sum("no-failing-input-found" in v for v in viol),
            "first_failing_input": first, "first_violation": viol[0][:300] if viol else None,
            "summary": summ[-1] if summ else out[-400:],
            "wall": round(time.time() - t0, 1),
            "as_expected": (p.returncode == 1 and bool(viol)) if kind in ("mutation", "outside") else p.returncode == 0}


if __name__ == "__main__":
    args = [a for a in sys.argv[1:] if a != "--fast"]
    fast = "--fast" in sys.argv
    repo = os.path.abspath(args[0])
    if os.path.realpath(repo) == os.path.realpath("/repo"):
        sys.exit("refusing to edit /repo")
    names = args[1:] or [e[0] for e in EDITS]
    for nm in names:
        print(json.dumps(run(repo, nm, fast)), flush=True)
    restore(repo)
    regen("/repo", "C12")
