"""Demonstration for the source-text tie of C07, tag py2lean-iolist (notes/NOTES-py2lean-iolist.md): apply
semantic mutations / meaning-preserving refactorings of the `inplist` / `outlist` pre-processing loops of
`interconnect()` (control/nlsys.py) to a SCRATCH worktree of /repo, run `check.py C07 --tier quick` against it
(VERIF_REPO, VERIF_NO_EVIDENCE=1) and report which proof obligations break and whether a VIOLATION with a
failing input is reported.

    git -C /repo worktree add --detach /tmp/w/g26_repo HEAD
    /venv/bin/python harness/iolist_tie_mutations.py /tmp/w/g26_repo [name ...]
    git -C /repo worktree remove --force /tmp/w/g26_repo

Never run against /repo itself.  The script finishes with a regeneration from the unchanged /repo."""
import json
import os
import sys

HERE = os.path.dirname(os.path.abspath(__file__))
sys.path.insert(0, HERE)
import ic_tie_mutations as base  # noqa: E402

NLSYS = base.NLSYS

EDITS = [
    # ---- semantic mutations ----------------------------------------------------------------------------
    # outputs are no longer searched before inputs
    ("io-out-inputs-first", "mutation", NLSYS, [
        ("                    osys, indices, gain = _parse_spec(syslist, spec, 'output')\n",
         "                    osys, indices, gain = _parse_spec(syslist, spec, 'input')\n")]),
    # only the FIRST subsystem in which a bare signal name is found is used
    ("io-in-first-match-only", "mutation", NLSYS, [
        ("                    found_system = True\n                elif indices:\n                    # Signal name matches => store new connections\n",
         "                    found_system = True\n                elif indices and not found_signal:\n                    # Signal name matches => store new connections\n")]),
    # a subsystem name no longer expands to ALL its inputs
    ("io-in-sysname-first-only", "mutation", NLSYS, [
        ("                    for isig in range(sys.ninputs):\n", "                    for isig in range(1):\n")]),
    # wrong label source for the names of an expanded signal
    ("io-in-labels-of-outputs", "mutation", NLSYS, [
        ("                                    sys.input_labels[i] for i in indices]\n",
         "                                    sys.output_labels[i] for i in indices]\n")]),
    # a bare name in outlist is looked up among the subsystem inputs
    ("io-out-bare-in-inputs", "mutation", NLSYS, [
        ("                indices = sys._find_signals(sname, sys.output_index)\n",
         "                indices = sys._find_signals(sname, sys.input_index)\n")]),
    # a list entry of inplist is no longer ONE input
    ("io-in-list-not-summed", "mutation", NLSYS, [
        ("                new_inplist.append(signal_list)\n", "                new_inplist += signal_list\n")]),
    # `inplist` omitted: the flag that makes the loop rewrite `inputs` is not set
    ("io-none-flag-not-set", "mutation", NLSYS, [
        ("        inplist_none = True     # use to rewrite inputs below\n", "        inplist_none = False\n")]),
    # ---- meaning-preserving refactorings ------------------------------------------------------------------
    ("r-io-in-renamed-locals", "refactor", NLSYS, [
        ("                    new_connection = []\n                    for isig in indices:\n"
         "                        dprint(f\"  collecting input {(isys, isig, gain)}\")\n"
         "                        new_connection.append((isys, isig, gain))\n\n"
         "                    if len(new_connections) == 0:\n"
         "                        # First time we have seen this signal => initialize\n"
         "                        for cnx in new_connection:\n"
         "                            new_connections.append([cnx])\n"
         "                        if inplist_none:\n"
         "                            # See if we need to rewrite the inputs\n"
         "                            if len(new_connection) != 1:\n",
         "                    matches = []\n                    for j in indices:\n"
         "                        matches.append((isys, j, gain))\n\n"
         "                    if len(new_connections) == 0:\n"
         "                        for c in matches:\n"
         "                            new_connections.append([c])\n"
         "                        if inplist_none:\n"
         "                            if len(matches) != 1:\n"),
        ("                        # Additional signal match found =. add to the list\n"
         "                        for i, cnx in enumerate(new_connection):\n"
         "                            new_connections[i].append(cnx)\n"
         "                    found_signal = True\n\n"
         "            if found_system and found_signal:\n"
         "                raise ValueError(\n"
         "                    f\"signal '{sname}' is both signal and system name\")\n"
         "            elif found_signal:\n"
         "                dprint(f\"  adding inputs {new_connections}\")\n",
         "                        for i, c in enumerate(matches):\n"
         "                            new_connections[i].append(c)\n"
         "                    found_signal = True\n\n"
         "            if found_system and found_signal:\n"
         "                raise ValueError(\n"
         "                    f\"signal '{sname}' is both signal and system name\")\n"
         "            elif found_signal:\n"
         "                dprint(f\"  adding inputs {new_connections}\")\n")]),
    ("r-io-in-named-temporary", "refactor", NLSYS, [
        ("                                new_inputs += [\n                                    sys.input_labels[i] for i in indices]\n",
         "                                names = [sys.input_labels[i] for i in indices]\n"
         "                                new_inputs += names\n")]),
    ("r-io-in-reordered", "refactor", NLSYS, [
        ("            # Get the signal/system name\n"
         "            sname = connection[1:] if connection[0] == '-' else connection\n"
         "            gain = -1 if connection[0] == '-' else 1\n\n"
         "            # Look for the signal name as a system input\n"
         "            found_system, found_signal = False, False\n",
         "            found_signal, found_system = False, False\n"
         "            gain = -1 if connection[0] == '-' else 1\n"
         "            sname = connection[1:] if connection[0] == '-' else connection\n")]),
    ("r-io-out-renamed-fn", "refactor", NLSYS, [
        ("                signal_list = []\n                try:\n                    # First trying looking in the output signals\n"
         "                    osys, indices, gain = _parse_spec(syslist, spec, 'output')\n"
         "                    for osig in indices:\n"
         "                        dprint(f\"  adding output {(osys, osig, gain)}\")\n"
         "                        signal_list.append((osys, osig, gain))\n",
         "                signal_list = []\n                try:\n"
         "                    k, found, g = _parse_spec(syslist, spec, 'output')\n"
         "                    for j in found:\n"
         "                        triple = (k, j, g)\n"
         "                        signal_list.append(triple)\n")]),
    ("r-io-in-test-rewritten", "refactor", NLSYS, [
        ("                        # First time we have seen this signal => initialize\n"
         "                        for cnx in new_connection:\n",
         "                        for cnx in new_connection:\n"),
        ("                            if len(new_connection) != 1:\n                                new_inputs += [\n",
         "                            if not len(new_connection) == 1:\n                                new_inputs += [\n")]),
    ("r-io-none-reordered", "refactor", NLSYS, [
        ("        inplist = inputs or []\n        inplist_none = True     # use to rewrite inputs below\n",
         "        inplist_none = True\n        inplist = inputs or []\n")]),
    ("r-io-out-list-temporary", "refactor", NLSYS, [
        ("                    signal_list += _find_output_or_input_signal(spec)\n",
         "                    more = _find_output_or_input_signal(spec)\n                    signal_list += more\n")]),
]

base.EDITS = EDITS

if __name__ == "__main__":
    repo = os.path.abspath(sys.argv[1])
    if os.path.realpath(repo) == os.path.realpath("/repo"):
        sys.exit("refusing to edit /repo")
    names = sys.argv[2:] or [e[0] for e in EDITS]
    results = []
    for nm in names:
        r = base.run(repo, nm)
        results.append(r)
        print(json.dumps(r), flush=True)
    from core import py2lean_ic, py2lean_icx, py2lean_iolist, leanproj
    py2lean_ic.regenerate("/repo", leanproj.LEAN)
    py2lean_icx.regenerate("/repo", leanproj.LEAN)
    py2lean_iolist.regenerate("/repo", leanproj.LEAN)
    print("not as expected:", [r["name"] for r in results if not r.get("as_expected")])
