#!/venv/bin/python
"""Mutation / refactoring demonstration for the source-text tie of the timebase section of `combine_tf` / `_ensure_tf` (py2lean_combdt, C05):
applies each edit to control/bdalg.py of a scratch worktree, regenerates Generated/CombineDt.lean from it
and builds the Props module.  usage: combdt_tie_mutations.py <scratch worktree>
(the Generated file is restored from /repo at the end)"""
import os
import subprocess
import sys
import time
sys.path.insert(0, os.path.dirname(os.path.abspath(__file__)))
from core import py2lean_combdt, leanproj

MUT = [
    ("M1 timebase fold restarts in every row", [("    dt = None\n    try:\n        for row in tf_array:\n            for tfn in row:", "    dt = None\n    try:\n        for row in tf_array:\n            dt = None\n            for tfn in row:")]),
    ("M2 operands of common_timebase swapped away: only the entry's dt kept", [('dt = common_timebase(dt, getattr(tfn, "dt", None))', 'dt = common_timebase(None, getattr(tfn, "dt", None))')]),
    ("M3 _ensure_tf skips the timebase re-check", [("        if dt is not None:\n            try:\n                common_timebase(arraylike_or_tf.dt, dt)", "        if dt is None:\n            try:\n                common_timebase(arraylike_or_tf.dt, dt)")]),
    ("M4 constants get no timebase", [("            np.ones_like(arraylike_3d),\n            dt,\n", "            np.ones_like(arraylike_3d),\n            None,\n")]),
    ("M5 constructor called without dt", [("return tf.TransferFunction(num, den, dt=dt, **kwargs)", "return tf.TransferFunction(num, den, **kwargs)")]),
    ("M6 3-d arrays accepted", [("if np.ndim(arraylike_or_tf) > 2:", "if np.ndim(arraylike_or_tf) > 3:")]),
    ("M7 only the first row is ensured", [("    for row in tf_array:\n        ensured_row = []", "    for row in tf_array[:1]:\n        ensured_row = []")]),
]
REF = [
    ("R1 locals renamed (tfn -> blk, ensured_row -> erow)", "rename"),
    ("R2 message texts changed", [("`tf_array` has too few dimensions.", "tf_array needs two dimensions.")]),
]


def build():
    t = time.time()
    r = subprocess.run(["lake", "build", "CtrlVerif.Props.C05GenComb"], cwd=leanproj.LEAN,
                       capture_output=True, text=True)
    errs = [l for l in (r.stdout + r.stderr).split("\n") if l.startswith("error:") and ".lean:" in l]
    return r.returncode == 0, errs, time.time() - t


def main(repo):
    path = os.path.join(repo, "control", "bdalg.py")
    orig = open(path).read()
    try:
        for name, edits in MUT + REF:
            src = orig
            if edits == "rename":
                a = src.index("def combine_tf(")
                b = src.index("def split_tf(")
                body = src[a:b].replace("tfn", "blk").replace("ensured_row", "erow")
                src = src[:a] + body + src[b:]
            else:
                for old, new in edits:
                    assert src.count(old) == 1, (name, old, src.count(old))
                    src = src.replace(old, new)
            open(path, "w").write(src)
            probs, _ = py2lean_combdt.regenerate(repo, leanproj.LEAN)
            ok, errs, dt = build()
            print("%-75s %s  (%.0fs) %s" % (name, "all obligations hold" if ok and not probs else "BROKEN",
                                            dt, (probs or errs)[:1]), flush=True)
    finally:
        open(path, "w").write(orig)
        py2lean_combdt.regenerate("/repo", leanproj.LEAN)
        build()


if __name__ == "__main__":
    main(sys.argv[1])
