"""Demonstration for the source-text tie of C04 (tag py2lean-eval, notes/NOTES-py2lean-eval.md): apply
semantic mutations / meaning-preserving refactorings of the evaluation code (`horner`, `_has_zero_at`,
`_dcgain`, `frequency_response`) to a SCRATCH worktree of /repo, run `check.py C04 --tier quick`
against it (VERIF_REPO, VERIF_NO_EVIDENCE=1) and report which proof obligations break and whether a
VIOLATION with a failing input is reported.

    git -C /repo worktree add --detach /tmp/w/g11_repo HEAD
    /venv/bin/python harness/eval_tie_mutations.py /tmp/w/g11_repo [name ...]
    git -C /repo worktree remove --force /tmp/w/g11_repo

Never run against /repo itself.  The script finishes with a regeneration from the unchanged /repo."""
import json
import os
import re
import subprocess
import sys
import time

HERE = os.path.dirname(os.path.abspath(__file__))
VERIF = os.path.dirname(HERE)

X, S, L = "control/xferfcn.py", "control/statesp.py", "control/lti.py"
# (name, kind, file, [(old, new), ...]); kind: 'mutation' (must be caught) | 'refactor' (must pass)
EDITS = [
    ("tf-horner-den-column", "mutation", X, [
        ("polyval(self.den_array[i, j], x_arr))", "polyval(self.den_array[i, 0], x_arr))")]),
    ("ss-horner-1state-sign", "mutation", S, [
        ("                    / (x_arr - self.A[0, 0]) \\\n", "                    / (x_arr + self.A[0, 0]) \\\n")]),
    ("ss-horner-pole-values-swapped", "mutation", S, [
        ("                    if self._has_zero_at(x_idx):\n                        out[:, :, idx] = complex(np.nan, np.nan)\n"
         "                    else:\n                        out[:, :, idx] = complex(np.inf, np.nan)\n",
         "                    if self._has_zero_at(x_idx):\n                        out[:, :, idx] = complex(np.inf, np.nan)\n"
         "                    else:\n                        out[:, :, idx] = complex(np.nan, np.nan)\n")]),
    ("ss-horner-resolvent-sign", "mutation", S, [
        ("xr = solve(x_idx * eye(self.nstates) - self.A, self.B)", "xr = solve(x_idx * eye(self.nstates) + self.A, self.B)")]),
    ("has-zero-at-le", "mutation", S, [
        ("        return matrix_rank(sysmat) < \\\n", "        return matrix_rank(sysmat) <= \\\n")]),
    ("dcgain-strict-isctime", "mutation", L, [
        ("zeroresp = self(0 if self.isctime() else 1,", "zeroresp = self(0 if self.isctime(strict=True) else 1,")]),
    ("dcgain-any", "mutation", L, [          # seeded change C04-m3; leaves the subset (np.any of a 3-D array)
        ("if np.all(np.logical_or(np.isreal(zeroresp), np.isnan(zeroresp.imag))):",
         "if np.any(np.logical_or(np.isreal(zeroresp), np.isnan(zeroresp.imag))):")]),
    ("freq-exp-without-dt", "mutation", L, [
        ("            s = np.exp(1j * omega * self.dt)\n", "            s = np.exp(1j * omega)\n")]),
    ("freq-unsorted", "mutation", L, [
        ("        omega = np.sort(np.array(omega, ndmin=1))\n", "        omega = np.array(omega, ndmin=1)\n")]),
    ("ss-horner-isclose", "mutation", S, [   # seeded change C04-m5; leaves the subset
        ("            at_pole = x_arr == self.A[0, 0]\n", "            at_pole = np.isclose(x_arr, self.A[0, 0])\n")]),
    # ---- a change no sampled case can see (the family builds at most 4 states): only the tie reports it,
    #      as `no-failing-input-found` ----------------------------------------------------------------
    ("ss-horner-9-states-fast-path", "mutation", S, [
        ("        elif self.nstates == 1:\n            with np.errstate(divide='ignore', invalid='ignore'):",
         "        elif self.nstates == 1 or self.nstates == 9:\n            with np.errstate(divide='ignore', invalid='ignore'):")]),
    # ---- meaning-preserving refactorings: every obligation must stay discharged -----------------
    ("r-tf-horner-temporaries", "refactor", X, [
        ("                    out[i][j] = (polyval(self.num_array[i, j], x_arr) /\n"
         "                                 polyval(self.den_array[i, j], x_arr))\n",
         "                    numval = polyval(self.num_array[i, j], x_arr)\n"
         "                    denval = polyval(self.den_array[i, j], x_arr)\n"
         "                    out[i, j] = numval / denval\n")]),
    ("r-ss-horner-renamed-mask", "refactor", S, [
        ("            at_pole = x_arr == self.A[0, 0]\n            if np.any(at_pole):\n                out[:, :, at_pole] = ",
         "            pole = self.A[0, 0]\n            mask = x_arr == pole\n            if any(mask):\n                out[:, :, mask] = ")]),
    ("r-ss-horner-general-temporaries", "refactor", S, [
        ("                    xr = solve(x_idx * eye(self.nstates) - self.A, self.B)\n"
         "                    out[:, :, idx] = self.C @ xr + self.D\n",
         "                    resolvent = x_idx * np.eye(self.nstates) - self.A\n"
         "                    xr = np.linalg.solve(resolvent, self.B)\n"
         "                    value = self.C @ xr + self.D\n"
         "                    out[:, :, idx] = value\n")]),
    ("r-has-zero-at-names", "refactor", S, [
        ("        sysmat = np.block([[self.A - x * eye(self.nstates), self.B],\n"
         "                           [self.C, self.D]])\n"
         "        return matrix_rank(sysmat) < \\\n"
         "            self.nstates + min(self.ninputs, self.noutputs)\n",
         "        full = self.nstates + min(self.ninputs, self.noutputs)\n"
         "        shifted = self.A - x * np.eye(self.nstates)\n"
         "        rosenbrock = np.block([[shifted, self.B], [self.C, self.D]])\n"
         "        return np.linalg.matrix_rank(rosenbrock) < full\n")]),
    ("r-dcgain-temporaries", "refactor", L, [
        ("        zeroresp = self(0 if self.isctime() else 1,\n                        warn_infinite=warn_infinite)\n"
         "        if np.all(np.logical_or(np.isreal(zeroresp), np.isnan(zeroresp.imag))):\n"
         "            return zeroresp.real\n        else:\n            return zeroresp\n",
         "        point = 0 if self.isctime() else 1\n"
         "        gain = self(point, warn_infinite=warn_infinite)\n"
         "        realish = np.logical_or(np.isreal(gain), np.isnan(gain.imag))\n"
         "        if np.all(realish):\n"
         "            return gain.real\n        return gain\n")]),
    ("r-freq-renamed-and-negated", "refactor", L, [
        ("        omega = np.sort(np.array(omega, ndmin=1))\n        if self.isdtime(strict=True):\n"
         "            # Convert the frequency to discrete time\n"
         "            if np.any(omega * self.dt > np.pi):\n"
         "                warn(\"__call__: evaluation above Nyquist frequency\")\n"
         "            s = np.exp(1j * omega * self.dt)\n        else:\n            s = 1j * omega\n",
         "        grid = np.array(omega, ndmin=1)\n        omega = np.sort(grid)\n        if not self.isdtime(strict=True):\n"
         "            s = 1j * omega\n        else:\n"
         "            # Convert the frequency to discrete time\n"
         "            if np.any(omega * self.dt > np.pi):\n"
         "                warn(\"__call__: evaluation above Nyquist frequency\")\n"
         "            s = np.exp(1j * omega * self.dt)\n")]),
]


def run(repo, name):
    _, kind, rel, pairs = [e for e in EDITS if e[0] == name][0]
    path = os.path.join(repo, rel)
    subprocess.run(["git", "-C", repo, "checkout", "--", "control"], check=True)
    src = open(path).read()
    for old, new in pairs:
        if src.count(old) != 1:
            return {"name": name, "error": "pattern occurs %d times" % src.count(old)}
        src = src.replace(old, new)
    open(path, "w").write(src)
    env = dict(os.environ, VERIF_REPO=repo, VERIF_NO_EVIDENCE="1", VERIF_SEED=os.environ.get("VERIF_SEED", "0"))
    t0 = time.time()
    p = subprocess.run(["/venv/bin/python", os.path.join(HERE, "check.py"), "C04", "--tier", "quick"],
                       cwd=VERIF, env=env, text=True, capture_output=True)
    out = p.stdout + p.stderr
    subprocess.run(["git", "-C", repo, "checkout", "--", "control"], check=True)
    viol = [l for l in out.split("\n") if l.startswith("VIOLATION")]
    summ = [l for l in out.split("\n") if l.startswith("C04 tier=")]
    m = re.search(r"obligations=(\d+)/(\d+)", out)
    broken = re.findall(r"error: (CtrlVerif/Props/\S+?\.lean):(\d+)", out)
    return {"name": name, "kind": kind, "file": rel, "exit": p.returncode,
            "obligations": m.group(0) if m else None, "violations": len(viol),
            "first_violation": viol[0][:300] if viol else None,
            "no_failing_input": sum("no-failing-input-found" in v for v in viol),
            "broken_at": sorted(set(broken))[:4], "summary": summ[-1] if summ else out[-400:],
            "wall": round(time.time() - t0, 1),
            "problems": [l[:220] for l in out.split("\n") if "cannot be translated" in l][:2],
            "as_expected": (p.returncode == 1 and bool(viol)) if kind == "mutation" else p.returncode == 0}


if __name__ == "__main__":
    repo = os.path.abspath(sys.argv[1])
    if os.path.realpath(repo) == os.path.realpath("/repo"):
        sys.exit("refusing to edit /repo")
    names = sys.argv[2:] or [e[0] for e in EDITS]
    results = []
    for nm in names:
        r = run(repo, nm)
        results.append(r)
        print(json.dumps(r), flush=True)
    sys.path.insert(0, HERE)
    from core import py2lean_eval, leanproj
    py2lean_eval.regenerate("/repo", leanproj.LEAN)
    bad = [r["name"] for r in results if not r.get("as_expected")]
    print("not as expected:", bad)
