"""Demonstration for the source-text tie of the wrappers of control/bdalg.py (tag py2lean-bdalgfn,
notes/NOTES-py2lean-bdalgfn.md): apply semantic mutations / meaning-preserving refactorings of `feedback`,
`negate`, `series`, `parallel`, `append` to a SCRATCH worktree of /repo, run `check.py C01 --tier quick`
against it (VERIF_REPO, VERIF_NO_EVIDENCE=1) and report which proof obligations break and whether a
VIOLATION with a failing input is reported.

    git -C /repo worktree add --detach /tmp/w/g27_repo HEAD
    /venv/bin/python harness/bdalgfn_tie_mutations.py /tmp/w/g27_repo [name ...]
    git -C /repo worktree remove --force /tmp/w/g27_repo

Never run against /repo itself.  The script finishes with a regeneration from the unchanged /repo."""
import json
import os
import re
import subprocess
import sys
import time

HERE = os.path.dirname(os.path.abspath(__file__))
VERIF = os.path.dirname(HERE)

FB_TAIL = "    sys = sys1.feedback(sys2, sign)\n    sys.update_names(**kwargs)\n    return sys\n"
SERIES_RED = "    sys = reduce(lambda x, y: y * x, syslist[1:], syslist[0])\n"
PAR_RED = "    sys = reduce(lambda x, y: x + y, syslist[1:], syslist[0])\n"

# (name, kind, [(old text, new text), ...]); kind: 'mutation' (must be caught) | 'refactor' (must pass)
EDITS = [
    ("fb-sign-dropped-on-keyword-path", "mutation",
     [(FB_TAIL, "    sys = sys1.feedback(sys2)\n    sys.update_names(**kwargs)\n    return sys\n")]),
    ("fb-m8-except-branch-without-sign", "mutation",       # the seeded change C01-m8
     [("    except (AttributeError, TypeError):\n        pass\n",
       "    except AttributeError:\n        pass\n    except TypeError:\n        if kwargs:\n"
       "            sys = sys1.feedback(sys2)\n            sys.update_names(**kwargs)\n            return sys\n")]),
    ("fb-sign-negated-on-try-path", "mutation",
     [("        return sys1.feedback(sys2, sign, **kwargs)", "        return sys1.feedback(sys2, -sign, **kwargs)")]),
    ("fb-default-sys2-minus-one", "mutation",
     [("def feedback(sys1, sys2=1, sign=-1, **kwargs):", "def feedback(sys1, sys2=-1, sign=-1, **kwargs):")]),
    ("fb-default-sign-plus-one", "mutation",
     [("def feedback(sys1, sys2=1, sign=-1, **kwargs):", "def feedback(sys1, sys2=1, sign=1, **kwargs):")]),
    ("fb-operands-swapped", "mutation",
     [(FB_TAIL, "    sys = sys2.feedback(sys1, sign)\n    sys.update_names(**kwargs)\n    return sys\n")]),
    ("series-order-reversed", "mutation",
     [(SERIES_RED, "    sys = reduce(lambda x, y: x * y, syslist[1:], syslist[0])\n")]),
    ("series-last-argument-dropped", "mutation",
     [(SERIES_RED, "    sys = reduce(lambda x, y: y * x, syslist[1:-1], syslist[0])\n")]),
    ("parallel-last-argument-dropped", "mutation",
     [(PAR_RED, "    sys = reduce(lambda x, y: x + y, syslist[1:-1], syslist[0])\n")]),
    ("parallel-starts-at-second", "mutation",
     [(PAR_RED, "    sys = reduce(lambda x, y: x + y, syslist[2:], syslist[1])\n")]),
    ("append-skips-second", "mutation",
     [("    for s in sys[1:]:\n        s1 = s1.append(s)\n", "    for s in sys[2:]:\n        s1 = s1.append(s)\n")]),
    ("append-reversed", "mutation",
     [("        s1 = s1.append(s)\n", "        s1 = s.append(s1)\n")]),
    ("negate-identity", "mutation",
     [("    sys = -sys\n    sys.update_names(**kwargs)", "    sys = deepcopy(sys)\n    sys.update_names(**kwargs)")]),
    # ---- meaning-preserving refactorings: every obligation must stay discharged -----------------
    ("r-series-reduce-as-loop", "refactor",
     [(SERIES_RED, "    sys = syslist[0]\n    for nxt in syslist[1:]:\n        sys = nxt * sys\n")]),
    ("r-series-renamed-locals", "refactor",
     [("    syslist = sys\n" + SERIES_RED + "    if sys is syslist[0]:\n        sys = deepcopy(sys)     # single system: do not rename the argument\n    sys.update_names(**kwargs)\n    return sys\n",
       "    blocks = sys\n    first = blocks[0]\n    total = reduce(lambda acc, nxt: nxt * acc, blocks[1:], first)\n"
       "    if total is first:\n        total = deepcopy(total)\n    total.update_names(**kwargs)\n    return total\n")]),
    ("r-parallel-loop-and-temporaries", "refactor",
     [(PAR_RED, "    rest = syslist[1:]\n    sys = syslist[0]\n    for term in rest:\n        tmp = sys + term\n        sys = tmp\n")]),
    ("r-fb-renamed-and-temporaries", "refactor",
     [(FB_TAIL, "    loop = sys1.feedback(sys2, sign)\n    loop.update_names(**kwargs)\n    return loop\n"),
      ("        return sys1.feedback(sys2, sign, **kwargs)", "        closed = sys1.feedback(sys2, sign, **kwargs)\n        return closed")]),
    ("r-fb-keyword-arguments-of-the-method", "refactor",
     [(FB_TAIL, "    sys = sys1.feedback(sign=sign, other=sys2)\n    sys.update_names(**kwargs)\n    return sys\n")]),
    ("r-fb-separate-except-clauses", "refactor",
     [("    except (AttributeError, TypeError):\n        pass\n",
       "    except AttributeError:\n        pass\n    except TypeError:\n        pass\n")]),
    ("r-append-reduce", "refactor",
     [("    s1 = sys[0]\n    for s in sys[1:]:\n        s1 = s1.append(s)\n",
       "    s1 = reduce(lambda a, b: a.append(b), sys[1:], sys[0])\n")]),
    ("r-negate-temporary", "refactor",
     [("    sys = -sys\n    sys.update_names(**kwargs)\n    return sys\n",
       "    out = -sys\n    out.update_names(**kwargs)\n    return out\n")]),
    # ---- outside the translator's fragment (meaning kept): the translation fails, reported as a broken
    #      obligation without a failing input ------------------------------------------------------
    ("x-series-operator-mul", "outside",
     [(SERIES_RED, "    import operator\n    sys = reduce(lambda x, y: operator.mul(y, x), syslist[1:], syslist[0])\n")]),
]


def run(repo, name):
    _, kind, edits = [e for e in EDITS if e[0] == name][0]
    path = os.path.join(repo, "control", "bdalg.py")
    subprocess.run(["git", "-C", repo, "checkout", "--", "control/bdalg.py"], check=True)
    src = open(path).read()
    for old, new in edits:
        if src.count(old) != 1:
            return {"name": name, "error": "pattern occurs %d times: %r" % (src.count(old), old[:50])}
        src = src.replace(old, new, 1)
    open(path, "w").write(src)
    env = dict(os.environ, VERIF_REPO=repo, VERIF_NO_EVIDENCE="1", VERIF_SEED=os.environ.get("VERIF_SEED", "0"))
    t0 = time.time()
    p = subprocess.run(["/venv/bin/python", os.path.join(HERE, "check.py"), "C01", "--tier", "quick"],
                       cwd=VERIF, env=env, text=True, capture_output=True)
    out = p.stdout + p.stderr
    subprocess.run(["git", "-C", repo, "checkout", "--", "control/bdalg.py"], check=True)
    viol = [l for l in out.split("\n") if l.startswith("VIOLATION")]
    summ = [l for l in out.split("\n") if l.startswith("C01 tier=")]
    m = re.search(r"obligations=(\d+)/(\d+)", out)
    broken = re.findall(r"error: (CtrlVerif/Props/\S+?\.lean):(\d+)", out)
    return {"name": name, "kind": kind, "exit": p.returncode,
            "obligations": m.group(0) if m else None, "violations": len(viol),
            "first_violation": viol[0][:400] if viol else None,
            "no_failing_input": sum("no-failing-input-found" in v for v in viol),
            "broken_at": sorted(set(broken))[:6], "summary": summ[-1] if summ else out[-400:],
            "wall": round(time.time() - t0, 1),
            "problems": [l[:200] for l in out.split("\n") if "cannot be translated" in l][:2],
            "as_expected": (p.returncode == 1 and bool(viol)) if kind in ("mutation", "outside")
            else p.returncode == 0}


if __name__ == "__main__":
    repo = os.path.abspath(sys.argv[1])
    if os.path.realpath(repo) == os.path.realpath("/repo"):
        sys.exit("refusing to edit /repo")
    names = sys.argv[2:] or [e[0] for e in EDITS]
    results = []
    try:
        for nm in names:
            r = run(repo, nm)
            results.append(r)
            print(json.dumps(r), flush=True)
    finally:
        # leave the generated files as the unchanged tree defines them
        sys.path.insert(0, HERE)
        from core import py2lean_bdalgfn, leanproj
        py2lean_bdalgfn.regenerate("/repo", leanproj.LEAN)
    bad = [r["name"] for r in results if not r.get("as_expected")]
    print("not as expected:", bad)
