"""Demonstration for the source-text tie of the C10 bodies (tag py2lean-mateqn,
notes/NOTES-py2lean-mateqn.md): apply semantic mutations / meaning-preserving refactorings of `lyap`,
`dlyap`, `care`, `dare` to a SCRATCH worktree of /repo, run `check.py C10 --tier quick` against it
(VERIF_REPO, VERIF_NO_EVIDENCE=1) and report which proof obligations break and whether a VIOLATION with a
failing input is reported.

    git -C /repo worktree add --detach /tmp/w/g10_repo HEAD
    /venv/bin/python harness/meq_tie_mutations.py /tmp/w/g10_repo [name ...]
    git -C /repo worktree remove --force /tmp/w/g10_repo

Never run against /repo itself.  Replay files written by the runs are removed again; the script finishes
with a regeneration of the generated Lean files from the unchanged /repo."""
import json
import os
import re
import subprocess
import sys
import time

HERE = os.path.dirname(os.path.abspath(__file__))
VERIF = os.path.dirname(HERE)

# (name, kind, function, old text, new text); kind: 'mutation' (must be caught) | 'refactor' (must pass)
#  | 'tie-only' (a change the sampled correspondence cannot see: the tie alone reports it)
EDITS = [
    ("lyap-lost-sign", "mutation", "lyap",
     "            return sp.linalg.solve_continuous_lyapunov(A, -Q)",
     "            return sp.linalg.solve_continuous_lyapunov(A, Q)"),
    ("sylv-transposed-A", "mutation", "lyap",
     "            return sp.linalg.solve_sylvester(A, Q, -C)",
     "            return sp.linalg.solve_sylvester(A.T, Q, -C)"),
    ("dlyap-negated-Q", "mutation", "dlyap",
     "            return sp.linalg.solve_discrete_lyapunov(A, Q)",
     "            return sp.linalg.solve_discrete_lyapunov(A, -Q)"),
    ("care-gain-sign-of-S", "mutation", "care",
     "            K = np.linalg.solve(R, B.T @ X @ E + S.T)",
     "            K = np.linalg.solve(R, B.T @ X @ E - S.T)"),
    ("care-e-not-passed", "mutation", "care",
     "            X = sp.linalg.solve_continuous_are(A, B, Q, R, s=S, e=E)",
     "            X = sp.linalg.solve_continuous_are(A, B, Q, R, s=S)"),
    ("care-eig-without-E", "mutation", "care",
     "            eigs, _ = sp.linalg.eig(A - B @ K, E)",
     "            eigs, _ = sp.linalg.eig(A - B @ K)"),
    ("dare-gain-coefficient", "mutation", "dare",
     "            G = solve(B.T @ X @ B + R, B.T @ X @ A + S.T)\n        if E is None:",
     "            G = solve(R, B.T @ X @ A + S.T)\n        if E is None:"),
    ("dare-R-symmetry-unchecked", "mutation", "dare",
     "    _check_shape(R, m, m, square=True, symmetric=True, name=_Rs)\n    if E is not None:",
     "    _check_shape(R, m, m, square=True, name=_Rs)\n    if E is not None:"),
    ("dare-closed-loop-plus", "mutation", "dare",
     "            L = eigvals(A - B @ G)",
     "            L = eigvals(A + B @ G)"),
    ("method-scipy-misspelt", "mutation", "_slycot_or_scipy",
     "    elif method == 'scipy' or (method is None and not slycot_check()):",
     "    elif method == 'Scipy' or (method is None and not slycot_check()):"),
    # ---- changes the sampled correspondence cannot see (same exception CLASS): only the tie reports them ----
    ("care-check-order-S-before-E", "tie-only", "care",
     "        _check_shape(E, n, n, square=True, name=_Es)\n        _check_shape(S, n, m, name=_Ss)\n",
     "        _check_shape(S, n, m, name=_Ss)\n        _check_shape(E, n, n, square=True, name=_Es)\n"),
    ("x-lyap-C-unchecked-when-n-is-37", "outside", "lyap",
     "        _check_shape(C, n, m, name=\"C\")\n\n        if method == 'scipy':\n            # Solve the Sylvester equation using SciPy",
     "        if n != 37:\n            _check_shape(C, n, m, name=\"C\")\n\n        if method == 'scipy':\n            # Solve the Sylvester equation using SciPy"),
    # (the family always passes method='scipy': the default method=None is seen by the tie only)
    ("method-None-no-longer-scipy", "tie-only", "_slycot_or_scipy",
     "    elif method == 'scipy' or (method is None and not slycot_check()):",
     "    elif method == 'scipy' or (method is None and slycot_check()):"),
    # ---- meaning-preserving refactorings: every obligation must stay discharged -----------------
    ("r-method-or-operands-swapped", "refactor", "_slycot_or_scipy",
     "    if method == 'slycot' or (method is None and slycot_check()):\n        return 'slycot'\n    elif method == 'scipy' or (method is None and not slycot_check()):\n        return 'scipy'\n    else:\n        raise",
     "    if (slycot_check() and method is None) or method == 'slycot':\n        return 'slycot'\n    if (method is None and not slycot_check()) or method == 'scipy':\n        return 'scipy'\n    else:\n        raise"),
    ("r-lyap-named-temporary", "refactor", "lyap",
     "            return sp.linalg.solve_continuous_lyapunov(A, -Q)",
     "            minusQ = -Q\n            X = sp.linalg.solve_continuous_lyapunov(A, minusQ)\n            return X"),
    ("r-lyap-dimensions-reordered", "refactor", "lyap",
     "    n = A.shape[0]\n    m = Q.shape[0]\n\n    # Check to make sure input matrices are the right shape and type\n    _check_shape(A, n, n, square=True, name=\"A\")\n\n    # Solve standard Lyapunov equation\n    if C is None and E is None:\n        # Check to make sure input matrices are the right shape and type\n        _check_shape(Q, n, n, square=True, symmetric=True, name=\"Q\")\n\n        if method == 'scipy':\n            # Solve the Lyapunov equation using SciPy\n            return sp.linalg.solve_continuous_lyapunov",
     "    m = Q.shape[0]\n    nrows = A.shape[0]\n    n = nrows\n\n    # Check to make sure input matrices are the right shape and type\n    _check_shape(A, n, n, square=True, name=\"A\")\n\n    # Solve standard Lyapunov equation\n    if C is None and E is None:\n        # Check to make sure input matrices are the right shape and type\n        _check_shape(Q, n, n, square=True, symmetric=True, name=\"Q\")\n\n        if method == 'scipy':\n            # Solve the Lyapunov equation using SciPy\n            return sp.linalg.solve_continuous_lyapunov"),
    ("r-dlyap-test-order", "refactor", "dlyap",
     "    elif C is not None and E is None:\n        # Check to make sure input matrices are the right shape and type\n        _check_shape(Q, m, m, square=True, name=\"Q\")\n        _check_shape(C, n, m, name=\"C\")\n\n        if method == 'scipy':\n            raise ControlArgument(\n                \"method='scipy' not valid for Sylvester equation\")",
     "    elif E is None and C is not None:\n        # Check to make sure input matrices are the right shape and type\n        _check_shape(Q, m, m, square=True, name=\"Q\")\n        _check_shape(C, n, m, name=\"C\")\n\n        if method == 'scipy':\n            raise ControlArgument(\n                \"method='scipy' not valid for Sylvester equation\")"),
    ("r-care-renamed-gain-and-temporaries", "refactor", "care",
     "            K = np.linalg.solve(R, B.T @ X @ E + S.T)\n            eigs, _ = sp.linalg.eig(A - B @ K, E)\n            return X, eigs, K",
     "            BtX = B.T @ X\n            gain = np.linalg.solve(R, BtX @ E + S.T)\n            Acl = A - B @ gain\n            eigs, _ = sp.linalg.eig(Acl, E)\n            return X, eigs, gain"),
    ("r-care-keyword-order", "refactor", "care",
     "            X = sp.linalg.solve_continuous_are(A, B, Q, R, s=S, e=E)",
     "            X = sp.linalg.solve_continuous_are(A, B, Q, r=R, e=E, s=S)"),
    ("r-dare-reshapes-reordered", "refactor", "dare",
     "    A = np.array(A, ndmin=2)\n    B = np.array(B, ndmin=2)\n    Q = np.array(Q, ndmin=2)\n    R = np.eye(B.shape[1]) if R is None else np.array(R, ndmin=2)\n    if S is not None:\n        S = np.array(S, ndmin=2)\n    if E is not None:\n        E = np.array(E, ndmin=2)\n\n    # Determine main dimensions\n    n = A.shape[0]\n    m = B.shape[1]\n\n    # Check to make sure input matrices are the right shape and type\n    _check_shape(A, n, n, square=True, name=_As)\n    _check_shape(B, n, m, name=_Bs)\n    _check_shape(Q, n, n, square=True, symmetric=True, name=_Qs)\n    _check_shape(R, m, m, square=True, symmetric=True, name=_Rs)\n    if E is not None:\n        _check_shape(E, n, n, square=True, name=_Es)",
     "    Q = np.array(Q, ndmin=2)\n    B = np.array(B, ndmin=2)\n    A = np.array(A, ndmin=2)\n    if E is not None:\n        E = np.array(E, ndmin=2)\n    R = np.eye(B.shape[1]) if R is None else np.array(R, ndmin=2)\n    if S is not None:\n        S = np.array(S, ndmin=2)\n\n    # Determine main dimensions\n    n = A.shape[0]\n    m = B.shape[1]\n\n    # Check to make sure input matrices are the right shape and type\n    _check_shape(A, n, n, square=True, name=_As)\n    _check_shape(B, n, m, name=_Bs)\n    _check_shape(Q, n, n, square=True, symmetric=True, name=_Qs)\n    _check_shape(R, m, m, square=True, symmetric=True, name=_Rs)\n    if E is not None:\n        _check_shape(E, n, n, square=True, name=_Es)"),
    ("r-dare-branches-swapped", "refactor", "dare",
     "        if S is None:\n            G = solve(B.T @ X @ B + R, B.T @ X @ A)\n        else:\n            G = solve(B.T @ X @ B + R, B.T @ X @ A + S.T)\n        if E is None:",
     "        if S is not None:\n            G = solve(B.T @ X @ B + R, B.T @ X @ A + S.T)\n        else:\n            G = solve(B.T @ X @ B + R, B.T @ X @ A)\n        if E is None:"),
    ("r-dare-sp-linalg-solve-and-names", "refactor", "dare",
     "        if S is None:\n            G = solve(B.T @ X @ B + R, B.T @ X @ A)\n        else:\n            G = solve(B.T @ X @ B + R, B.T @ X @ A + S.T)\n        if E is None:",
     "        F = B.T @ X @ B + R\n        if S is None:\n            G = sp.linalg.solve(F, B.T @ X @ A)\n        else:\n            G = sp.linalg.solve(F, B.T @ X @ A + S.T)\n        if E is None:"),
    # ---- outside the translator's subset (meaning kept): the translation fails, reported as a broken
    #      obligation without a failing input ------------------------------------------------------
    ("x-lyap-np-negative", "outside", "lyap",
     "            return sp.linalg.solve_continuous_lyapunov(A, -Q)",
     "            return sp.linalg.solve_continuous_lyapunov(A, np.negative(Q))"),
]


def replay_files():
    d = os.path.join(VERIF, "replays")
    return set(os.listdir(d)) if os.path.isdir(d) else set()


def run(repo, name):
    edit = [e for e in EDITS if e[0] == name][0]
    _, kind, func, old, new = edit
    path = os.path.join(repo, "control", "mateqn.py")
    subprocess.run(["git", "-C", repo, "checkout", "--", "control/mateqn.py"], check=True)
    src = open(path).read()
    if src.count(old) != 1:
        return {"name": name, "error": "pattern occurs %d times" % src.count(old)}
    open(path, "w").write(src.replace(old, new))
    env = dict(os.environ, VERIF_REPO=repo, VERIF_NO_EVIDENCE="1", VERIF_SEED=os.environ.get("VERIF_SEED", "0"))
    before = replay_files()
    t0 = time.time()
    p = subprocess.run(["/venv/bin/python", os.path.join(HERE, "check.py"), "C10", "--tier", "quick"],
                       cwd=VERIF, env=env, text=True, capture_output=True)
    out = p.stdout + p.stderr
    subprocess.run(["git", "-C", repo, "checkout", "--", "control/mateqn.py"], check=True)
    viol = [l for l in out.split("\n") if l.startswith("VIOLATION")]
    first_case = None
    for v in viol:
        m = re.search(r"replay=(\S+)", v)
        if m and "no-failing-input-found" not in v:
            try:
                d = json.load(open(os.path.join(VERIF, m.group(1))))
                c = d.get("case") or (d.get("cases") or [None])[0]
                first_case = json.dumps(c)[:400]
            except Exception:  # noqa
                pass
            break
    for f in replay_files() - before:
        os.remove(os.path.join(VERIF, "replays", f))
    summ = [l for l in out.split("\n") if l.startswith("C10 tier=")]
    m = re.search(r"obligations=(\d+)/(\d+)", out)
    return {"name": name, "kind": kind, "function": func, "exit": p.returncode,
            "obligations": m.group(0) if m else None, "violations": len(viol),
            "first_violation": viol[0][:300] if viol else None,
            "failing_input": first_case,
            "no_failing_input": sum("no-failing-input-found" in v for v in viol),
            "summary": summ[-1] if summ else out[-400:],
            "wall": round(time.time() - t0, 1),
            "problems": [l[:200] for l in out.split("\n") if "cannot be translated" in l][:2],
            "as_expected": (p.returncode == 1 and bool(viol)) if kind in ("mutation", "outside", "tie-only")
            else p.returncode == 0}


if __name__ == "__main__":
    repo = os.path.abspath(sys.argv[1])
    if os.path.realpath(repo) == os.path.realpath("/repo"):
        sys.exit("refusing to edit /repo")
    names = sys.argv[2:] or [e[0] for e in EDITS]
    results = []
    for nm in names:
        r = run(repo, nm)
        results.append(r)
        print(json.dumps(r), flush=True)
    # leave the generated files as the unchanged tree defines them
    sys.path.insert(0, HERE)
    from core import py2lean_meq, py2lean_select, leanproj
    py2lean_meq.regenerate("/repo", leanproj.LEAN)
    py2lean_select.regenerate("/repo", leanproj.LEAN, "C10")
    bad = [r["name"] for r in results if not r.get("as_expected")]
    print("not as expected:", bad)
