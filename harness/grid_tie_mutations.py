#!/venv/bin/python
"""Mutation / refactoring demonstration for the source-text tie of the default frequency grid (py2lean_grid, C13):
applies each edit to control/freqplot.py of a scratch worktree, regenerates Generated/Grid*.lean from it and builds the two
Props modules.  usage: grid_tie_mutations.py <scratch worktree>   (the Generated files are restored from /repo at the end)"""
import os
import subprocess
import sys
import time
sys.path.insert(0, os.path.dirname(os.path.abspath(__file__)))
from core import py2lean_grid, leanproj

MUT = [
    ("M1 periphery not forwarded by _determine_omega_vector",
     [("                feature_periphery_decades=feature_periphery_decades)", "                feature_periphery_decades=None)")]),
    ("M2 nyquist_response asks for 1 decade", [("omega_num, feature_periphery_decades=2)", "omega_num, feature_periphery_decades=1)")]),
    ("M3 lsp_max without the periphery", [("lsp_max = np.rint(np.max(features) + feature_periphery_decades)", "lsp_max = np.rint(np.max(features))")]),
    ("M4 origin filter dropped (continuous branch)", [("                if np.any(toreplace):\n                    features_ = features_[~toreplace]\n            elif", "                if np.any(toreplace):\n                    features_ = features_\n            elif")]),
    ("M5 unspecified timebase treated as discrete-only: isctime(strict=True)", [("            if sys.isctime():\n                features_ = np.concatenate(", "            if sys.isctime(strict=True):\n                features_ = np.concatenate(")]),
    ("M6 Nyquist frequency not appended", [("                omega_sys = np.hstack((\n                    omega_sys[omega_sys < nyq_freq], nyq_freq))", "                omega_sys = omega_sys[omega_sys < nyq_freq]")]),
    ("M7 grid starts at omega[0]/2 instead of 0", [("np.linspace(0, omega[0], indent_points), omega[1:]))", "np.linspace(omega[0] / 2, omega[0], indent_points), omega[1:]))")]),
    ("M8 cut with <= (Nyquist frequency twice)", [("omega_sys[omega_sys < nyq_freq], nyq_freq))", "omega_sys[omega_sys <= nyq_freq], nyq_freq))")]),
]
REF = [
    ("R1 locals renamed (features -> feats, lsp_min -> lo, lsp_max -> hi)", "rename"),
    ("R2 named temporaries in the range computation",
     [("    lsp_min = np.rint(np.min(features) - feature_periphery_decades)\n", "    smallest = np.min(features)\n    lsp_min = np.rint(smallest - feature_periphery_decades)\n")]),
    ("R3 independent statements reordered (lsp_max before lsp_min; freq_interesting before features)",
     [("    lsp_min = np.rint(np.min(features) - feature_periphery_decades)\n    lsp_max = np.rint(np.max(features) + feature_periphery_decades)\n",
       "    lsp_max = np.rint(np.max(features) + feature_periphery_decades)\n    lsp_min = np.rint(np.min(features) - feature_periphery_decades)\n"),
      ("    features = np.array(())\n    freq_interesting = []\n", "    freq_interesting = []\n    features = np.array(())\n")]),
    ("R4 nyquist_response: named Nyquist frequency temporary, 0.0 for 0",
     [("            nyq_freq = math.pi / sys.dt\n", "            step = sys.dt\n            nyq_freq = math.pi / step\n"),
      ("np.linspace(0, omega[0], indent_points)", "np.linspace(0.0, omega[0], indent_points)")]),
    ("R5 _determine_omega_vector: positional call of _default_frequency_range",
     [("            omega_out = _default_frequency_range(\n                syslist, number_of_samples=omega_num, Hz=Hz,\n                feature_periphery_decades=feature_periphery_decades)",
       "            omega_out = _default_frequency_range(\n                syslist, Hz, omega_num, feature_periphery_decades)")]),
    ("R6 discrete branch: the filter mask inlined, fn renamed",
     [("                fn = math.pi / sys.dt\n", "                f_nyq = math.pi / sys.dt\n"), ("freq_interesting.append(fn * 0.9)", "freq_interesting.append(f_nyq * 0.9)")]),
]


def build():
    t = time.time()
    r = subprocess.run(["lake", "build", "CtrlVerif.Props.C13GenGrid", "CtrlVerif.Props.C13GenGridNyq"], cwd=leanproj.LEAN,
                       capture_output=True, text=True)
    errs = [l for l in (r.stdout + r.stderr).split("\n") if l.startswith("error:") and ".lean:" in l]
    return r.returncode == 0, errs, time.time() - t


def main(repo):
    path = os.path.join(repo, "control", "freqplot.py")
    orig = open(path).read()
    rows = []
    try:
        for name, edits in MUT + REF:
            src = orig
            if edits == "rename":
                import re
                a = src.index("def _default_frequency_range(")
                b = src.index("def get_pow1000")
                body = src[a:b]
                for old, new in (("features_", "F_SYS_"), ("features", "feats"), ("F_SYS_", "feats_sys"), ("lsp_min", "lo"), ("lsp_max", "hi")):
                    body = re.sub(r"\b%s\b" % old, new, body)
                src = src[:a] + body + src[b:]
            else:
                for old, new in edits:
                    assert src.count(old) == 1, (name, old)
                    src = src.replace(old, new)
            open(path, "w").write(src)
            problems, _ = py2lean_grid.regenerate(repo, leanproj.LEAN)
            ok, errs, wall = build()
            rows.append((name, "translated" if not problems else "TRANSLATION FAILED: " + problems[0][:120], ok, errs[:4], wall))
            print("%s | %s | build %s (%.0f s) | %s" % (name, rows[-1][1], "OK" if ok else "BROKEN", wall,
                                                       "; ".join(e.split(": ", 1)[0].split("/")[-1] for e in errs[:4])), flush=True)
    finally:
        open(path, "w").write(orig)
        py2lean_grid.regenerate("/repo", leanproj.LEAN)
        build()


if __name__ == "__main__":
    main(sys.argv[1])
