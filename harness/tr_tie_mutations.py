"""Demonstration for the source-text tie of C06 (tag py2lean-timeresp, notes/NOTES-py2lean-timeresp.md):
apply semantic mutations / meaning-preserving refactorings of the simulation blocks of
`forced_response` to a SCRATCH worktree of /repo, run `check.py C06 --tier quick` against it
(VERIF_REPO, VERIF_NO_EVIDENCE=1) and report which proof obligations break and whether a VIOLATION
with a failing input is reported.

    git -C /repo worktree add --detach /tmp/w/g8_repo HEAD
    /venv/bin/python harness/tr_tie_mutations.py /tmp/w/g8_repo [name ...]
    git -C /repo worktree remove --force /tmp/w/g8_repo

Never run against /repo itself.  The script finishes with a regeneration from the unchanged /repo."""
import json
import os
import re
import subprocess
import sys
import time

HERE = os.path.dirname(os.path.abspath(__file__))
VERIF = os.path.dirname(HERE)
REL = "control/timeresp.py"

# (name, kind, block, old text, new text); kind: 'mutation' (must be caught) | 'refactor' (must pass)
EDITS = [
    ("foh-weights-exchanged", "mutation", "frFoh",
     "                              + Bd0 @ U[:, i-1] + Bd1 @ U[:, i])",
     "                              + Bd0 @ U[:, i] + Bd1 @ U[:, i-1])"),
    ("foh-Bd0-not-subtracted", "mutation", "frFoh",
     "            Bd0 = expM[:n_states, n_states:n_states + n_inputs] - Bd1",
     "            Bd0 = expM[:n_states, n_states:n_states + n_inputs]"),
    ("foh-M-B-not-scaled", "mutation", "frFoh",
     "            M = np.block([[A * dt, B * dt, np.zeros((n_states, n_inputs))],",
     "            M = np.block([[A * dt, B, np.zeros((n_states, n_inputs))],"),
    ("foh-direct-term-dropped", "mutation", "frFoh",
     "            yout = C @ xout + D @ U",
     "            yout = C @ xout"),
    ("free-dt-dropped", "mutation", "frFree",
     "            expAdt = sp.linalg.expm(A * dt)",
     "            expAdt = sp.linalg.expm(A)"),
    ("zero-test-allclose", "mutation", "frCont",        # seeded change C06-m1: leaves the subset
     "        if U is None or np.all(U == 0):",
     "        if U is None or np.allclose(U, 0):"),
    ("zero-test-first-column", "mutation", "frCont",
     "        if U is None or np.all(U == 0):",
     "        if U is None or np.all(U[:, 0] == 0):"),
    ("disc-n-samples", "mutation", "frDisc",
     "        n_samples = (n_steps - 1) * int(round(dt / sys_dt)) + 1",
     "        n_samples = n_steps * int(round(dt / sys_dt)) + 1"),
    ("disc-time-not-shifted", "mutation", "frDisc",
     "        spT = T - T[0]",
     "        spT = T + T[0]"),
    ("disc-states-not-decimated", "mutation", "frDisc",
     "            xout = xout[::inc, :]",
     "            xout = xout[::1, :]"),
    ("grid-step-denominator", "mutation", "frGrid",
     "    dt = (T[-1] - T[0]) / (n_steps - 1)",
     "    dt = (T[-1] - T[0]) / n_steps"),
    # ---- agrees with every sampled case (grids have 2..9 points): caught ONLY by the tie, reported as a broken
    #      obligation without a failing input --------------------------------------------------------------
    ("foh-step-41", "tie-only", "frFoh",
     "                xout[:, i] = (Ad @ xout[:, i-1]\n                              + Bd0 @ U[:, i-1] + Bd1 @ U[:, i])",
     "                if i == 41:\n                    xout[:, i] = Ad @ xout[:, i-1] + Bd0 @ U[:, i-1] + Bd1 @ U[:, i-1]\n"
     "                else:\n                    xout[:, i] = (Ad @ xout[:, i-1]\n"
     "                                  + Bd0 @ U[:, i-1] + Bd1 @ U[:, i])"),
    # ---- meaning-preserving refactorings: every obligation must stay discharged -----------------
    ("r-foh-renamed", "refactor", "frFoh",
     None, None),           # Ad -> Phi, Bd0 -> Gam0, Bd1 -> Gam1, expM -> EM, M -> Maug (see `special`)
    ("r-foh-reordered", "refactor", "frFoh",
     "            Ad = expM[:n_states, :n_states]\n            Bd1 = expM[:n_states, n_states+n_inputs:]\n",
     "            Bd1 = expM[:n_states, n_states+n_inputs:]\n            Ad = expM[:n_states, :n_states]\n"),
    ("r-foh-named-temporaries", "refactor", "frFoh",
     "                xout[:, i] = (Ad @ xout[:, i-1]\n                              + Bd0 @ U[:, i-1] + Bd1 @ U[:, i])",
     "                xprev = xout[:, i-1]\n                uprev = U[:, i-1]\n"
     "                xout[:, i] = (Ad @ xprev\n                              + Bd0 @ uprev + Bd1 @ U[:, i])"),
    ("r-foh-bounds-rewritten", "refactor", "frFoh",
     "            Bd1 = expM[:n_states, n_states+n_inputs:]",
     "            Bd1 = expM[:n_states, n_inputs + n_states:]"),
    ("r-foh-zero-block-width", "refactor", "frFoh",
     "                         [np.zeros((n_inputs, n_states + 2 * n_inputs))]])",
     "                         [np.zeros((n_inputs, n_states + n_inputs + n_inputs))]])"),
    ("r-foh-dt-first", "refactor", "frFoh",
     "            M = np.block([[A * dt, B * dt, np.zeros((n_states, n_inputs))],",
     "            M = np.block([[dt * A, dt * B, np.zeros((n_states, n_inputs))],"),
    ("r-free-named-temporary", "refactor", "frFree",
     "                xout[:, i] = expAdt @ xout[:, i-1]",
     "                xprev = xout[:, i-1]\n                xout[:, i] = expAdt @ xprev"),
    ("r-disc-renamed-temporary", "refactor", "frDisc",
     None, None),           # inc -> k_dec, n_samples -> need, ratio = dt / sys_dt (see `special`)
    ("r-grid-named-temporary", "refactor", "frGrid",
     "    dt = (T[-1] - T[0]) / (n_steps - 1)",
     "    span = T[-1] - T[0]\n    dt = span / (n_steps - 1)"),
]


def special(name, src):
    if name == "r-foh-renamed":
        a = src.index("            M = np.block([[A * dt")
        b = src.index("        tout = T\n", a)
        blk = src[a:b]
        for old, new in (("Bd0", "Gam0"), ("Bd1", "Gam1"), ("Ad", "Phi"), ("expM", "EM")):
            blk = re.sub(r"\b%s\b" % old, new, blk)
        blk = re.sub(r"\bM\b", "Maug", blk)
        return src[:a] + blk + src[b:]
    if name == "r-disc-renamed-temporary":
        a = src.index("        # sp.signal.dlsim assumes T[0] == 0")
        b = src.index("        # Transpose the output and state vectors to match local convention")
        blk = src[a:b]
        blk = re.sub(r"\binc\b", "k_dec", blk)
        blk = re.sub(r"\bn_samples\b", "need", blk)
        blk = blk.replace("        need = (n_steps - 1) * int(round(dt / sys_dt)) + 1",
                          "        ratio = dt / sys_dt\n        need = (n_steps - 1) * int(round(ratio)) + 1")
        assert "ratio" in blk
        return src[:a] + blk + src[b:]
    raise KeyError(name)


def run(repo, name):
    edit = [e for e in EDITS if e[0] == name][0]
    _, kind, block, old, new = edit
    path = os.path.join(repo, REL)
    subprocess.run(["git", "-C", repo, "checkout", "--", REL], check=True)
    src = open(path).read()
    if old is None:
        out_src = special(name, src)
    else:
        if src.count(old) != 1:
            return {"name": name, "error": "pattern occurs %d times" % src.count(old)}
        out_src = src.replace(old, new)
    open(path, "w").write(out_src)
    env = dict(os.environ, VERIF_REPO=repo, VERIF_NO_EVIDENCE="1", VERIF_SEED=os.environ.get("VERIF_SEED", "0"))
    t0 = time.time()
    p = subprocess.run(["/venv/bin/python", os.path.join(HERE, "check.py"), "C06", "--tier", "quick"],
                       cwd=VERIF, env=env, text=True, capture_output=True)
    out = p.stdout + p.stderr
    subprocess.run(["git", "-C", repo, "checkout", "--", REL], check=True)
    viol = [l for l in out.split("\n") if l.startswith("VIOLATION")]
    summ = [l for l in out.split("\n") if l.startswith("C06 tier=")]
    m = re.search(r"obligations=(\d+)/(\d+)", out)
    broken = re.findall(r"error: (CtrlVerif/Props/\S+?\.lean):(\d+)", out)
    return {"name": name, "kind": kind, "block": block, "exit": p.returncode,
            "obligations": m.group(0) if m else None, "violations": len(viol),
            "first_violation": viol[0][:300] if viol else None,
            "no_failing_input": sum("no-failing-input-found" in v for v in viol),
            "broken_at": sorted(set(f for f, _ in broken))[:4], "summary": summ[-1] if summ else out[-400:],
            "wall": round(time.time() - t0, 1),
            "problems": [l[:200] for l in out.split("\n") if "cannot be translated" in l][:2],
            "bad": [l[:400] for l in out.split("\n") if "obligation" in l.lower() and "tier=" not in l][:3],
            "as_expected": (p.returncode == 1 and bool(viol)) if kind in ("mutation", "tie-only")
            else p.returncode == 0}


if __name__ == "__main__":
    repo = os.path.abspath(sys.argv[1])
    if os.path.realpath(repo) == os.path.realpath("/repo"):
        sys.exit("refusing to edit /repo")
    names = sys.argv[2:] or [e[0] for e in EDITS]
    results = []
    for nm in names:
        r = run(repo, nm)
        results.append(r)
        print(json.dumps(r), flush=True)
    sys.path.insert(0, HERE)
    from core import py2lean_tr, leanproj
    py2lean_tr.regenerate("/repo", leanproj.LEAN)
    bad = [r["name"] for r in results if not r.get("as_expected")]
    print("not as expected:", bad)
