#!/venv/bin/python
"""check.py Cxx [--tier quick|thorough] [--replay file]   (cwd = /verif)"""
import argparse
import importlib
import os
import sys
import warnings

HERE = os.path.dirname(os.path.abspath(__file__))
sys.path.insert(0, HERE)
if os.environ.get("VERIF_REPO"):
    sys.path.insert(0, os.environ["VERIF_REPO"])   # test against a scratch worktree of /repo
os.environ.setdefault("OMP_NUM_THREADS", "1")
os.environ.setdefault("OPENBLAS_NUM_THREADS", "1")
os.environ.setdefault("MPLBACKEND", "Agg")


def main():
    ap = argparse.ArgumentParser()
    ap.add_argument("prop")
    ap.add_argument("--tier", default=os.environ.get("VERIF_TIER", "quick"))
    ap.add_argument("--replay", default=None)
    a = ap.parse_args()
    seed = int(os.environ.get("VERIF_SEED", "0") or 0)
    warnings.simplefilter("ignore")
    from core import runner
    try:
        mod = importlib.import_module("families." + a.prop.lower())
        fam = mod.FAMILY()
    except Exception as e:  # the implementation could not even be imported
        import traceback
        traceback.print_exc()
        print("INFRA: cannot set up family %s: %s" % (a.prop, e))
        sys.exit(2)
    try:
        rc = runner.run_check(fam, a.tier, seed, replay=a.replay)
    except runner.InfraError as e:
        print("INFRA: %s" % e)
        rc = 2
    sys.exit(rc)


if __name__ == "__main__":
    main()
