#!/venv/bin/python
"""Mutation / refactoring demonstration for the source-text tie of `_check_convert_array` (py2lean_cca, C06):
applies each edit to control/timeresp.py of a scratch worktree, regenerates Generated/CheckConvertArray.lean from it
and builds the two Props modules.  usage: cca_tie_mutations.py <scratch worktree>
(the Generated file is restored from /repo at the end)"""
import os
import subprocess
import sys
import time
sys.path.insert(0, os.path.dirname(os.path.abspath(__file__)))
from core import py2lean_cca, leanproj

MUT = [
    ("M1 joker shapes no longer skipped when a scalar is filled", [('            if "any" in s_legal:\n                continue\n', "")]),
    ("M2 fewer axes than the legal shape accepted (len compared with <)", [("if len(s_legal) != len(s_actual):", "if len(s_legal) < len(s_actual):")]),
    ("M3 joker test dropped in shape_matches", [('            if n_legal == "any":\n                continue\n', "")]),
    ("M4 unsigned integers / booleans accepted", [('legal_kinds = set(("i", "f", "c"))', 'legal_kinds = set(("i", "f", "c", "b"))')]),
    ("M5 squeeze leaves a 0-d array", [("        if out_array.shape == tuple():\n            out_array = out_array.reshape((1,))\n", "")]),
    ("M6 transposition applied when the flag is off", [("    if (transpose):\n", "    if (not transpose):\n")]),
    ("M7 scalar loop does not stop at the first shape", [("            out_array.fill(the_val)\n            break\n", "            out_array.fill(the_val)\n            continue\n")]),
    ("M8 shape test against the legal shapes skipped for 3-d input", [("        if shape_matches(s_legal, out_array.shape):\n", "        if shape_matches(s_legal, out_array.shape) or out_array.ndim == 3:\n")]),
]
REF = [
    ("R1 locals renamed (s_legal -> shp, the_val -> v0)", "rename"),
    ("R2 parentheses / comments / message text changed",
     [("    if (transpose):\n", "    if transpose:\n"), ('"Wrong element data type: ', '"Bad element data type: ')]),
    ("R3 legal kinds listed in another order", [('set(("i", "f", "c"))', 'set(("f", "i", "c"))')]),
]


def build():
    t = time.time()
    r = subprocess.run(["lake", "build", "CtrlVerif.Props.C06GenCCA", "CtrlVerif.Props.C06GenCCAUses"], cwd=leanproj.LEAN,
                       capture_output=True, text=True)
    errs = [l for l in (r.stdout + r.stderr).split("\n") if l.startswith("error:") and ".lean:" in l]
    return r.returncode == 0, errs, time.time() - t


def main(repo):
    path = os.path.join(repo, "control", "timeresp.py")
    orig = open(path).read()
    try:
        for name, edits in MUT + REF:
            src = orig
            if edits == "rename":
                a = src.index("def _check_convert_array(")
                b = src.index("# Forced response of a linear system")
                body = src[a:b].replace("s_legal", "shp").replace("the_val", "v0")
                src = src[:a] + body + src[b:]
            else:
                for old, new in edits:
                    assert src.count(old) == 1, (name, old, src.count(old))
                    src = src.replace(old, new)
            open(path, "w").write(src)
            probs, _ = py2lean_cca.regenerate(repo, leanproj.LEAN)
            ok, errs, dt = build()
            print("%-75s %s  (%.0fs) %s" % (name, "all obligations hold" if ok and not probs else "BROKEN",
                                            dt, (probs or errs)[:1]), flush=True)
    finally:
        open(path, "w").write(orig)
        py2lean_cca.regenerate("/repo", leanproj.LEAN)
        build()


if __name__ == "__main__":
    main(sys.argv[1])
