#!/venv/bin/python
"""run_all.py [--tier quick] [--seed N] [ids...]: run every registered check on /repo, one summary line each."""
import json, os, subprocess, sys, time
VERIF = os.path.dirname(os.path.dirname(os.path.abspath(__file__)))
args = sys.argv[1:]
tier, seed = "quick", os.environ.get("VERIF_SEED", "0")
ids = []
while args:
    a = args.pop(0)
    if a == "--tier": tier = args.pop(0)
    elif a == "--seed": seed = args.pop(0)
    else: ids.append(a)
man = json.load(open(os.path.join(VERIF, "MANIFEST.json")))
bad = 0
for c in man["checks"]:
    if ids and c["property_id"] not in ids:
        continue
    t = time.time()
    cmd = c["quick_cmd"] if tier == "quick" else c["thorough_cmd"]
    r = subprocess.run(cmd, shell=True, cwd=VERIF, text=True, capture_output=True, env=dict(os.environ, VERIF_SEED=seed))
    last = [l for l in r.stdout.strip().split("\n") if l.startswith(c["property_id"] + " tier")]
    viol = [l for l in r.stdout.split("\n") if l.startswith("VIOLATION")]
    print("rc=%d %5.1fs %s %s" % (r.returncode, time.time() - t, last[-1] if last else r.stdout[-300:] + r.stderr[-300:], " | ".join(viol[:3])), flush=True)
    bad += r.returncode != 0
sys.exit(1 if bad else 0)
