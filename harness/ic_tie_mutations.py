"""Demonstration for the source-text tie of C07 (tag py2lean-ic, notes/NOTES-py2lean-ic.md): apply
semantic mutations / meaning-preserving refactorings of the construction of interconnected systems
(`_parse_spec` in control/iosys.py; `InterconnectedSystem.__init__`, `_parse_input_spec`,
`_parse_output_spec`, the operator forms, `_compute_static_io`, `_rhs`, `_out` in control/nlsys.py) to
a SCRATCH worktree of /repo, run `check.py C07 --tier quick` against it (VERIF_REPO,
VERIF_NO_EVIDENCE=1) and report which proof obligations break and whether a VIOLATION with a failing
input is reported.

    git -C /repo worktree add --detach /tmp/w/g14_repo HEAD
    /venv/bin/python harness/ic_tie_mutations.py /tmp/w/g14_repo [name ...]
    git -C /repo worktree remove --force /tmp/w/g14_repo

Never run against /repo itself.  The script finishes with a regeneration from the unchanged /repo."""
import json
import os
import re
import subprocess
import sys
import time

HERE = os.path.dirname(os.path.abspath(__file__))
VERIF = os.path.dirname(HERE)
IOSYS, NLSYS = "control/iosys.py", "control/nlsys.py"

# (name, kind, file, [(old text, new text), ...]); kind: 'mutation' (must be caught) | 'refactor' (must pass)
EDITS = [
    # ---- (1) _parse_spec ---------------------------------------------------------------------------
    ("ps-range-upper-only", "mutation", IOSYS, [
        ("        if index < 0 or index >= nsignals:", "        if index >= nsignals:")]),
    ("ps-gain-default-sign", "mutation", IOSYS, [
        ("    elif check_sign(signal_spec):\n        gain = -1", "    elif check_sign(signal_spec):\n        gain = 1")]),
    ("ps-explicit-zero-gain", "mutation", IOSYS, [
        ("    elif gain is None:\n        gain = 1", "    elif not gain:\n        gain = 1")]),
    ("ps-sys-range-off-by-one", "mutation", IOSYS, [
        ("    if system_index < 0 or system_index >= len(syslist):",
         "    if system_index < 0 or system_index > len(syslist):")]),
    ("ps-sign-needs-both", "mutation", IOSYS, [
        ("    if (check_sign(system_spec) and gain is not None) or \\\n"
         "       (check_sign(signal_spec) and gain is not None) or \\\n",
         "    if (check_sign(system_spec) and gain is not None) or \\\n"
         "       (check_sign(signal_spec) and gain is None) or \\\n")]),
    # only the tie: the correspondence family never has 38 subsystems
    ("ps-index-37", "mutation", IOSYS, [
        ("    # Make sure the system index is valid\n",
         "    if system_index == 37:\n        system_index = 36\n    # Make sure the system index is valid\n")]),
    ("r-ps-renamed", "refactor", IOSYS, [
        ("        namelist = re.split(r'\\.', spec)\n        system_spec, gain = namelist[0], None\n"
         "        signal_spec = None if len(namelist) < 2 else namelist[1]\n        if len(namelist) > 2:",
         "        pieces = re.split(r'\\.', spec)\n        system_spec, gain = pieces[0], None\n"
         "        signal_spec = None if len(pieces) < 2 else pieces[1]\n        if len(pieces) > 2:")]),
    ("r-ps-named-temporaries", "refactor", IOSYS, [
        ("    if system_index < 0 or system_index >= len(syslist):",
         "    nsys = len(syslist)\n    if system_index < 0 or system_index >= nsys:"),
        ("    signal_dict = getattr(syslist[system_index], dictname)\n",
         "    subsystem = syslist[system_index]\n    signal_dict = getattr(subsystem, dictname)\n"),
        ("        signal_indices = syslist[system_index]._find_signals(",
         "        signal_indices = subsystem._find_signals(")]),
    ("r-ps-reordered", "refactor", IOSYS, [
        ("        signal_spec = None if len(spec) < 2 else spec[1]\n        gain = None if len(spec) < 3 else spec[2]\n",
         "        gain = None if len(spec) < 3 else spec[2]\n        signal_spec = None if len(spec) < 2 else spec[1]\n"),
        ("    dictname = signame + '_index' if dictname is None else dictname\n    signal_dict = getattr(",
         "    signal_dict = getattr("),
        ("    # Make sure the system index is valid\n",
         "    dictname = signame + '_index' if dictname is None else dictname\n"
         "    # Make sure the system index is valid\n")]),
    ("r-ps-test-rewritten", "refactor", IOSYS, [
        ("        if index < 0 or index >= nsignals:", "        if index >= nsignals or index < 0:"),
        ("    elif isinstance(spec, tuple) and len(spec) <= 3:", "    elif isinstance(spec, tuple) and 3 >= len(spec):")]),
    # ---- (2) __init__ / _parse_input_spec / _parse_output_spec ---------------------------------------
    ("init-assign-not-accumulate", "mutation", NLSYS, [
        ("                    self.connect_map[input_index, output_index] += gain",
         "                    self.connect_map[input_index, output_index] = gain")]),
    ("init-output-offset", "mutation", NLSYS, [
        ("            output_offset = self.output_offset[subsys_index]\n",
         "            output_offset = self.input_offset[subsys_index]\n")]),
    ("init-input-column", "mutation", NLSYS, [
        ("                    self.input_map[ulist_index, index + j] += 1",
         "                    self.input_map[ulist_index, index] += 1")]),
    ("r-init-renamed", "refactor", NLSYS, [
        ("                ulist_indices = self._parse_input_spec(spec)\n"
         "                for j, ulist_index in enumerate(ulist_indices):\n"
         "                    if self.input_map[ulist_index, index] != 0:",
         "                uidx = self._parse_input_spec(spec)\n"
         "                for j, uix in enumerate(uidx):\n"
         "                    if self.input_map[uix, index] != 0:"),
        ("                    self.input_map[ulist_index, index + j] += 1",
         "                    self.input_map[uix, index + j] += 1")]),
    ("r-init-reordered", "refactor", NLSYS, [
        ("        if inputs is None and inplist is not None:\n            inputs = len(inplist)\n\n"
         "        if outputs is None and outlist is not None:\n            outputs = len(outlist)\n",
         "        if outputs is None and outlist is not None:\n            outputs = len(outlist)\n\n"
         "        if inputs is None and inplist is not None:\n            inputs = len(inplist)\n")]),
    # ---- (3) operator forms -----------------------------------------------------------------------------
    ("ops-add-outlist-ninputs", "mutation", NLSYS, [
        ("        outlist = [[(0, i), (1, i)] for i in range(self.noutputs)]",
         "        outlist = [[(0, i), (1, i)] for i in range(self.ninputs)]")]),
    ("ops-feedback-sign", "mutation", NLSYS, [
        ("              sign * np.eye(self.ninputs, other.noutputs)],",
         "              -1 * np.eye(self.ninputs, other.noutputs)],")]),
    ("r-ops-temporaries", "refactor", NLSYS, [
        ("        newsys = InterconnectedSystem(\n            (other, self), inplist=inplist, outlist=outlist)\n\n"
         "        # Set up the connection map manually\n        newsys.set_connect_map(np.block(\n"
         "            [[np.zeros((other.ninputs, other.noutputs)),\n"
         "              np.zeros((other.ninputs, self.noutputs))],\n"
         "             [np.eye(self.ninputs, other.noutputs),\n"
         "              np.zeros((self.ninputs, self.noutputs))]]\n        ))",
         "        subsystems = (other, self)\n"
         "        newsys = InterconnectedSystem(\n            subsystems, inplist=inplist, outlist=outlist)\n\n"
         "        # Set up the connection map manually\n"
         "        eye_block = np.eye(self.ninputs, other.noutputs)\n"
         "        cmap = np.block(\n"
         "            [[np.zeros((other.ninputs, other.noutputs)),\n"
         "              np.zeros((other.ninputs, self.noutputs))],\n"
         "             [eye_block,\n"
         "              np.zeros((self.ninputs, self.noutputs))]]\n        )\n"
         "        newsys.set_connect_map(cmap)")]),
    # ---- (4) _compute_static_io -----------------------------------------------------------------------------
    # only the tie: for acyclic feedthrough a budget of nsys cycles finds the same fixed point
    ("static-budget", "mutation", NLSYS, [
        ("        cycle_count = len(self.syslist) + 1\n", "        cycle_count = len(self.syslist)\n")]),
    ("static-inputs-not-copied", "mutation", NLSYS, [
        ("                      noutputs + input_index + sys.ninputs] = \\\n"
         "                          ulist[input_index:input_index + sys.ninputs]",
         "                      noutputs + input_index + sys.ninputs] = \\\n"
         "                          ulist[0:sys.ninputs]")]),
    ("r-static-renamed", "refactor", NLSYS, [
        ("        cycle_count = len(self.syslist) + 1\n",
         "        nsys = len(self.syslist)\n        cycle_count = nsys + 1\n"),
        ("            new_ulist = self.connect_map @ ylist[:noutputs] \\\n                + np.dot(self.input_map, u)\n",
         "            external = np.dot(self.input_map, u)\n"
         "            unew = self.connect_map @ ylist[:noutputs] + external\n"),
        ("            if (ulist == new_ulist).all():\n                break\n            else:\n                ulist = new_ulist\n",
         "            if (ulist == unew).all():\n                break\n            else:\n                ulist = unew\n")]),
]


def run(repo, name, seed=None):
    edit = [e for e in EDITS if e[0] == name][0]
    _, kind, rel, pairs = edit
    path = os.path.join(repo, rel)
    subprocess.run(["git", "-C", repo, "checkout", "--", "control"], check=True)
    src = open(path).read()
    for old, new in pairs:
        if old != new and src.count(old) != 1:
            return {"name": name, "error": "pattern occurs %d times: %r" % (src.count(old), old[:50])}
        src = src.replace(old, new)
    open(path, "w").write(src)
    env = dict(os.environ, VERIF_REPO=repo, VERIF_NO_EVIDENCE="1",
               VERIF_SEED=str(seed if seed is not None else os.environ.get("VERIF_SEED", "0")))
    t0 = time.time()
    p = subprocess.run(["/venv/bin/python", os.path.join(HERE, "check.py"), "C07", "--tier", "quick"],
                       cwd=VERIF, env=env, text=True, capture_output=True)
    out = p.stdout + p.stderr
    subprocess.run(["git", "-C", repo, "checkout", "--", "control"], check=True)
    viol = [l for l in out.split("\n") if l.startswith("VIOLATION")]
    summ = [l for l in out.split("\n") if l.startswith("C07 tier=")]
    m = re.search(r"obligations=(\d+)/(\d+)", out)
    broken = re.findall(r"error: (CtrlVerif/Props/\S+?\.lean):(\d+)", out)
    with_input = [v for v in viol if "no-failing-input-found" not in v]
    return {"name": name, "kind": kind, "exit": p.returncode,
            "obligations": m.group(0) if m else None, "violations": len(viol),
            "with_failing_input": len(with_input),
            "first_violation": (with_input or viol or [None])[0] and (with_input or viol)[0][:260],
            "no_failing_input": sum("no-failing-input-found" in v for v in viol),
            "broken_at": sorted(set(broken))[:4], "summary": summ[-1] if summ else out[-400:],
            "wall": round(time.time() - t0, 1),
            "problems": [l[:220] for l in out.split("\n") if "cannot be translated" in l][:2],
            "as_expected": (p.returncode == 1 and bool(viol)) if kind in ("mutation", "outside")
            else p.returncode == 0}


if __name__ == "__main__":
    repo = os.path.abspath(sys.argv[1])
    if os.path.realpath(repo) == os.path.realpath("/repo"):
        sys.exit("refusing to edit /repo")
    names = sys.argv[2:] or [e[0] for e in EDITS]
    results = []
    for nm in names:
        r = run(repo, nm)
        results.append(r)
        print(json.dumps(r), flush=True)
    # leave the generated files as the unchanged tree defines them
    sys.path.insert(0, HERE)
    from core import py2lean_ic, leanproj
    py2lean_ic.regenerate("/repo", leanproj.LEAN)
    bad = [r["name"] for r in results if not r.get("as_expected")]
    print("not as expected:", bad)
