"""Demonstration for the source-text tie of C16 (tag py2lean-norm, notes/NOTES-py2lean-norm.md):
apply semantic mutations / meaning-preserving refactorings of `system_norm` (control/sysnorm.py) to a
SCRATCH worktree of /repo, run `check.py C16 --tier quick` against it (VERIF_REPO,
VERIF_NO_EVIDENCE=1) and report which proof obligations break and whether a VIOLATION with a failing
input is reported.

    git -C /repo worktree add --detach /tmp/w/g13_repo HEAD
    /venv/bin/python harness/norm_tie_mutations.py /tmp/w/g13_repo [name ...]
    git -C /repo worktree remove --force /tmp/w/g13_repo

Never run against /repo itself.  The script finishes with a regeneration from the unchanged /repo."""
import json
import os
import re
import subprocess
import sys
import time

HERE = os.path.dirname(os.path.abspath(__file__))
VERIF = os.path.dirname(HERE)
REL = "control/sysnorm.py"

# (name, kind, block, old text, new text, occurrence); kind: 'mutation' (must be caught) | 'tie-only' | 'refactor'
EDITS = [
    ("h2-lyap-transposed", "mutation", "normH2",
     "                    P = ct.lyap(A, B@B.T, method=method) \\",
     "                    P = ct.lyap(A.T, B@B.T, method=method) \\"),
    ("h2-disc-direct-term-dropped", "mutation", "normH2",
     "                    norm_value = np.sqrt(np.trace(C@P@C.T + D@D.T))",
     "                    norm_value = np.sqrt(np.trace(C@P@C.T))"),
    ("h2-psd-tolerance-removed", "mutation", "normH2",      # undoes repair 655677a in continuous time
     "                    if any(la.eigvals(P).real < -_psd_tol(P)):",
     "                    if any(la.eigvals(P).real < 0.0):"),
    ("bilinear-factor-two-lost", "mutation", "normLinfBilinear",
     "                A = 2*(Ad-In)@Adinv",
     "                A = (Ad-In)@Adinv"),
    ("hamilton-identity-of-wrong-size", "mutation", "normLinfCont",     # undoes repair c2eff4a
     "            Im = np.eye(D.shape[1])    # identity of input dimension",
     "            Im = np.eye(len(D))    # identity of input dimension"),
    ("hamilton-D-term-dropped", "mutation", "normHamilton",
     "                    [-C.T@(Ip+D@invR@D.T)@C, -(A+B@invR@D.T@C).T]])",
     "                    [-C.T@C, -(A+B@invR@D.T@C).T]])"),
    ("bisection-updates-exchanged", "mutation", "normLinfCont",
     "                    gaml = gam\n                else:\n                    gamu = gam",
     "                    gamu = gam\n                else:\n                    gaml = gam"),
    # agrees with every sampled case within the comparison tolerance: caught ONLY by the tie
    ("doubling-by-four", "tie-only", "normLinfCont",
     "                gamu *= 2.0",
     "                gamu *= 4.0"),
    # ---- meaning-preserving refactorings: every obligation must stay discharged -----------------
    ("r-loops-renamed", "refactor", "normLinfCont", None, None),     # gam gaml gamu -> mid lo hi
    ("r-identities-reordered", "refactor", "normLinfCont",
     "            Ip = np.eye(D.shape[0])    # identity of output dimension\n"
     "            Im = np.eye(D.shape[1])    # identity of input dimension\n",
     "            Im = np.eye(D.shape[1])    # identity of input dimension\n"
     "            Ip = np.eye(D.shape[0])    # identity of output dimension\n"),
    ("r-hamilton-named-temporary", "refactor", "normHamilton",
     "                invR = la.inv(R)\n                return np.block([\n"
     "                    [A+B@invR@D.T@C, B@invR@B.T],\n"
     "                    [-C.T@(Ip+D@invR@D.T)@C, -(A+B@invR@D.T@C).T]])",
     "                invR = la.inv(R)\n                F = A+B@invR@D.T@C\n                return np.block([\n"
     "                    [F, B@invR@B.T],\n"
     "                    [-C.T@(Ip+D@invR@D.T)@C, -F.T]])"),
    ("r-h2-named-radicand", "refactor", "normH2",
     "                        norm_value = np.sqrt(np.trace(C@P@C.T))",
     "                        radicand = np.trace(C@P@C.T)\n                        norm_value = np.sqrt(radicand)"),
    ("r-bilinear-renamed-reordered", "refactor", "normLinfBilinear", None, None),   # Adinv -> Ainv, In -> Id, Bd/Cd lines swapped
    ("r-doubling-spelled-out", "refactor", "normLinfCont",
     "                gamu *= 2.0",
     "                gamu = gamu * 2.0"),
    ("r-h2-poles-renamed", "refactor", "normH2", None, None),        # poles_real_part -> re_p, poles_abs -> mag
]


def special(name, src):
    if name == "r-loops-renamed":
        a = src.index("            gaml = la.norm(D,ord=2)")
        b = src.index("    # ----------------------\n    # Other norm computation")
        blk = src[a:b]
        for old, new in (("gaml", "lo"), ("gamu", "hi"), ("gam", "mid")):
            blk = re.sub(r"\b%s\b" % old, new, blk)
        return src[:a] + blk + src[b:]
    if name == "r-bilinear-renamed-reordered":
        a = src.index("                Ad = A\n")
        b = src.index("            # --------------------\n            # Continuous time case")
        blk = src[a:b]
        blk = re.sub(r"\bAdinv\b", "Ainv", blk)
        blk = re.sub(r"\bIn\b", "Id", blk)
        blk = blk.replace("                Bd = B\n                Cd = C\n", "                Cd = C\n                Bd = B\n")
        assert "Ainv" in blk and "Cd = C\n                Bd = B" in blk
        return src[:a] + blk + src[b:]
    if name == "r-h2-poles-renamed":
        out = re.sub(r"\bpoles_real_part\b", "re_p", src)
        out = re.sub(r"\bpoles_abs\b", "mag", out)
        assert out != src
        return out
    raise KeyError(name)


def run(repo, name):
    edit = [e for e in EDITS if e[0] == name][0]
    _, kind, block, old, new = edit
    path = os.path.join(repo, REL)
    subprocess.run(["git", "-C", repo, "checkout", "--", REL], check=True)
    src = open(path).read()
    if old is None:
        out_src = special(name, src)
    else:
        if src.count(old) < 1:
            return {"name": name, "error": "pattern not found"}
        out_src = src.replace(old, new, 1)      # the first occurrence (continuous-time branch for the H2 edits)
    open(path, "w").write(out_src)
    env = dict(os.environ, VERIF_REPO=repo, VERIF_NO_EVIDENCE="1", VERIF_SEED=os.environ.get("VERIF_SEED", "0"))
    t0 = time.time()
    p = subprocess.run(["/venv/bin/python", os.path.join(HERE, "check.py"), "C16", "--tier", "quick"],
                       cwd=VERIF, env=env, text=True, capture_output=True)
    out = p.stdout + p.stderr
    subprocess.run(["git", "-C", repo, "checkout", "--", REL], check=True)
    viol = [l for l in out.split("\n") if l.startswith("VIOLATION")]
    summ = [l for l in out.split("\n") if l.startswith("C16 tier=")]
    m = re.search(r"obligations=(\d+)/(\d+)", out)
    broken = re.findall(r"error: (CtrlVerif/Props/\S+?\.lean):(\d+)", out)
    return {"name": name, "kind": kind, "block": block, "exit": p.returncode,
            "obligations": m.group(0) if m else None, "violations": len(viol),
            "first_violation": viol[0][:300] if viol else None,
            "no_failing_input": sum("no-failing-input-found" in v for v in viol),
            "broken_at": sorted(set("%s:%s" % (f, l) for f, l in broken))[:4], "summary": summ[-1] if summ else out[-400:],
            "wall": round(time.time() - t0, 1),
            "problems": [l[:200] for l in out.split("\n") if "cannot be translated" in l][:2],
            "as_expected": (p.returncode == 1 and bool(viol)) if kind in ("mutation", "tie-only")
            else p.returncode == 0}


if __name__ == "__main__":
    repo = os.path.abspath(sys.argv[1])
    if os.path.realpath(repo) == os.path.realpath("/repo"):
        sys.exit("refusing to edit /repo")
    names = sys.argv[2:] or [e[0] for e in EDITS]
    results = []
    for nm in names:
        r = run(repo, nm)
        results.append(r)
        print(json.dumps(r), flush=True)
    sys.path.insert(0, HERE)
    from core import py2lean_norm, leanproj
    py2lean_norm.regenerate("/repo", leanproj.LEAN)
    bad = [r["name"] for r in results if not r.get("as_expected")]
    print("not as expected:", bad)
