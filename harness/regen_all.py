#!/venv/bin/python
"""Rewrite every lean/CtrlVerif/Generated/*.lean from /repo's source text (what each check does for
its own property in `pre_build`).  Run before committing when a seeded run may have left files
generated from a patched tree behind."""
import importlib
import os
import sys
sys.path.insert(0, os.path.dirname(os.path.abspath(__file__)))
os.environ.pop("VERIF_REPO", None)
bad = 0
for i in range(1, 21):
    mod = importlib.import_module("families.c%02d" % i)
    fam = mod.FAMILY() if isinstance(mod.FAMILY, type) else mod.FAMILY
    pre = getattr(fam, "pre_build", None)
    if pre is None:
        continue
    problems = pre()
    print("C%02d: regenerated%s" % (i, (" PROBLEMS: %s" % problems) if problems else ""))
    bad += bool(problems)
sys.exit(1 if bad else 0)
