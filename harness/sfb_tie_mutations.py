"""Demonstration for the source-text tie of C11 (tag py2lean-statefbk, notes/NOTES-py2lean-statefbk.md):
apply semantic mutations / meaning-preserving refactorings of `ctrb obsv place_acker lqr dlqr`
(control/statefbk.py) and `lqe dlqe` (control/stochsys.py) to a SCRATCH worktree of /repo, run
`check.py C11 --tier quick` against it (VERIF_REPO, VERIF_NO_EVIDENCE=1) and report which proof
obligations break and whether a VIOLATION with a failing input is reported.

    git -C /repo worktree add --detach /tmp/w/g6_repo HEAD
    /venv/bin/python harness/sfb_tie_mutations.py /tmp/w/g6_repo [name ...]
    git -C /repo worktree remove --force /tmp/w/g6_repo

Never run against /repo itself.  The script finishes with a regeneration from the unchanged /repo."""
import json
import os
import re
import subprocess
import sys
import time

HERE = os.path.dirname(os.path.abspath(__file__))
VERIF = os.path.dirname(HERE)
SF, ST = "control/statefbk.py", "control/stochsys.py"

# (name, kind, file, old text, new text); kind: 'mutation' (must be caught) | 'refactor' (must pass)
EDITS = [
    ("ctrb-one-block-short", "mutation", SF,
     "    for k in range(1, t):\n        ctrb[:, k * m:(k + 1) * m]",
     "    for k in range(1, t - 1):\n        ctrb[:, k * m:(k + 1) * m]"),
    ("obsv-transposed-A", "mutation", SF,
     "np.dot(obsv[(k - 1) * p:k * p, :], A)",
     "np.dot(obsv[(k - 1) * p:k * p, :], A.T)"),
    ("acker-first-row", "mutation", SF,
     "    K = K[-1, :]                # Extract the last row",
     "    K = K[0, :]                # Extract the last row"),
    ("acker-coefficient-off-by-one", "mutation", SF,
     "        pmat = pmat + p[n-i-1] * np.linalg.matrix_power(A, i)",
     "        pmat = pmat + p[n-i] * np.linalg.matrix_power(A, i)"),
    # changes the function only for 7 states: no sampled case can see it, ONLY the tie does
    ("acker-count-check-skipped-for-7-states", "mutation", SF,
     "    if np.size(poles) != A.shape[0]:\n        raise ValueError(\n            \"number of desired",
     "    if np.size(poles) != A.shape[0] and A.shape[0] != 7:\n        raise ValueError(\n            \"number of desired"),
    ("lqr-integrator-eye", "mutation", SF,
     "            [C, np.zeros((nintegrators, nintegrators))]",
     "            [C, np.eye(nintegrators)]"),
    ("dlqr-result-order", "mutation", SF,
     "    return K, S, E\n",
     "    return K, S.T, E\n"),
    ("lqe-transpose-dropped", "mutation", ST,
     "    P, E, LT = care(A.T, C.T, G @ QN @ G.T, RN, method=method,",
     "    P, E, LT = care(A.T, C.T, G @ QN @ G, RN, method=method,"),
    ("lqe-no-dispatch", "mutation", ST,
     "        # Call dlqe\n        return dlqe(*args, **kwargs)",
     "        # Call dlqe\n        kwargs = dict(kwargs)"),
    # ---- meaning-preserving refactorings: every obligation must stay discharged -----------------
    ("r-ctrb-named-temporary", "refactor", SF,
     "        ctrb[:, k * m:(k + 1) * m] = np.dot(A, ctrb[:, (k - 1) * m:k * m])",
     "        previous = ctrb[:, (k - 1) * m:k * m]\n        ctrb[:, k * m:(k + 1) * m] = np.dot(A, previous)"),
    ("r-ctrb-statement-order", "refactor", SF,
     "    m = B.shape[1]\n\n    if t is None or t > n:\n        t = n\n\n    # Construct the controllability matrix",
     "    if t is None or t > n:\n        t = n\n    m = B.shape[1]\n\n    # Construct the controllability matrix"),
    ("r-obsv-slice-bounds", "refactor", SF,
     "        obsv[k * p:(k + 1) * p, :] = np.dot(obsv[(k - 1) * p:k * p, :], A)",
     "        obsv[p * k:k * p + p, :] = np.dot(obsv[k * p - p:k * p, :], A)"),
    ("r-acker-renamed", "refactor", SF,
     "    pmat = p[n-1] * np.linalg.matrix_power(A, 0)\n    for i in np.arange(1, n):\n        pmat = pmat + p[n-i-1] * np.linalg.matrix_power(A, i)\n    K = np.linalg.solve(ct, pmat)",
     "    pA = p[n-1] * np.linalg.matrix_power(A, 0)\n    for j in range(1, n):\n        coeff = p[n-j-1]\n        pA = pA + coeff * np.linalg.matrix_power(A, j)\n    K = np.linalg.solve(ct, pA)"),
    ("r-lqr-renamed-reordered", "refactor", SF,
     "        nstates = A.shape[0]\n        ninputs = B.shape[1]\n\n        # Make sure that the integral action argument is the right type",
     "        ninputs = B.shape[1]\n        nstates = A.shape[0]\n\n        # Make sure that the integral action argument is the right type"),
    ("r-dlqr-concatenate", "refactor", SF,
     "            B = np.vstack([B, np.zeros((nintegrators, ninputs))])\n\n    if kwargs:\n        raise TypeError(\"unrecognized keywords: \", str(kwargs))\n\n    # Compute the result (dimension and symmetry checking done in dare())",
     "            Z = np.zeros((nintegrators, ninputs))\n            B = np.concatenate((B, Z), axis=0)\n\n    if kwargs:\n        raise TypeError(\"unrecognized keywords: \", str(kwargs))\n\n    # Compute the result (dimension and symmetry checking done in dare())"),
    ("r-lqe-named-temporary", "refactor", ST,
     "    P, E, LT = care(A.T, C.T, G @ QN @ G.T, RN, method=method,",
     "    GQ = G @ QN\n    W = GQ @ G.T\n    P, E, LT = care(A.T, C.T, W, RN, method=method,"),
    # ---- outside the translator's subset (meaning kept): the translation fails ------------------
    ("x-ctrb-hstack", "outside", SF,
     "    ctrb = np.zeros((n, t * m))\n    ctrb[:, :m] = B\n    for k in range(1, t):\n        ctrb[:, k * m:(k + 1) * m] = np.dot(A, ctrb[:, (k - 1) * m:k * m])\n",
     "    ctrb = np.hstack([B] + [np.linalg.matrix_power(A, i) @ B for i in range(1, t)])\n"),
]


def run(repo, name):
    edit = [e for e in EDITS if e[0] == name][0]
    _, kind, rel, old, new = edit
    path = os.path.join(repo, rel)
    subprocess.run(["git", "-C", repo, "checkout", "--", SF, ST], check=True)
    src = open(path).read()
    if src.count(old) != 1:
        return {"name": name, "error": "pattern occurs %d times" % src.count(old)}
    open(path, "w").write(src.replace(old, new))
    env = dict(os.environ, VERIF_REPO=repo, VERIF_NO_EVIDENCE="1", VERIF_SEED=os.environ.get("VERIF_SEED", "0"))
    t0 = time.time()
    p = subprocess.run(["/venv/bin/python", os.path.join(HERE, "check.py"), "C11", "--tier", "quick"],
                       cwd=VERIF, env=env, text=True, capture_output=True)
    out = p.stdout + p.stderr
    subprocess.run(["git", "-C", repo, "checkout", "--", SF, ST], check=True)
    viol = [l for l in out.split("\n") if l.startswith("VIOLATION")]
    summ = [l for l in out.split("\n") if l.startswith("C11 tier=")]
    m = re.search(r"obligations=(\d+)/(\d+)", out)
    broken = re.findall(r"error: (CtrlVerif/Props/\S+?\.lean):(\d+)", out)
    return {"name": name, "kind": kind, "file": rel, "exit": p.returncode,
            "obligations": m.group(0) if m else None, "violations": len(viol),
            "first_violation": viol[0][:300] if viol else None,
            "no_failing_input": sum("no-failing-input-found" in v for v in viol),
            "broken_at": sorted(set(broken))[:4], "summary": summ[-1] if summ else out[-400:],
            "wall": round(time.time() - t0, 1),
            "problems": [l[:200] for l in out.split("\n") if "cannot be translated" in l][:2],
            "as_expected": (p.returncode == 1 and bool(viol)) if kind in ("mutation", "outside")
            else p.returncode == 0}


if __name__ == "__main__":
    repo = os.path.abspath(sys.argv[1])
    if os.path.realpath(repo) == os.path.realpath("/repo"):
        sys.exit("refusing to edit /repo")
    names = sys.argv[2:] or [e[0] for e in EDITS]
    results = []
    for nm in names:
        r = run(repo, nm)
        results.append(r)
        print(json.dumps(r), flush=True)
    # leave the generated files as the unchanged tree defines them
    sys.path.insert(0, HERE)
    from core import py2lean_sfb, leanproj
    py2lean_sfb.regenerate("/repo", leanproj.LEAN)
    bad = [r["name"] for r in results if not r.get("as_expected")]
    print("not as expected:", bad)
