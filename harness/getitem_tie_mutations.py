"""Demonstration for the source-text tie of the indexing methods (C17) and the response-object
properties (C18) (tag py2lean-getitem, notes/NOTES-py2lean-getitem.md): apply semantic mutations /
meaning-preserving refactorings to a SCRATCH worktree of /repo, run `check.py <prop> --tier quick`
against it (VERIF_REPO, VERIF_NO_EVIDENCE=1) and report which proof obligations break and whether a
VIOLATION with a failing input is reported.

    git -C /repo worktree add --detach /tmp/w/g15_repo HEAD
    /venv/bin/python harness/getitem_tie_mutations.py /tmp/w/g15_repo [--build-only] [name ...]
    git -C /repo worktree remove --force /tmp/w/g15_repo

`--build-only` only regenerates and builds the Props modules (which obligation breaks), without the
correspondence run.  Never run against /repo itself.  The script finishes with a regeneration from the
unchanged /repo."""
import json
import os
import re
import subprocess
import sys
import time

HERE = os.path.dirname(os.path.abspath(__file__))
VERIF = os.path.dirname(HERE)

SS, TF, FRD, TR = "control/statesp.py", "control/xferfcn.py", "control/frdata.py", "control/timeresp.py"

# (name, kind, property, file, old text, new text); kind: 'mutation' (must be caught) | 'refactor' (must pass)
# | 'outside' (meaning kept or not, but outside the translated subset: reported as a broken obligation)
EDITS = [
    # ---- C17: semantic mutations ---------------------------------------------------------------------
    ("ss-B-wrong-index", "mutation", "C17", SS,
     "self.A, self.B[:, inpdx], self.C[outdx, :],", "self.A, self.B[:, outdx], self.C[outdx, :],"),
    ("ss-labels-swapped", "mutation", "C17", SS,
     "name=sysname, inputs=input_labels, outputs=output_labels)",
     "name=sysname, inputs=output_labels, outputs=input_labels)"),
    ("ss-prefix-suffix-swapped", "mutation", "C17", SS,
     """        sysname = config.defaults['iosys.indexed_system_name_prefix'] + \\
            self.name + config.defaults['iosys.indexed_system_name_suffix']
        return StateSpace(""",
     """        sysname = config.defaults['iosys.indexed_system_name_suffix'] + \\
            self.name + config.defaults['iosys.indexed_system_name_prefix']
        return StateSpace("""),
    ("ss-key-length-test", "mutation", "C17", SS,
     """        if not isinstance(key, Iterable) or len(key) != 2:
            raise IOError("must provide indices of length 2 for state space")""",
     """        if not isinstance(key, Iterable) or len(key) < 2:
            raise IOError("must provide indices of length 2 for state space")"""),
    ("tf-den-transposed", "mutation", "C17", TF,
     "                den[row, col] = self.den_array[i, j]", "                den[row, col] = self.den_array[j, i]"),
    ("tf-num-from-den", "mutation", "C17", TF,
     "                num[row, col] = self.num_array[i, j]", "                num[row, col] = self.den_array[i, j]"),
    ("tf-labels-from-other-axis", "mutation", "C17", TF,
     "            indices[1], self.input_labels, slice_to_list=True)",
     "            indices[1], self.output_labels, slice_to_list=True)"),
    ("frd-axes-exchanged", "mutation", "C17", FRD,
     "            self.frdata[outdx, :][:, inpdx], self.omega, self.dt,",
     "            self.frdata[inpdx, :][:, outdx], self.omega, self.dt,"),
    ("frd-name-not-extended", "mutation", "C17", FRD,
     "            inputs=inputs, outputs=outputs, name=sysname)\n\n    # Implement (thin) len",
     "            inputs=inputs, outputs=outputs, name=self.name)\n\n    # Implement (thin) len"),
    # ---- C17: outside the subset ------------------------------------------------------------------------
    ("x-ss-paired-fancy-index", "outside", "C17", SS,
     "            self.D[outdx, :][:, inpdx], self.dt,", "            self.D[outdx, inpdx], self.dt,"),
    ("x-tf-no-dt", "outside", "C17", TF,
     "            num, den, self.dt, inputs=inputs, outputs=outputs, name=sysname)",
     "            num, den, inputs=inputs, outputs=outputs, name=sysname)"),
    # ---- C17: meaning-preserving refactorings ------------------------------------------------------------
    ("r-ss-named-temporaries", "refactor", "C17", SS,
     """        return StateSpace(
            self.A, self.B[:, inpdx], self.C[outdx, :],
            self.D[outdx, :][:, inpdx], self.dt,""",
     """        Bsub = self.B[:, inpdx]
        Csub = self.C[outdx, :]
        Drows = self.D[outdx, :]
        Dsub = Drows[:, inpdx]
        return StateSpace(
            self.A, Bsub, Csub,
            Dsub, self.dt,"""),
    ("r-ss-renamed-variables", "refactor", "C17", SS,
     """        iomap = NamedSignal(self.D, self.output_labels, self.input_labels)
        indices = iomap._parse_key(key, level=1)  # ignore index checks
        outdx, output_labels = _process_subsys_index(
            indices[0], self.output_labels)
        inpdx, input_labels = _process_subsys_index(
            indices[1], self.input_labels)
""",
     """        sig = NamedSignal(self.D, self.output_labels, self.input_labels)
        parsed = sig._parse_key(key, level=1)
        rowsel, output_labels = _process_subsys_index(
            parsed[0], self.output_labels)
        colsel, input_labels = _process_subsys_index(
            parsed[1], self.input_labels)
        outdx = rowsel
        inpdx = colsel
"""),
    ("r-ss-name-first", "refactor", "C17", SS,
     """        iomap = NamedSignal(self.D, self.output_labels, self.input_labels)
        indices = iomap._parse_key(key, level=1)  # ignore index checks
        outdx, output_labels = _process_subsys_index(
            indices[0], self.output_labels)
        inpdx, input_labels = _process_subsys_index(
            indices[1], self.input_labels)

        sysname = config.defaults['iosys.indexed_system_name_prefix'] + \\
            self.name + config.defaults['iosys.indexed_system_name_suffix']
""",
     """        prefix = config.defaults['iosys.indexed_system_name_prefix']
        suffix = config.defaults['iosys.indexed_system_name_suffix']
        sysname = prefix + self.name + suffix
        iomap = NamedSignal(self.D, self.output_labels, self.input_labels)
        indices = iomap._parse_key(key, level=1)  # ignore index checks
        outdx, output_labels = _process_subsys_index(
            indices[0], self.output_labels)
        inpdx, input_labels = _process_subsys_index(
            indices[1], self.input_labels)
"""),
    ("r-tf-loop-rewritten", "refactor", "C17", TF,
     """        for row, i in enumerate(outdx):
            for col, j in enumerate(inpdx):
                num[row, col] = self.num_array[i, j]
                den[row, col] = self.den_array[i, j]
                col += 1
            row += 1
""",
     """        for r, a in enumerate(outdx):
            for c, b in enumerate(inpdx):
                den[r, c] = self.den_array[a, b]
                num[r, c] = self.num_array[a, b]
"""),
    ("r-tf-shape-spelled-out", "refactor", "C17", TF,
     "        den = _create_poly_array(num.shape)",
     "        den = _create_poly_array((len(outputs), len(inputs)))"),
    ("r-frd-two-steps", "refactor", "C17", FRD,
     """        return FrequencyResponseData(
            self.frdata[outdx, :][:, inpdx], self.omega, self.dt,""",
     """        rowsel = self.frdata[outdx, :]
        data = rowsel[:, inpdx]
        return FrequencyResponseData(
            data, self.omega, self.dt,"""),
    # ---- C18: semantic mutations ---------------------------------------------------------------------
    ("c18-states-attribute-only", "mutation", "C18", TR,
     """        if self.issiso and self.ntraces == 1 and x.ndim == 3 and \\
             squeeze is None:
            # Single-input, single-output system with single trace
            x = x[:, 0, :]

        # TODO: move to __init__""",
     """        if self.issiso and self.ntraces == 1 and x.ndim == 3 and \\
             self.squeeze is None:
            # Single-input, single-output system with single trace
            x = x[:, 0, :]

        # TODO: move to __init__"""),
    ("c18-states-drop-after-processing", "mutation", "C18", TR,
     """        x = self.x
        if self.issiso and self.ntraces == 1 and x.ndim == 3 and \\
             squeeze is None:
            # Single-input, single-output system with single trace
            x = x[:, 0, :]

        # TODO: move to __init__ to avoid recomputing each time?
        x = _process_time_response(
            x, transpose=self.transpose, squeeze=squeeze, issiso=False)
""",
     """        x = _process_time_response(
            self.x, transpose=self.transpose, squeeze=squeeze, issiso=False)
        if self.issiso and self.ntraces == 1 and x.ndim == 3 and \\
             squeeze is None:
            # Single-input, single-output system with single trace
            x = x[:, 0, :]
"""),
    ("c18-outputs-never-siso", "mutation", "C18", TR,
     """        y = _process_time_response(
            self.y, issiso=self.issiso,""",
     """        y = _process_time_response(
            self.y, issiso=False,"""),
    ("c18-inputs-no-transpose", "mutation", "C18", TR,
     """        u = _process_time_response(
            self.u, issiso=self.issiso,
            transpose=self.transpose, squeeze=self.squeeze)""",
     """        u = _process_time_response(
            self.u, issiso=self.issiso,
            transpose=False, squeeze=self.squeeze)"""),
    ("c18-iter-return_x-inverted", "mutation", "C18", TR,
     "        if not self.return_x:\n            return iter((self.time, self.outputs))",
     "        if self.return_x:\n            return iter((self.time, self.outputs))"),
    ("c18-frd-phase-is-abs", "mutation", "C18", FRD,
     "            np.angle(frdata), self.output_labels, self.input_labels)",
     "            np.abs(frdata), self.output_labels, self.input_labels)"),
    ("c18-frd-iter-order", "mutation", "C18", FRD,
     "        return iter((np.abs(frdata), np.angle(frdata), self.omega))",
     "        return iter((self.omega, np.abs(frdata), np.angle(frdata)))"),
    ("c18-states-labels", "mutation", "C18", TR,
     "        return NamedSignal(x, self.state_labels, self.input_labels)",
     "        return NamedSignal(x, self.output_labels, self.input_labels)"),
    # ---- C18: meaning-preserving refactorings ------------------------------------------------------------
    ("r18-outputs-positional-temporaries", "refactor", "C18", TR,
     """        y = _process_time_response(
            self.y, issiso=self.issiso,
            transpose=self.transpose, squeeze=self.squeeze)
        return NamedSignal(y, self.output_labels, self.input_labels)""",
     """        siso = self.issiso
        tr = self.transpose
        processed = _process_time_response(self.y, siso, tr, squeeze=self.squeeze)
        return NamedSignal(processed, self.output_labels, self.input_labels)"""),
    ("r18-states-conditional-expression", "refactor", "C18", TR,
     """        squeeze = self.squeeze
        if squeeze is None:
            squeeze = config.defaults['control.squeeze_time_response']
""",
     """        squeeze = self.squeeze if self.squeeze is not None \\
            else config.defaults['control.squeeze_time_response']
"""),
    ("r18-legacy-branches-exchanged", "refactor", "C18", TR,
     """        elif self.ninputs == 1 and self.noutputs == 1 and \\
             self.ntraces == 1 and self.x.ndim == 3:
            # Single-input, single-output system with single trace
            x = self.x[:, 0, :]

        else:
            # Return the full set of data
            x = self.x
""",
     """        elif not (self.ninputs == 1 and self.noutputs == 1 and
                  self.ntraces == 1 and self.x.ndim == 3):
            x = self.x

        else:
            x = self.x[:, 0, :]
"""),
    ("r18-iter-if-else", "refactor", "C18", TR,
     """        if not self.return_x:
            return iter((self.time, self.outputs))
        return iter((self.time, self.outputs, self._legacy_states))""",
     """        if self.return_x:
            return iter((self.time, self.outputs, self._legacy_states))
        else:
            return iter((self.time, self.outputs))"""),
    ("r18-frd-magnitude-temporary", "refactor", "C18", FRD,
     """        return NamedSignal(
            np.abs(frdata), self.output_labels, self.input_labels)""",
     """        mag = np.abs(frdata)
        outs = self.output_labels
        return NamedSignal(mag, outs, self.input_labels)"""),
    ("r18-frd-iter-reordered", "refactor", "C18", FRD,
     """        elif not self.return_magphase:
            return iter((self.omega, frdata))
        return iter((np.abs(frdata), np.angle(frdata), self.omega))""",
     """        elif self.return_magphase:
            return iter((np.abs(frdata), np.angle(frdata), self.omega))
        return iter((self.omega, frdata))"""),
]


def regenerate_clean():
    sys.path.insert(0, HERE)
    from core import py2lean_getitem, leanproj
    py2lean_getitem.regenerate("/repo", leanproj.LEAN)
    reg18 = getattr(py2lean_getitem, "regenerate_c18", None)
    if reg18:
        reg18("/repo", leanproj.LEAN)


def modules_of(prop):
    sys.path.insert(0, HERE)
    import importlib
    fam = importlib.import_module("families." + prop.lower()).FAMILY
    return ["CtrlVerif.Props." + prop] + list(getattr(fam, "extra_modules", []))


def run(repo, name, build_only):
    edit = [e for e in EDITS if e[0] == name][0]
    _, kind, prop, rel, old, new = edit
    path = os.path.join(repo, rel)
    subprocess.run(["git", "-C", repo, "checkout", "--", "control"], check=True)
    src = open(path).read()
    if src.count(old) != 1:
        return {"name": name, "error": "pattern occurs %d times" % src.count(old)}
    open(path, "w").write(src.replace(old, new))
    env = dict(os.environ, VERIF_REPO=repo, VERIF_NO_EVIDENCE="1", VERIF_SEED=os.environ.get("VERIF_SEED", "0"))
    t0 = time.time()
    if build_only:
        sys.path.insert(0, HERE)
        from core import py2lean_getitem, leanproj
        problems = py2lean_getitem.regenerate(repo, leanproj.LEAN)[0]
        reg18 = getattr(py2lean_getitem, "regenerate_c18", None)
        if reg18:
            problems += reg18(repo, leanproj.LEAN)[0]
        p = subprocess.run(["lake", "build"] + modules_of(prop), cwd=os.path.join(VERIF, "lean"), text=True,
                           capture_output=True)
        out = p.stdout + p.stderr + "\n".join(problems)
    else:
        p = subprocess.run(["/venv/bin/python", os.path.join(HERE, "check.py"), prop, "--tier", "quick"],
                           cwd=VERIF, env=env, text=True, capture_output=True)
        out = p.stdout + p.stderr
    subprocess.run(["git", "-C", repo, "checkout", "--", "control"], check=True)
    viol = [l for l in out.split("\n") if l.startswith("VIOLATION")]
    summ = [l for l in out.split("\n") if l.startswith(prop + " tier=")]
    m = re.search(r"obligations=(\d+)/(\d+)", out)
    broken = re.findall(r"error: (CtrlVerif/\S+?\.lean):(\d+)", out)
    replay_info = None
    if viol and not build_only:
        mm = re.search(r"replay=(\S+)", viol[0])
        if mm and os.path.exists(os.path.join(VERIF, mm.group(1))):
            try:
                payload = json.load(open(os.path.join(VERIF, mm.group(1))))
                replay_info = {k: payload[k] for k in ("case", "impl", "model", "detail") if k in payload}
                if not replay_info:
                    replay_info = {"keys": sorted(payload)[:8]}
            except Exception as e:      # noqa
                replay_info = {"unreadable": str(e)}
    ok = (p.returncode != 0) if build_only else (p.returncode == 1 and bool(viol))
    return {"name": name, "kind": kind, "prop": prop, "exit": p.returncode,
            "obligations": m.group(0) if m else None, "violations": len(viol),
            "first_violation": viol[0][:300] if viol else None,
            "no_failing_input": sum("no-failing-input-found" in v for v in viol),
            "broken_at": sorted(set(broken))[:6], "summary": summ[-1] if summ else out[-300:],
            "wall": round(time.time() - t0, 1), "replay": json.dumps(replay_info, default=str)[:500] if replay_info else None,
            "problems": [l[:240] for l in out.split("\n") if "cannot be translated" in l][:2],
            "as_expected": ok if kind in ("mutation", "outside") else p.returncode == 0}


if __name__ == "__main__":
    args = sys.argv[1:]
    build_only = "--build-only" in args
    args = [a for a in args if a != "--build-only"]
    repo = os.path.abspath(args[0])
    if os.path.realpath(repo) == os.path.realpath("/repo"):
        sys.exit("refusing to edit /repo")
    names = args[1:] or [e[0] for e in EDITS]
    results = []
    for nm in names:
        r = run(repo, nm, build_only)
        results.append(r)
        print(json.dumps(r), flush=True)
    regenerate_clean()
    bad = [r["name"] for r in results if not r.get("as_expected")]
    print("not as expected:", bad)
