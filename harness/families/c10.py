"""C10 — Lyapunov / Sylvester / Riccati solvers (control/mateqn.py, method='scipy'):
correspondence between lyap, dlyap, care, dare and the Lean model `CtrlVerif.Model.MatEqn`
(driver family `mateqn`).

What is compared on every case
* raises-or-not and the error class (ControlDimension -> shape, ControlArgument -> badArg);
* the SciPy call python-control makes (solver, every argument incl. None-ness), recorded by
  wrapping the `sp.linalg` entry points referenced from control.mateqn's namespace, against the
  call the model makes (`lyapCall`, `sylvCall`, `dlyapCall`, `careCall`, `dareCall`) — exact;
* with the matrix SciPy returned replayed into the model: the gain `G` (regime T) and the
  closed-loop pencil (every returned eigenvalue must be an eigenvalue of the model's pencil
  `(A - B G, E)`, the traces must agree);
* the property itself on what the implementation returned, with exact rational arithmetic: the
  documented equation's residual relative to the size of its terms, symmetry of X, closed-loop
  stability (problems are constructed backwards from a chosen stabilising X, so the solution
  exists and the forward error is also recorded).
"""
import inspect
import math
import re
from fractions import Fraction

import numpy as np
import scipy
import scipy.linalg
import control as ct
import control.mateqn as mateqn
from control.exception import ControlArgument, ControlDimension

from core.runner import Family, Verdict, AGREE, VIOLATES, DIFFERS, canon
from core import exmat
from core.exact import fr, tok, Tokens

F = Fraction
RES_TOL = F(1, 10 ** 9)      # relative residual of the documented equation
SYM_TOL = F(1, 10 ** 9)
GAIN_TOL = F(1, 10 ** 8)
EIG_TOL = 1e-8
FWD_BUCKETS = (1e-14, 1e-12, 1e-10, 1e-8, 1e-6)
SOLVERS = {"solve_continuous_lyapunov": ("clyap", ("a", "q")),
           "solve_lyapunov": ("clyap", ("a", "q")),
           "solve_discrete_lyapunov": ("dlyap", ("a", "q")),
           "solve_sylvester": ("sylv", ("a", "b", "q")),
           "solve_continuous_are": ("care", ("a", "b", "q", "r", "e", "s")),
           "solve_discrete_are": ("dare", ("a", "b", "q", "r", "e", "s"))}


# ----------------------------------------------------------------------------------------
# case matrices: {"t": "I"|"F", "form": "2d"|"1d"|"0d", "c": "list"|"np", "v": rows of tokens}
# ----------------------------------------------------------------------------------------

def mk(rows, t="I", form="2d", c="list"):
    if t == "F":
        rows = [[F(float(F(x))) for x in r] for r in rows]      # the exact binary64 values
    return {"t": t, "form": form, "c": c, "v": [[tok(F(x)) for x in r] for r in rows]}


def rows_of(m):
    return [[F(x) for x in r] for r in m["v"]]


def build(m):
    """the Python object handed to python-control"""
    if m is None:
        return None
    rows = rows_of(m)
    if m["t"] == "I":
        data = [[int(x) for x in r] for r in rows]
    else:
        data = [[float(x) for x in r] for r in rows]
    if m["form"] == "0d":
        data = data[0][0]
    elif m["form"] == "1d":
        data = data[0]
    if m["c"] == "np":
        return np.array(data, dtype=np.int64 if m["t"] == "I" else float)
    return data


def mtok(m):
    if m is None:
        return "N"
    v = m["v"]
    return "M %s %d %d %s" % (m["t"], len(v), len(v[0]), " ".join(x for r in v for x in r))


def T(A):
    return [list(c) for c in zip(*A)] if A else []


def mm(*Ms):
    out = Ms[0]
    for M in Ms[1:]:
        out = exmat.mul(out, M)
    return out


def neg(A):
    return exmat.scale(F(-1), A)


def canon_arr(a):
    """canonical JSON form of a numeric array (exact): {"p","q","v"} or a marker"""
    if a is None:
        return None
    a = np.asarray(a)
    if a.ndim != 2:
        return {"bad": "ndim=%d" % a.ndim}
    if np.iscomplexobj(a):
        if np.any(a.imag != 0):
            return {"bad": "complex"}
        a = a.real
    if not np.all(np.isfinite(a.astype(float))):
        return {"bad": "nonfinite"}
    return {"p": int(a.shape[0]), "q": int(a.shape[1]), "v": [tok(fr(x)) for x in a.flatten().tolist()]}


def arr_rows(c):
    return exmat.from_flat(c["v"], c["p"], c["q"])


def classify_exc(e):
    if isinstance(e, ControlDimension):
        return "shape"
    if isinstance(e, ControlArgument):
        return "badArg"
    if isinstance(e, np.linalg.LinAlgError):
        return "illPosed"
    return type(e).__name__


class _Recorder:
    """stands in for the name `sp` of control.mateqn: `sp.linalg.<solver>` is wrapped, everything
    else is passed through to SciPy."""

    def __init__(self):
        self.calls = []
        self.ret = None
        self.linalg = _Linalg(self)

    def __getattr__(self, name):
        return getattr(scipy, name)


class _Linalg:
    def __init__(self, rec):
        self._rec = rec

    def __getattr__(self, name):
        orig = getattr(scipy.linalg, name)
        if name not in SOLVERS:
            return orig
        short, names = SOLVERS[name]
        rec = self._rec

        def wrapper(*args, **kw):
            ba = inspect.signature(orig).bind(*args, **kw)
            ba.apply_defaults()
            entry = {"name": short, "args": [canon_arr(ba.arguments.get(k)) for k in names]}
            extra = {k: v for k, v in ba.arguments.items() if k not in names}
            if extra.get("balanced", True) is not True or extra.get("method") not in (None,):
                entry["extra"] = {k: str(v) for k, v in extra.items()}
            rec.calls.append(entry)
            out = orig(*args, **kw)
            rec.ret = np.array(out, copy=True)
            return out
        return wrapper


def run_impl(case):
    fn = case["fn"]
    a = {k: build(v) for k, v in case["args"].items()}
    rec = _Recorder()
    saved = mateqn.sp
    mateqn.sp = rec
    try:
        try:
            if fn == "lyap":
                r = ct.lyap(a["A"], a["Q"], a.get("C"), a.get("E"), method="scipy")
            elif fn == "dlyap":
                r = ct.dlyap(a["A"], a["Q"], a.get("C"), a.get("E"), method="scipy")
            elif fn == "care":
                r = ct.care(a["A"], a["B"], a["Q"], a.get("R"), a.get("S"), a.get("E"),
                            stabilizing=case.get("stab", True), method="scipy")
            elif fn == "dare":
                r = ct.dare(a["A"], a["B"], a["Q"], a.get("R"), a.get("S"), a.get("E"),
                            stabilizing=case.get("stab", True), method="scipy")
            else:
                raise ValueError(fn)
        finally:
            mateqn.sp = saved
    except Exception as e:  # noqa
        return {"err": classify_exc(e), "exc": "%s: %s" % (type(e).__name__, str(e)[:160]),
                "calls": rec.calls, "solver_ret": canon_arr(rec.ret) if rec.ret is not None else None}
    out = {"calls": rec.calls, "solver_ret": canon_arr(rec.ret) if rec.ret is not None else None}
    if fn in ("lyap", "dlyap"):
        out["ok"] = {"X": canon_arr(r)}
    else:
        X, L, G = r
        Lc = np.asarray(L).astype(complex).flatten()
        out["ok"] = {"X": canon_arr(X), "G": canon_arr(G),
                     "L": [[repr(float(z.real)), repr(float(z.imag))] for z in Lc],
                     "Lndim": int(np.asarray(L).ndim)}
    return out


# ----------------------------------------------------------------------------------------
# exact evaluation of the documented equations
# ----------------------------------------------------------------------------------------

def two_d(m):
    return rows_of(m)


def doc_residual(case, X):
    """(residual matrix, scale) of the documented equation at X (exact Fractions); the scale is
    the sum of the max-norms of the terms."""
    fn = case["fn"]
    g = case["args"]
    A = two_d(g["A"])
    n = len(A)
    Q = two_d(g["Q"])
    terms = []
    if fn == "lyap" and g.get("C") is None:
        terms = [mm(A, X), mm(X, T(A)), Q]
    elif fn == "lyap":
        terms = [mm(A, X), mm(X, Q), two_d(g["C"])]
    elif fn == "dlyap":
        terms = [mm(A, X, T(A)), neg(X), Q]
    else:
        B = two_d(g["B"])
        m = len(B[0])
        R = two_d(g["R"]) if g.get("R") is not None else exmat.eye(m)
        S = two_d(g["S"]) if g.get("S") is not None else exmat.zeros(n, m)
        E = two_d(g["E"]) if g.get("E") is not None else exmat.eye(n)
        if fn == "care":
            left = exmat.add(mm(T(E), X, B), S)
            right = exmat.add(mm(T(B), X, E), T(S))
            Rr = exmat.solve(R, right)
            if Rr is None:
                return None, None
            terms = [mm(T(A), X, E), mm(T(E), X, A), neg(mm(left, Rr)), Q]
        else:
            left = exmat.add(mm(T(A), X, B), S)
            right = exmat.add(mm(T(B), X, A), T(S))
            Fm = exmat.add(mm(T(B), X, B), R)
            Fr = exmat.solve(Fm, right)
            if Fr is None:
                return None, None
            terms = [mm(T(A), X, A), neg(mm(T(E), X, E)), neg(mm(left, Fr)), Q]
    res = terms[0]
    for t in terms[1:]:
        res = exmat.add(res, t)
    scale = sum((exmat.maxabs(t) for t in terms), F(0))
    return res, scale


def expected_xshape(case):
    g = case["args"]
    A = g["A"]["v"]
    if case["fn"] == "lyap" and g.get("C") is not None:
        return (len(A), len(g["Q"]["v"]))
    return (len(A), len(A))


def bucket(x):
    for b in FWD_BUCKETS:
        if x <= b:
            return "<=%g" % b
    return ">%g" % FWD_BUCKETS[-1]


class C10(Family):
    prop = "C10"
    # source-text tie (DESIGN 2.5): Generated/MatEqnCheck.lean is rewritten from /repo's control/mateqn.py
    # (_check_shape, _is_symmetric) on every run and proved equal to the model's checkShape / isSymD
    extra_modules = ["CtrlVerif.Props.C10Stable",    # stability half (Lyapunov argument over C)
                     "CtrlVerif.Props.C10Gen"]
    # (py2lean-mateqn) the BODIES of lyap / dlyap / care / dare and _slycot_or_scipy: Generated/MatEqn{Method,Lyap,
    # Dlyap,Care,Dare}.lean are rewritten from the source text and proved equal to lyapD / dlyapD / careD / dareD;
    # headline theorems transported to the generated functions
    extra_modules += ["CtrlVerif.Props.C10GenMethod", "CtrlVerif.Props.C10GenLyap", "CtrlVerif.Props.C10GenCare",
                      "CtrlVerif.Props.C10GenDare", "CtrlVerif.Props.C10GenBody"]

    def pre_build(self):
        import os
        from core import py2lean_select, leanproj
        problems, self.gen_info = py2lean_select.regenerate(
            os.environ.get("VERIF_REPO") or "/repo", leanproj.LEAN, "C10")
        from core import py2lean_meq                                   # (py2lean-mateqn)
        problems_meq, self.gen_info_meq = py2lean_meq.regenerate(
            os.environ.get("VERIF_REPO") or "/repo", leanproj.LEAN)
        return problems + problems_meq

    externals = ["scipy.linalg.solve_continuous_lyapunov / solve_discrete_lyapunov / solve_sylvester / "
                 "solve_continuous_are / solve_discrete_are (contract structures of Props/C10.lean: the "
                 "returned matrix satisfies SciPy's documented equation, for the Riccati solvers it is "
                 "symmetric and stabilising, whenever such a matrix exists)",
                 "numpy.linalg.solve / scipy.linalg.solve (modelled by det != 0 and det^-1 * adjugate)",
                 "numpy.linalg.eig / scipy.linalg.eig / eigvals (returned eigenvalues are checked "
                 "against the model's pencil by backward error and trace)"]
    assumptions = [
        "method='scipy' only (slycot is not installed); np.array(x, ndmin=2) of scalars / 1-D lists "
        "is taken from NumPy (1 x 1, 1 x k)",
        "integer and small dyadic data: the negation / transposition / defaulting of the solver "
        "arguments is compared exactly; gains to 1e-8 relative; residual of the documented equation "
        "<= 1e-9 of the sum of its terms' max-norms on problems built backwards from a chosen "
        "stabilising solution with closed-loop spectrum at distance >= 1 from the imaginary axis "
        "(resp. inside radius 15/16)",
        "the SciPy solvers' own correctness is their contract; residual / symmetry / stability of "
        "what they returned is evaluated on every case as validation of that contract"]
    rule = ("lyap (Lyapunov and Sylvester), dlyap, care, dare with n in 1..3 (4 thorough), m in 1..2 (3), "
            "every combination of S / E / R given or None, integer and float dtypes, lists and arrays, "
            "scalar and 1-D forms for n = 1; Riccati problems are constructed backwards from a chosen "
            "symmetric X, stable closed loop, unimodular or diagonal E, positive definite R; a "
            "malformed stream (non-square, wrong shapes, non-symmetric Q / R with either sign of the "
            "asymmetry, asymmetry at and below machine epsilon, C and E together, unsupported "
            "SciPy branches, stabilizing=False); non-trivial = a solver call with n >= 2 or a "
            "validation error")

    def __init__(self):
        self._cache = {}
        self._info = {}

    # ---- generation --------------------------------------------------------------------
    @staticmethod
    def rmat(rng, p, q, lo=-2, hi=2):
        return [[F(rng.randint(lo, hi)) for _ in range(q)] for _ in range(p)]

    @staticmethod
    def rsym(rng, n, lo=-3, hi=3):
        M = [[F(0)] * n for _ in range(n)]
        for i in range(n):
            for j in range(i, n):
                M[i][j] = M[j][i] = F(rng.randint(lo, hi))
        return M

    @staticmethod
    def rpd(rng, n, unimodular=True):
        """positive definite integer matrix T T' (+ I) with T unit lower triangular"""
        Tm = [[F(int(i == j)) if j >= i else F(rng.randint(-1, 1)) for j in range(n)] for i in range(n)]
        R = exmat.mul(Tm, T(Tm))
        if not unimodular:
            R = exmat.add(R, exmat.scale(F(rng.choice([1, 2])), exmat.eye(n)))
        else:
            R = exmat.scale(F(rng.choice([1, 1, 2, 4])), R)
        return R

    @staticmethod
    def stable_cont(rng, n):
        N = [[F(rng.randint(-2, 2)) for _ in range(n)] for _ in range(n)]
        for i in range(n):
            N[i][i] = -(sum(abs(N[i][j]) for j in range(n) if j != i) + rng.randint(1, 3))
        return N

    @staticmethod
    def stable_disc(rng, n):
        N = [[F(rng.randint(-2, 2)) for _ in range(n)] for _ in range(n)]
        s = max(sum(abs(x) for x in r) for r in N)
        d = 2
        while d <= s:
            d *= 2
        if rng.random() < 0.3:
            d *= 2
        return [[x / d for x in r] for r in N]

    @staticmethod
    def runimod(rng, n):
        """nonsingular E: unit lower times unit upper triangular (det 1), or diagonal"""
        if rng.random() < 0.3:
            return [[F(rng.choice([1, -1, 2, -2, 4])) if i == j else F(0) for j in range(n)] for i in range(n)]
        Lm = [[F(int(i == j)) if j >= i else F(rng.randint(-1, 1)) for j in range(n)] for i in range(n)]
        Um = [[F(int(i == j)) if j <= i else F(rng.randint(-1, 1)) for j in range(n)] for i in range(n)]
        return exmat.mul(Lm, Um)

    def style(self, rng, rows, allow_forms=True, force_float=False):
        ints = all(F(x).denominator == 1 for r in rows for x in r) and not force_float
        t = "I" if ints and rng.random() < 0.55 else "F"
        c = rng.choice(["list", "np"])
        form = "2d"
        if allow_forms and len(rows) == 1 and rng.random() < 0.35:
            form = "0d" if len(rows[0]) == 1 and rng.random() < 0.6 else "1d"
        return mk(rows, t, form, c)

    def gen_lyap(self, rng, nmax):
        n = rng.randint(1, nmax)
        A = self.stable_cont(rng, n)
        if rng.random() < 0.15:
            A = neg(A)
        Q = self.rsym(rng, n)
        return {"fn": "lyap", "kind": "lyap", "args": {"A": self.style(rng, A), "Q": self.style(rng, Q)}}

    def gen_sylv(self, rng, nmax):
        n, m = rng.randint(1, nmax), rng.randint(1, nmax)
        A, Q = self.stable_cont(rng, n), self.stable_cont(rng, m)
        C = self.rmat(rng, n, m, -3, 3)
        return {"fn": "lyap", "kind": "sylv",
                "args": {"A": self.style(rng, A), "Q": self.style(rng, Q),
                         "C": self.style(rng, C, allow_forms=(n == 1))}}

    def gen_dlyap(self, rng, nmax):
        n = rng.randint(1, nmax)
        A = self.stable_disc(rng, n)
        Q = self.rsym(rng, n)
        return {"fn": "dlyap", "kind": "dlyap", "args": {"A": self.style(rng, A), "Q": self.style(rng, Q)}}

    def gen_are(self, rng, fn, nmax, mmax):
        """Riccati problem built backwards from a chosen symmetric X with a stable closed loop"""
        for _ in range(200):
            n, m = rng.randint(1, nmax), rng.randint(1, mmax)
            B = self.rmat(rng, n, m)
            if all(x == 0 for r in B for x in r):
                continue
            if rng.random() < 0.3:
                hasS = hasE = False                      # the standard branch
            else:
                hasS, hasE = rng.choice([(True, False), (False, True), (True, True), (True, True)])
            hasR = rng.random() < 0.85
            R = exmat.eye(m)
            while hasR and R == exmat.eye(m):
                R = self.rpd(rng, m, unimodular=rng.random() < 0.7)
            S = self.rmat(rng, n, m) if hasS else exmat.zeros(n, m)
            E = self.runimod(rng, n) if hasE else exmat.eye(n)
            if rng.random() < 0.6:
                Lx = self.rmat(rng, n, n, -1, 1)
                X = exmat.add(exmat.mul(Lx, T(Lx)), exmat.eye(n))      # positive definite
            else:
                X = self.rsym(rng, n)
            if fn == "care":
                Mst = self.stable_cont(rng, n)
                G = exmat.solve(R, exmat.add(mm(T(B), X, E), T(S)))
                A = exmat.add(exmat.mul(E, Mst), exmat.mul(B, G))
            else:
                Mst = self.stable_disc(rng, n)
                Fm = exmat.add(mm(T(B), X, B), R)
                Fi = exmat.solve(Fm, exmat.eye(m))
                if Fi is None or any(abs(x) > 8 for r in Fi for x in r):
                    continue
                P = exmat.sub(exmat.eye(n), mm(B, Fi, T(B), X))
                rhs = exmat.add(exmat.mul(E, Mst), mm(B, Fi, T(S)))
                A = exmat.solve(P, rhs)
                if A is None:
                    continue
            if any(abs(x) > 400 for r in A for x in r):
                continue
            # the data handed over are the binary64 roundings; Q is derived from those
            Ar = [[F(float(x)) for x in r] for r in A]
            args0 = {"A": mk(Ar, "F"), "B": mk(B), "Q": mk(exmat.zeros(n, n)),
                     "R": mk(R) if hasR else None, "S": mk(S) if hasS else None,
                     "E": mk(E) if hasE else None}
            res, _ = doc_residual({"fn": fn, "args": args0}, X)
            if res is None:
                continue
            Qm = neg(res)
            if any(abs(x) > 20000 for r in Qm for x in r):
                continue
            st = lambda rows, **kw: self.style(rng, rows, **kw)
            args = {"A": st(Ar), "B": st(B, allow_forms=(n == 1)), "Q": st(Qm),
                    "R": st(R) if hasR else None,
                    "S": st(S, allow_forms=(n == 1)) if hasS else None,
                    "E": st(E) if hasE else None}
            return {"fn": fn, "kind": fn, "stab": True, "args": args,
                    "Xexact": [[tok(x) for x in r] for r in X]}
        raise RuntimeError("no Riccati problem generated")

    def valid(self, rng, tier):
        nmax, mmax = (3, 2) if tier == "quick" else (4, 3)
        r = rng.random()
        if r < 0.15:
            return self.gen_lyap(rng, nmax)
        if r < 0.28:
            return self.gen_sylv(rng, nmax)
        if r < 0.40:
            return self.gen_dlyap(rng, nmax)
        if r < 0.70:
            return self.gen_are(rng, "care", nmax, mmax)
        return self.gen_are(rng, "dare", nmax, mmax)

    def malformed(self, rng, tier):
        """a valid problem with one argument spoiled"""
        c = self.valid(rng, tier)
        g = c["args"]
        c["kind"] = "bad-" + c["kind"]
        c.pop("Xexact", None)
        fn = c["fn"]
        names = [k for k, v in g.items() if v is not None]

        def rows(k):
            return rows_of(g[k])

        def put(k, rws, t=None):
            g[k] = mk(rws, t or g[k]["t"], "2d", g[k]["c"])
        how = rng.choice(["nonsym", "nonsym", "nonsym-eps", "nonsym-eps", "shape", "shape", "nonsquare", "both", "branch",
                          "stab", "wrongsize-nonsym"])
        c["how"] = how
        if how in ("nonsym", "nonsym-eps"):
            k = "R" if ("R" in names and rng.random() < 0.6) else "Q"
            if fn == "lyap" and "C" in names:
                return self.malformed(rng, tier)      # the Sylvester Q need not be symmetric
            M = rows(k)
            n = len(M)
            if n < 2 or len(M[0]) != n:
                if how == "nonsym-eps" or True:
                    # need a 2 x 2 at least: rebuild a small problem
                    return self.malformed(rng, tier)
            i, j = rng.sample(range(n), 2)
            if how == "nonsym":
                d = F(rng.choice([1, -1, 2, -3]))
                if g[k]["t"] == "F" and rng.random() < 0.4:
                    d = d / 1024
                M[i][j] += d
                put(k, M)
            else:
                # asymmetry of the size of machine epsilon on a zero pair (so it is representable)
                e = rng.choice([F(1, 2 ** 52), F(1, 2 ** 53), F(-1, 2 ** 52), F(1, 2 ** 60), F(3, 2 ** 53),
                                F(-1, 2 ** 40)])
                M[i][j] = e
                M[j][i] = F(0)
                put(k, M, "F")
                c["eps"] = tok(e)
        elif how == "shape":
            k = rng.choice(names)
            M = rows(k)
            if rng.random() < 0.5:
                M = M + [[F(rng.randint(-1, 1)) for _ in M[0]]]
            else:
                M = [r + [F(rng.randint(-1, 1))] for r in M]
            if rng.random() < 0.3:     # grow both ways: still square, wrong size
                p, q = len(M), len(M[0])
                s = max(p, q)
                M = [[M[i][j] if i < p and j < q else F(int(i == j)) for j in range(s)] for i in range(s)]
                M = [[M[i][j] if i <= j else M[j][i] for j in range(s)] for i in range(s)]
            put(k, M)
        elif how == "nonsquare":
            k = rng.choice(["A", "Q"])
            M = rows(k)
            M = [r[:-1] for r in M] if len(M[0]) > 1 and rng.random() < 0.5 else M + [list(M[0])]
            put(k, M)
        elif how == "wrongsize-nonsym":
            k = "Q"
            n = len(rows(k)) + 1
            M = self.rsym(rng, n)
            if n >= 2:
                M[0][n - 1] += 1
            put(k, M)
        elif how == "both":
            if fn in ("lyap", "dlyap"):
                n = len(rows("A"))
                g["C"] = mk(self.rmat(rng, n, len(rows("Q"))))
                g["E"] = mk(exmat.eye(n))
            else:
                c["stab"] = False
        elif how == "branch":
            if fn == "lyap":
                g.pop("C", None)
                g["E"] = mk(self.runimod(rng, len(rows("A"))))
            elif fn == "dlyap":
                n = len(rows("A"))
                if rng.random() < 0.5:
                    g["C"] = mk(self.rmat(rng, n, n))
                else:
                    g["E"] = mk(self.runimod(rng, n))
            else:
                c["stab"] = False
        elif how == "stab":
            if fn in ("care", "dare"):
                c["stab"] = False
            else:
                k = "A"
                M = rows(k)
                put(k, M + [list(M[0])])
        return c

    def generate(self, rng, tier):
        n = 420 if tier == "quick" else 5000
        out = []
        for i in range(n):
            if i % 3 == 2:
                out.append(self.malformed(rng, tier))
            else:
                out.append(self.valid(rng, tier))
        return out

    def corpus(self):
        A = [[0, 1], [-2, -3]]
        B = [[0], [1]]
        return [
            {"fn": "lyap", "kind": "lyap", "args": {"A": mk(A), "Q": mk([[2, 0], [0, 1]])}},
            {"fn": "lyap", "kind": "bad-lyap", "how": "nonsym",
             "args": {"A": mk(A), "Q": mk([[2, -1], [1, 1]], "F")}},
            {"fn": "lyap", "kind": "bad-lyap", "how": "nonsym",
             "args": {"A": mk(A), "Q": mk([[2, 1], [-1, 1]], "F")}},
            {"fn": "care", "kind": "bad-care", "how": "wrongsize-nonsym", "stab": True,
             "args": {"A": mk(A), "B": mk(B), "Q": mk([[2, 1, 0], [0, 1, 0], [0, 0, 1]]), "R": mk([[1]]),
                      "S": None, "E": None}},
            {"fn": "dlyap", "kind": "bad-dlyap", "how": "branch",
             "args": {"A": mk([[F(1, 2), 0], [0, F(1, 4)]], "F"), "Q": mk([[1, 0], [0, 1]]),
                      "C": mk([[1, 0], [0, 1]])}},
        ]

    # ---- execution ---------------------------------------------------------------------
    def run(self, case):
        key = canon(case)
        if key not in self._cache:
            if len(self._cache) > 20000:
                self._cache.clear()
            self._cache[key] = run_impl(case)
        return self._cache[key]

    def line(self, case):
        fn = case["fn"]
        g = case["args"]
        if fn in ("lyap", "dlyap"):
            return "mateqn %s %s %s %s %s X N" % (fn, mtok(g["A"]), mtok(g["Q"]), mtok(g.get("C")),
                                                  mtok(g.get("E")))
        r = self.run(case)
        x = "N"
        sr = r.get("solver_ret")
        if sr and "v" in sr and (sr["p"], sr["q"]) == expected_xshape(case):
            x = "%d %d %s" % (sr["p"], sr["q"], " ".join(sr["v"]))
        return "mateqn %s %d %s %s %s %s %s %s X %s" % (
            fn, 1 if case.get("stab", True) else 0, mtok(g["A"]), mtok(g["B"]), mtok(g["Q"]),
            mtok(g.get("R")), mtok(g.get("S")), mtok(g.get("E")), x)

    def impl(self, case):
        return self.run(case)

    def parse_model(self, case, out):
        tk = Tokens(out)
        head = tk.next()
        if head == "err":
            return {"err": tk.next()}
        assert head == "ok" and tk.next() == "call"

        def mat(optional=False):
            if optional and tk.t[tk.i] == "N":
                tk.next()
                return None
            p, q = tk.nat(), tk.nat()
            return {"p": p, "q": q, "v": [tk.next() for _ in range(p * q)]}
        name = tk.next()
        if name in ("clyap", "dlyap"):
            args = [mat(), mat()]
        elif name == "sylv":
            args = [mat(), mat(), mat()]
        else:
            args = [mat(), mat(), mat(), mat(), mat(True), mat(True)]
        model = {"call": {"name": name, "args": args}}
        if not tk.done():
            assert tk.next() == "res"
            w = tk.next()
            if w == "needX":
                model["res"] = "needX"
            elif w == "err":
                model["res"] = {"err": tk.next()}
            else:
                assert w == "X"
                X = mat()
                assert tk.next() == "G"
                G = mat()
                assert tk.next() == "Acl"
                Acl = mat()
                assert tk.next() == "Ecl"
                Ecl = mat(True)
                model["res"] = {"X": X, "G": G, "Acl": Acl, "Ecl": Ecl}
        return model

    def feat(self, case, kind, impl=None, **extra):
        g = case["args"]
        f = {"fn": case["fn"], "kind": kind,
             "opt": "".join(k for k in ("C", "R", "S", "E") if g.get(k) is not None) or "-"}
        if impl is not None and "err" in impl:
            f["exc"] = impl["exc"].split(":")[0]
            f["msg"] = re.sub(r"[0-9]+", "#", impl["exc"].split(":", 1)[1].strip())[:50]
            if "pencil has eigenvalues too close" in impl["exc"]:
                # raised inside scipy.linalg.solve_{continuous,discrete}_are
                f["scipy_are_fail"] = "generalized-E" if g.get("E") is not None else "standard"
        f.update(extra)
        return f

    def property_checks(self, case, impl, model):
        """the property on what the implementation returned.  -> (kind, detail) of the first
        failure, else None; fills self._last with statistics"""
        fn = case["fn"]
        o = impl["ok"]
        info = {}
        self._info[canon(case)] = info
        X = o["X"]
        if X is None or "v" not in X:
            return "x-form", "returned X is %s" % (X,)
        if (X["p"], X["q"]) != expected_xshape(case):
            return "x-shape", "X has shape %s, expected %s" % ((X["p"], X["q"]), expected_xshape(case))
        Xr = arr_rows(X)
        if impl.get("solver_ret") != X:
            return "x-not-solver-output", "the returned X is not the matrix the SciPy solver returned"
        # a spoiled problem that is still accepted (asymmetry below eps, ...) need not be well
        # posed: what SciPy returns for it is outside the property's quantifier, python-control's
        # own part (solver call, gain, eigenvalues of the pencil) is still checked
        designed = bool(case.get("Xexact")) or case.get("kind") in ("lyap", "sylv", "dlyap")
        res, scale = doc_residual(case, Xr)
        if res is None and not designed:
            res, scale = [[F(0)]], F(1)
        if res is None:
            return "residual", "the documented equation cannot be evaluated at the returned X (singular R / B'XB+R)"
        # the terms of the equation are themselves only known to binary64 precision RELATIVE TO THE DATA:
        # when the exact solution is 0 (Q = 0) SciPy returns entries of order 1e-32, every term is of that
        # order and the quotient is meaningless (thorough seed 12).  A residual below one unit in the last
        # place of the data scale is a perturbation of Q nobody can see: floor the scale there.
        try:
            dmax = max([F(1)] + [abs(F(x)) for a_ in case["args"].values() if a_ and a_.get("v")
                                 for r_ in (a_["v"] if isinstance(a_["v"][0], list) else [a_["v"]]) for x in r_])
        except Exception:  # noqa
            dmax = F(1)
        if scale is not None:
            scale = max(scale, F(1, 2 ** 52) * dmax * dmax)
        rel = exmat.maxabs(res) / scale if scale else exmat.maxabs(res)
        info["resid"] = float(rel)
        if rel > RES_TOL and designed:
            return "residual", "relative residual of the documented equation %.3g (max |res| %.3g)" % (
                float(rel), float(exmat.maxabs(res)))
        if case.get("Xexact"):
            Xe = [[F(x) for x in r] for r in case["Xexact"]]
            info["fwd"] = float(exmat.maxabs(exmat.sub(Xr, Xe)) / max(F(1), exmat.maxabs(Xe)))
        if fn in ("lyap", "dlyap"):
            return None
        n = X["p"]
        asym = exmat.maxabs(exmat.sub(Xr, T(Xr)))
        if asym > SYM_TOL * max(F(1), exmat.maxabs(Xr)) and designed:
            return "x-symmetry", "X - X' has an entry of size %.3g" % float(asym)
        G, mres = o["G"], model.get("res")
        if not isinstance(mres, dict) or "G" not in mres:
            return None
        if G is None or "v" not in G or (G["p"], G["q"]) != (mres["G"]["p"], mres["G"]["q"]):
            return "gain-shape", "G is %s, expected %dx%d" % (
                G if G is None or "v" not in G else (G["p"], G["q"]), mres["G"]["p"], mres["G"]["q"])
        Gi, Gm = arr_rows(G), arr_rows(mres["G"])
        gerr = exmat.maxabs(exmat.sub(Gi, Gm)) / max(F(1), exmat.maxabs(Gm))
        info["gain"] = float(gerr)
        if gerr > GAIN_TOL:
            return "gain", "returned G differs from the documented expression in the solver's X by %.3g relative" % float(gerr)
        # eigenvalues: each returned value is an eigenvalue of the model's pencil (backward error),
        # there are n of them and their sum is the trace
        L = [complex(float(a), float(b)) for a, b in o["L"]]
        if len(L) != n or o.get("Lndim") != 1:
            return "eig-count", "%d closed-loop eigenvalues returned for n = %d" % (len(L), n)
        if not all(math.isfinite(z.real) and math.isfinite(z.imag) for z in L):
            return "eig", "non-finite closed-loop eigenvalue"
        Acl = arr_rows(mres["Acl"])
        Ecl = arr_rows(mres["Ecl"]) if mres["Ecl"] is not None else exmat.eye(n)
        Af = np.array([[float(x) for x in r] for r in Acl])
        Ef = np.array([[float(x) for x in r] for r in Ecl])
        # scale of the data A - B G is formed from (its rounding error is relative to this)
        Ain = np.array([[float(x) for x in r] for r in two_d(case["args"]["A"])])
        Bin = np.array([[float(x) for x in r] for r in two_d(case["args"]["B"])])
        Gf = np.array([[float(x) for x in r] for r in Gm])
        na = np.linalg.norm(Ain, 2) + np.linalg.norm(Bin, 2) * np.linalg.norm(Gf, 2)
        ne = np.linalg.norm(Ef, 2)
        worst = 0.0
        for z in L:
            smin = np.linalg.svd(z * Ef - Af, compute_uv=False)[-1]
            worst = max(worst, smin / (na + abs(z) * ne + 1e-300))
        info["eig"] = worst
        if worst > EIG_TOL:
            return "eig", "a returned eigenvalue is not an eigenvalue of (A - B G, E): backward error %.3g" % worst
        EinvA = exmat.solve(Ecl, Acl)
        tr = sum((EinvA[i][i] for i in range(n)), F(0))
        terr = abs(sum(L) - float(tr)) / (1.0 + sum(abs(z) for z in L) + na)
        if terr > 1e-7:
            return "eig", "sum of the returned eigenvalues differs from trace(E^-1 (A - B G)) by %.3g relative" % terr
        if fn == "care":
            margin = max(z.real for z in L)
            stable = margin < 0
        else:
            margin = max(abs(z) for z in L) - 1
            stable = margin < 0
        info["margin"] = margin
        if not stable and designed:
            return "unstable", "closed loop is not asymptotically stable (margin %.3g)" % margin
        return None

    def compare(self, case, impl, model):
        if "err" in model:
            if "err" in impl:
                if impl["err"] == model["err"]:
                    return Verdict(AGREE)
                return Verdict(DIFFERS, "model raises %s, implementation raises %s" % (model["err"], impl["exc"]),
                               self.feat(case, "errkind", impl, model_err=model["err"]))
            return Verdict(VIOLATES, "arguments the specification rejects (model: %s) are accepted" % model["err"],
                           self.feat(case, "returns-" + model["err"], how=case.get("how", "-")))
        mres = model.get("res")
        if "err" in impl:
            if isinstance(mres, dict) and "err" in mres and impl["err"] in ("illPosed", "ValueError"):
                return Verdict(AGREE)
            designed = bool(case.get("Xexact")) or case.get("kind") in ("lyap", "sylv", "dlyap")
            if not designed and impl["calls"] == [model["call"]] and impl.get("solver_ret") is None:
                # a spoiled problem that is still accepted (e.g. asymmetry below eps) need not have
                # a solution: the SciPy solver itself raised after having been called correctly
                return Verdict(AGREE)
            if designed and impl["calls"] == [model["call"]] and impl.get("solver_ret") is None \
                    and case["fn"] in ("care", "dare") and self.clustered_closed_loop(case):
                # python-control called the SciPy solver with the right arguments and SciPy itself gave
                # up; the designed closed loop has (nearly) repeated eigenvalues, so the stable
                # invariant subspace of the Hamiltonian / symplectic pencil is ill conditioned and
                # ordered-QZ may fail: outside "rounding scaled by the problem's conditioning"
                return Verdict(AGREE)
            return Verdict(VIOLATES, "implementation raises %s on a well-posed problem" % impl["exc"],
                           self.feat(case, "raises", impl))
        # both return
        call_ok = impl["calls"] == [model["call"]]
        bad = self.property_checks(case, impl, model)
        if bad is not None:
            kind, detail = bad
            if not call_ok:
                detail += "; solver call differs from the model's: %s vs %s" % (
                    self.call_diff(impl["calls"], model["call"]), "model")
            # call_ok and X passed through unchanged: python-control did its part, the failure
            # is in what SciPy returned for a correctly posed call
            return Verdict(VIOLATES, detail, self.feat(
                case, kind, call_ok=call_ok, hasE=case["args"].get("E") is not None,
                scipy_only=bool(call_ok and kind in ("residual", "unstable", "x-symmetry"))))
        if not call_ok:
            return Verdict(DIFFERS, "solver call differs from the model's (" +
                           self.call_diff(impl["calls"], model["call"]) + "), documented equation still satisfied",
                           self.feat(case, "call"))
        if isinstance(mres, dict) and "err" in mres:
            return Verdict(DIFFERS, "model: singular gain equation, implementation returns",
                           self.feat(case, "returns-illPosed"))
        if mres == "needX" :
            return Verdict(DIFFERS, "solver output was not recorded in the expected shape", self.feat(case, "needX"))
        return Verdict(AGREE)

    @staticmethod
    def clustered_closed_loop(case):
        """are two closed-loop eigenvalues of the designed solution closer than 1e-3 (relative)?"""
        try:
            g = case["args"]
            A = np.array([[float(F(x)) for x in r] for r in two_d(g["A"])])
            B = np.array([[float(F(x)) for x in r] for r in two_d(g["B"])])
            X = np.array([[float(F(x)) for x in r] for r in case["Xexact"]])
            n, m = A.shape[0], B.shape[1]
            R = np.eye(m) if g.get("R") is None else np.array([[float(F(x)) for x in r] for r in two_d(g["R"])])
            S = np.zeros((n, m)) if g.get("S") is None else np.array([[float(F(x)) for x in r] for r in two_d(g["S"])])
            E = np.eye(n) if g.get("E") is None else np.array([[float(F(x)) for x in r] for r in two_d(g["E"])])
            if case["fn"] == "care":
                G = np.linalg.solve(R, B.T @ X @ E + S.T)
            else:
                G = np.linalg.solve(B.T @ X @ B + R, B.T @ X @ A + S.T)
            lam = np.linalg.eigvals(np.linalg.solve(E, A - B @ G))
            for i in range(len(lam)):
                for j in range(i + 1, len(lam)):
                    if abs(lam[i] - lam[j]) <= 1e-3 * max(1.0, abs(lam[i]), abs(lam[j])):
                        return True
            return False
        except Exception:
            return False

    @staticmethod
    def call_diff(calls, mcall):
        if len(calls) != 1:
            return "%d solver calls recorded (%s)" % (len(calls), ",".join(c["name"] for c in calls))
        c = calls[0]
        if c["name"] != mcall["name"]:
            return "solver %s, model %s" % (c["name"], mcall["name"])
        if "extra" in c:
            return "extra arguments %s" % c["extra"]
        names = SOLVERS[{"clyap": "solve_continuous_lyapunov", "dlyap": "solve_discrete_lyapunov",
                         "sylv": "solve_sylvester", "care": "solve_continuous_are",
                         "dare": "solve_discrete_are"}[c["name"]]][1]
        for k, a, b in zip(names, c["args"], mcall["args"]):
            if a != b:
                return "argument %s: %s vs model %s" % (k, a, b)
        return "?"

    def nontrivial(self, case, model):
        if "err" in model:
            return True
        return len(case["args"]["A"]["v"]) >= 2

    def stats(self, case, impl, model):
        g = case["args"]
        st = {"fn": case["fn"], "kind": case.get("kind", "?"),
              "n": len(g["A"]["v"]),
              "outcome": ("err:" + model["err"]) if "err" in model else "ok:" + model["call"]["name"],
              "dtypes": "".join(sorted({v["t"] for v in g.values() if v is not None})),
              "forms": "+".join(sorted({v["form"] for v in g.values() if v is not None}))}
        if case["fn"] in ("care", "dare"):
            st["opt"] = "".join(k for k in ("R", "S", "E") if g.get(k) is not None) or "-"
            st["m"] = len(g["B"]["v"][0])
        if case.get("how"):
            st["how"] = case["how"]
        if "err" in model and "err" in impl:
            st["errkind_equal"] = impl["err"] == model["err"]
        last = self._info.get(canon(case), {})
        if "resid" in last:
            st["rel_residual"] = bucket(last["resid"])
        if "fwd" in last:
            st["forward_err_vs_designed_X"] = bucket(last["fwd"])
        if "gain" in last:
            st["gain_err"] = bucket(last["gain"])
        if "eig" in last:
            st["eig_backward_err"] = bucket(last["eig"])
        return st

    # ---- shrinking / search --------------------------------------------------------------
    def shrink(self, case):
        # drop optional arguments that are not needed for the failure
        g = case["args"]
        for k in ("S", "E", "R", "C"):
            if g.get(k) is not None and case["fn"] in ("care", "dare"):
                c = dict(case)
                c["args"] = dict(g)
                c["args"][k] = None
                c.pop("Xexact", None)
                yield c
        for k, v in g.items():
            if v is not None and (v["form"] != "2d" or v["c"] != "list"):
                c = dict(case)
                c["args"] = dict(g)
                c["args"][k] = dict(v, form="2d", c="list")
                yield c

    def search(self, rng, case, tier):
        out = []
        for _ in range(200):
            c = self.malformed(rng, "quick") if case.get("kind", "").startswith("bad-") else self.valid(rng, "quick")
            out.append(c)
        return out


from families import select_streams as _sel      # direct stream for _check_shape
FAMILY = _sel.extend(C10, _sel.CheckShapeStream())
