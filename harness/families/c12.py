"""C12 — stability margins, crossover frequencies, bandwidth: correspondence between
control/margins.py + LTI.bandwidth and the Lean model `CtrlVerif.Model.Margins` (driver family `mg`).

The root finders are parameters of the model: numpy.roots / scipy.optimize.minimize /
scipy.optimize.root_scalar are wrapped inside this process, the polynomial python-control hands to
numpy.roots is compared with the exactly recomputed test polynomial, and the model applies the
selection logic of stability_margins to the recorded roots.  The final gm/pm/sm/wpc/wgc/wms and
the bandwidth are compared with the model's exact values."""
import contextlib
import inspect
import io
import math
import warnings
from fractions import Fraction

import numpy as np
import scipy.optimize
import control as ct
from control import xferfcn, freqplot

from core.runner import Family, Verdict, AGREE, VIOLATES, DIFFERS
from core import exact
from core.exact import fr, tok, toks, Tokens

F0, F1 = Fraction(0), Fraction(1)
TAU = 1e-7            # relative tolerance on gm / sm / bandwidth residual (regime T)
TAU_DEG = 1e-5        # absolute tolerance on pm (degrees)
COND_MAX = 1e5        # conditioning guard of the evaluation of num(jw), den(jw)
EPS_TABLE = [float(np.finfo(float).eps ** (1 / k)) for k in range(1, 40)]
TOL2 = Fraction(1e-4) ** 2
_ORIG_ROOTS = np.roots
_ORIG_MIN_SCALAR = scipy.optimize.minimize_scalar
TAU_MIN = 1e-3        # a reported discrete stability margin is "not the minimum" when a point of the unit
#                       circle has |1+L| smaller by more than this factor (observed for converged runs of the
#                       unchanged code: <= 1e-5, typically 1e-12)
SM_ZERO = 1e-6        # below this the closed loop has a pole on the unit circle: |1+L| has a kink, not simple
THETA_GRID = np.linspace(0.0, math.pi, 4097)
Z_GRID = np.exp(1j * THETA_GRID)
# time scales of the continuous-time loops L0(s/a) (exact in binary64: powers of two), sampling periods
WSCALES = [-40, -34, -30, -30, -30, -24, -20, -10, 10, 20, 30, 40]
DT_LEGACY = ["T", "D1/2", exact.dt_tok(0.1)]
DT_WIDE = ["D2", "D2", "D4", "D5/2", "D10", "D64", "D1/1024", "D3", "D1000"]
# sampled-data (FRD) route: tolerance of the defining equations on the exact loop (the spline interpolation of the
# data is an external; its error on the generated grids is measured per case and must be below FR_INTERP), sign
# decisions on the data are compared only when they have the margin FR_SIGN / FR_SLOPE
FR_TAU = 1e-3          # smallest tolerance of a defining equation; the tolerance of a case is 1e3 x the measured
FR_TAU_MAX = 1e-2      # interpolation error, between FR_TAU and FR_TAU_MAX (phase: 100 x that, in degrees)
FR_INTERP = 1e-5       # grids on which the spline through the samples is further from the loop are not compared
FR_SHALLOW = 0.05      # a crossing must cut the real axis / the unit circle at an angle above this (radians, about)
FR_SIGN = 1e-9
FR_SLOPE = 1e-12
FR_STORES = ["ndarray"] * 5 + ["fresh", "readonly", "view", "rows2d", "rows2d", "lists"]


# ----------------------------------------------------------------------------------------------
# exact oracle of the NumPy polynomial calls made by margins.py (independent of the Lean model)
# ----------------------------------------------------------------------------------------------
def p_trim(p):
    p = list(p)
    while p and p[0] == 0:
        p.pop(0)
    return p or [F0]


def p_conv(p, q):
    out = [F0] * (len(p) + len(q) - 1)
    for i, a in enumerate(p):
        for j, b in enumerate(q):
            out[i + j] += a * b
    return out


def np_mul(p, q):
    return p_conv(p_trim(p), p_trim(q))


def np_add(p, q):
    n = max(len(p), len(q))
    p = [F0] * (n - len(p)) + list(p)
    q = [F0] * (n - len(q)) + list(q)
    return [a + b for a, b in zip(p, q)]


def np_sub(p, q):
    return np_add(p, [-b for b in q])


def np_der(p):
    n = len(p) - 1
    return [p[i] * (n - i) for i in range(n)]


def poly_iw(p):
    n = len(p) - 1
    re, im = [], []
    for k, c in enumerate(p):
        e = (n - k) % 4
        re.append([c, F0, -c, F0][e])
        im.append([F0, c, F0, -c][e])
    return re, im


def c_trim(re, im):
    re, im = list(re), list(im)
    while re and re[0] == 0 and im[0] == 0:
        re.pop(0)
        im.pop(0)
    if not re:
        return [F0], [F0]
    return re, im


def iw_sqr(re, im):
    re, im = c_trim(re, im)
    return np_add(p_conv(re, re), p_conv(im, im))


def oracle_polys_c(num, den):
    nr, ni = poly_iw(num)
    dr, di = poly_iw(den)
    t180 = np_sub(np_mul(ni, dr), np_mul(nr, di))
    t1 = np_sub(iw_sqr(nr, ni), iw_sqr(dr, di))
    sn = iw_sqr(np_add(nr, dr), np_add(ni, di))
    sd = iw_sqr(dr, di)
    ts = np_sub(np_mul(np_der(sn), sd), np_mul(np_der(sd), sn))
    return {"real": t180, "mag1": t1, "wstab": ts}


def oracle_polys_d(num, den):
    pq = len(num) - len(den)
    shift = [F1] + [F0] * (-pq)
    p1 = np_mul(num, den[::-1])
    p2 = np_mul(num[::-1], den)
    if pq < 0:
        p2 = np_mul(p2, shift)
    q1 = np_mul(num, num[::-1])
    q2 = np_mul(den, den[::-1])
    if pq < 0:
        q1 = np_mul(q1, shift)
    return {"real": np_sub(p1, p2), "mag1": np_sub(q1, q2)}


def strip_lead(p):
    p = list(p)
    while len(p) > 1 and p[0] == 0:
        p.pop(0)
    return p


def ceval(p, z):
    """exact Horner over Gaussian rationals; z = (re, im)"""
    ar, ai = F0, F0
    zr, zi = z
    for c in p:
        ar, ai = ar * zr - ai * zi + c, ar * zi + ai * zr
    return ar, ai


def abs_eval(p, r):
    """sum |c_k| r^k  (conditioning scale)"""
    acc = 0.0
    for c in p:
        acc = acc * r + abs(float(c))
    return acc


def abs_eval_exact(p, r):
    """sum |c_k| r^k as a Fraction (no overflow / underflow for time-scaled loops)"""
    acc = F0
    for c in p:
        acc = acc * r + abs(c)
    return acc


def ratio(a, b):
    """float(a / b) for Fractions of any magnitude (b != 0)"""
    try:
        return float(a / b)
    except OverflowError:
        return math.inf


def resp_exact(num, den, z):
    nr, ni = ceval(num, z)
    dr, di = ceval(den, z)
    d2 = dr * dr + di * di
    if d2 == 0:
        return None
    return ((nr * dr + ni * di) / d2, (ni * dr - nr * di) / d2)


def p_divmod(a, b):
    a = list(a)
    q = []
    while len(a) >= len(b):
        c = a[0] / b[0]
        q.append(c)
        for i in range(len(b)):
            a[i] -= c * b[i]
        a.pop(0)
    return q, (strip_lead(a) if a else [F0])


def p_gcd(a, b):
    a, b = strip_lead(a), strip_lead(b)
    while not (len(b) == 1 and b[0] == 0):
        a, b = b, p_divmod(a, b)[1]
    return a


def sign_var(seq):
    s = [x for x in seq if x != 0]
    return sum(1 for u, v in zip(s, s[1:]) if (u > 0) != (v > 0))


def sturm_count_from(p, a, closed):
    """number of DISTINCT real roots of p in (a, oo), plus the root at a itself when `closed`
    (exact, Sturm's theorem on the square-free part)"""
    p = strip_lead(p)
    if len(p) == 1:
        return 0
    g = p_gcd(p, np_der(p))
    if len(g) > 1:
        p = p_divmod(p, g)[0]
    extra = 0
    if exact.pval(p, a) == 0:
        p = p_divmod(p, [F1, -a])[0]
        extra = 1 if closed else 0
        if len(p) == 1:
            return extra
    chain = [p, np_der(p)]
    while not (len(chain[-1]) == 1 and chain[-1][0] == 0) and len(chain[-1]) >= 1:
        r = p_divmod(chain[-2], chain[-1])[1]
        if len(r) == 1 and r[0] == 0:
            break
        chain.append([-c for c in r])
    va = sign_var([exact.pval(q, a) for q in chain])
    vinf = sign_var([q[0] for q in chain])
    return va - vinf + extra


# ----------------------------------------------------------------------------------------------
def fl(x):
    """canonical JSON form of an implementation float"""
    x = float(x)
    if math.isnan(x):
        return "nan"
    if math.isinf(x):
        return "inf" if x > 0 else "-inf"
    return repr(x)


def unfl(s):
    return float(s)


def ctoks(zs):
    return "%d%s" % (len(zs), "".join(" %s %s" % (tok(fr(z.real)), tok(fr(z.imag))) for z in zs))


def dt_value(t):
    if t == "C":
        return 0
    if t == "T":
        return True
    return float(Fraction(t[1:]))


def mant_bits(c):
    """width of the binary mantissa of a dyadic rational (99: not dyadic)"""
    d = c.denominator
    if d & (d - 1):
        return 99
    n = abs(c.numerator)
    if n == 0:
        return 0
    return (n >> ((n & -n).bit_length() - 1)).bit_length()


def wscale_of(case):
    """time scale a of a continuous-time case: the loop is L0(s/a), a = 2^k"""
    k = case.get("wscale")
    if k is None:
        return F1
    k = int(k)
    return Fraction(2) ** k


def case_coeffs(case):
    """exact coefficient lists of the loop: `num`, `den` of the case describe L0; with a time scale a the
    loop is L0(s/a), written with a monic denominator (`norm` = "monic": num, den times a^q) or with the
    constant terms of L0 (`norm` = "const": coefficient of s^k divided by a^k)"""
    num = [Fraction(x) for x in case["num"]]
    den = [Fraction(x) for x in case["den"]]
    a = wscale_of(case)
    if a == 1:
        return num, den
    q = len(den) - 1
    if case.get("norm", "monic") == "monic":
        den = [c * a ** i for i, c in enumerate(den)]
        num = [c * a ** (i + len(den) - len(num)) for i, c in enumerate(num)]
    else:
        den = [c / a ** (q - i) for i, c in enumerate(den)]
        num = [c / a ** (len(num) - 1 - i) for i, c in enumerate(num)]
    return num, den


def eff_epsw(case):
    """epsw of the call: the case gives it in units of the time scale"""
    return Fraction(case.get("epsw", "0")) * wscale_of(case)


def unit_of(case):
    """the frequency that counts as 'of order one' for this case (absolute frequency tolerances and the
    not-simple guards are relative to it)"""
    if case["dt"] == "C":
        return float(wscale_of(case))
    dtv = float(dt_value(case["dt"]))
    return min(1.0, 1.0 / dtv)


def circle_point(theta):
    """a point EXACTLY on the unit circle (rational parametrisation) within 1e-7 of exp(j theta), 0 <= theta <= pi"""
    theta = min(max(float(theta), 0.0), math.pi)
    if theta <= math.pi / 2:
        t = Fraction(math.tan(theta / 2)).limit_denominator(1 << 26)
        d = 1 + t * t
        return ((1 - t * t) / d, 2 * t / d)
    u = Fraction(math.tan((math.pi - theta) / 2)).limit_denominator(1 << 26)
    d = 1 + u * u
    return (-(1 - u * u) / d, 2 * u / d)


def sm_witness_angles(num, den, nmax=6):
    """angles in [0, pi] where |1 + L(exp(j theta))| is locally smallest on a 4097-point grid, each refined by
    a bounded scalar minimisation between its grid neighbours (unverified search: the model evaluates the
    candidates exactly)"""
    nf = np.array([float(c) for c in num])
    df = np.array([float(c) for c in den])

    def f(z):
        with np.errstate(all="ignore"):
            v = np.abs(1 + np.polyval(nf, z) / np.polyval(df, z))
        return np.where(np.isfinite(v), v, np.inf)
    fv = f(Z_GRID)
    n = len(fv)
    left = np.concatenate(([np.inf], fv[:-1]))
    right = np.concatenate((fv[1:], [np.inf]))
    idx = np.nonzero((fv <= left) & (fv <= right) & np.isfinite(fv))[0]
    idx = sorted(idx, key=lambda i: fv[i])[:nmax]
    out = []
    for i in idx:
        best = float(THETA_GRID[i])
        lo, hi = float(THETA_GRID[max(i - 1, 0)]), float(THETA_GRID[min(i + 1, n - 1)])
        try:
            r = _ORIG_MIN_SCALAR(lambda t: float(f(np.exp(1j * t))), bounds=(lo, hi), method="bounded",
                                 options={"xatol": 1e-11})
            if r.fun < fv[i]:
                best = float(r.x)
        except Exception:  # noqa  (the search is best effort)
            pass
        out.append(best)
    return out


def classify_exc(e):
    msg = str(e)
    if isinstance(e, ValueError):
        if "Not a proper transfer function" in msg:
            return "nonProper"
        if "dbdrop" in msg:
            return "badArg"
        return "ValueError"
    return type(e).__name__


# ----------------------------------------------------------------------------------------------
# sampled-data (FRD) route
# ----------------------------------------------------------------------------------------------
def fr_loop_ok(num, den):
    """loops whose frequency response is representable by samples: no pole / zero on the imaginary axis at
    w > 0 (the response is continuous and non-zero on the grid) and not real-valued on the whole axis"""
    for p in (num, den):
        sq = iw_sqr(*poly_iw(p))
        if sturm_count_from(sq, F0, False) != 0:
            return False
    t180 = oracle_polys_c(num, den)["real"]
    return any(c != 0 for c in t180)


def fr_disc(case):
    return case["dt"] != "C"


def fr_lti_tf(case):
    """the transfer function stability_margins works on for an LTI source (state-space form: after the code's own
    conversion) and its exact coefficient lists"""
    sys = build(dict(case, form=case["store"]))
    t = sys if isinstance(sys, ct.TransferFunction) else xferfcn._convert_to_transfer_function(sys)
    return t, [fr(c) for c in t.num[0][0]], [fr(c) for c in t.den[0][0]]


def fr_loop_ok_d(num, den):
    """discrete-time loops whose response on the upper half circle is representable by samples: proper, no pole or
    zero on |z| = 1 other than at z = 1 (float root test with a wide margin: unverified, only selects cases), and a
    real-crossing polynomial that does not vanish identically"""
    if len(num) > len(den):
        return False
    for p in (num, den):
        q = list(p)
        while len(q) > 1 and exact.pval(q, F1) == 0:      # deflate roots at z = 1
            q, _ = p_divmod(q, [F1, -F1])
        if len(q) > 1:
            r = _ORIG_ROOTS([float(c) for c in q])
            if np.any(np.abs(np.abs(r) - 1.0) < 1e-6):
                return False
    return any(c != 0 for c in oracle_polys_d(num, den)["real"])


def fr_likely(num, den):
    """_likely_numerical_inaccuracy decided exactly (squared norms): (fires, distance from the threshold)"""
    pq = len(num) - len(den)
    q1 = np_mul(num, num[::-1])
    if pq < 0:
        q1 = np_mul(q1, [F1] + [F0] * (-pq))
    q2 = np_mul(den, den[::-1])
    n1, n2 = sum(c * c for c in q1), sum(c * c for c in q2)
    return n1 < TOL2 * n2, (float(n1 / (TOL2 * n2)) if n2 else 1.0)


def fr_eval(case, num, den):
    """float evaluation of the loop at the frequency w (continuous: s = jw, discrete: z = exp(jw dt))"""
    nf = np.array([float(c) for c in num])
    df = np.array([float(c) for c in den])
    if fr_disc(case):
        dtv = float(dt_value(case["dt"]))

        def ev(w):
            z = np.exp(1j * np.asarray(w) * dtv)
            with np.errstate(all="ignore"):
                return np.polyval(nf, z) / np.polyval(df, z)
        return ev
    return lambda w: np.polyval(nf, 1j * np.asarray(w)) / np.polyval(df, 1j * np.asarray(w))


def fr_data(case):
    """the Bode data of the case: omega (log grid), the float response L(j omega), mag, phase in degrees.
    Discrete-time LTI sources (method='frd' / the fall-back of method='best'): omega is the code's own default
    frequency range of the transfer function (an external, taken from the implementation as in `bandwidth`), CUT
    as the model of the head of stability_margins says (`MarginsHead.belowNyquist`: omega < pi/dt); the response
    is the loop on the unit circle, z = exp(j omega dt)."""
    if fr_disc(case):
        t, num, den = fr_lti_tf(case)
        with warnings.catch_warnings():
            warnings.simplefilter("ignore")
            full = np.array(freqplot._default_frequency_range(t), ndmin=1, dtype=float)
        dtv = float(dt_value(case["dt"]))
        om = full[full * dtv < math.pi * (1 - 1e-12)]
        resp = fr_eval(case, num, den)(om)
        # samples within 1e-12 of the Nyquist frequency: the cut is a rounding decision (reported as a guard)
        edge = bool(np.any(np.abs(full * dtv - math.pi) <= 1e-12 * math.pi))
        ph = np.angle(resp)
        return om, resp, np.abs(resp), ph * 180.0 / np.pi, edge
    num, den = case_coeffs(case)
    nf = np.array([float(c) for c in num])
    df = np.array([float(c) for c in den])
    lo, hi, n = case["grid"]
    om = np.logspace(lo, hi, int(n))
    resp = np.polyval(nf, 1j * om) / np.polyval(df, 1j * om)
    ph = np.angle(resp)
    if case.get("unwrap"):
        ph = np.unwrap(ph)
    return om, resp, np.abs(resp), ph * 180.0 / np.pi, False


def fr_interp_error(case, om, resp, coeffs=None):
    """measured relative error of the cubic-spline interpolation of the data in omega (what a smooth FRD
    evaluates between the samples; scipy's FITPACK is an external): the interpolating spline through the samples
    is compared with the loop itself at the geometric midpoints of the grid intervals"""
    from scipy.interpolate import splrep, splev
    if len(om) < 16:
        return math.inf
    num, den = coeffs if coeffs is not None else case_coeffs(case)
    mid = np.sqrt(om[:-1] * om[1:])
    with np.errstate(all="ignore"):
        true = fr_eval(case, num, den)(mid)
    if not np.all(np.isfinite(true)) or np.any(true == 0):
        return math.inf
    est = splev(mid, splrep(om, resp.real, s=0)) + 1j * splev(mid, splrep(om, resp.imag, s=0))
    return float(np.max(np.abs(est - true) / np.abs(true)))


def fr_minimizer_leaves_grid(om, resp, idx):
    """does scipy's minimize_scalar, started as the FRD branch starts it (bracket = the two samples om[i], om[i+1],
    no bounds) on |1 + spline through the CORRECT data|, end outside [om[0], om[-1]] for one of the grid minima
    `idx`?  (the code then drops the point: `wstab[(wstab >= omega[0]) * (wstab <= omega[-1])]`)"""
    from scipy.interpolate import splrep, splev
    tr, ti = splrep(om, resp.real, s=0), splrep(om, resp.imag, s=0)

    def dstab(w):
        return float(np.hypot(splev(w, tr) + 1.0, splev(w, ti)))
    for i in idx:
        try:
            with np.errstate(all="ignore"), warnings.catch_warnings():
                warnings.simplefilter("ignore")
                x = float(_ORIG_MIN_SCALAR(dstab, bracket=(float(om[i]), float(om[i + 1]))).x)
        except Exception:  # noqa
            return True
        if not (om[0] <= x <= om[-1]):
            return True
    return False


def results_close(a, b, tau):
    """two canonical results agree (same shape, floats within tau relative; nan = nan, inf = inf)"""
    if ("ok" in a) != ("ok" in b):
        return False
    if "ok" not in a:
        return a.get("err") == b.get("err")
    if set(a["ok"]) != set(b["ok"]):
        return False
    for k in a["ok"]:
        x, y = a["ok"][k], b["ok"][k]
        if isinstance(x, list) != isinstance(y, list):
            return False
        xs, ys = (x, y) if isinstance(x, list) else ([x], [y])
        if len(xs) != len(ys):
            return False
        for u, v in zip(xs, ys):
            if not close_rel(unfl(u), unfl(v), tau, 0.0):
                return False
    return True


def canon_result(keys, r, arrays):
    if arrays:
        return {"ok": {k: [fl(x) for x in np.atleast_1d(v)] for k, v in zip(keys, r)}}
    return {"ok": {k: fl(v) for k, v in zip(keys, r)}}


def fr_call(call, triple, obj):
    """one call of the history; `triple` = (mag, phase, omega) containers or None, `obj` = FRD / LTI object or None"""
    api, returnall, pack = call
    try:
        with contextlib.redirect_stdout(io.StringIO()), warnings.catch_warnings():
            warnings.simplefilter("ignore")
            if obj is not None and pack == "frd-method":
                r = ct.stability_margins(obj, returnall=returnall, method="frd")
                return canon_result(("gm", "pm", "sm", "wpc", "wgc", "wms"), r, returnall)
            if obj is not None and pack == "best-method":      # the automatic fall-back (default method)
                if api == "margin":
                    return canon_result(("gm", "pm", "wpc", "wgc"), ct.margin(obj), False)
                r = ct.stability_margins(obj, returnall=returnall)
                return canon_result(("gm", "pm", "sm", "wpc", "wgc", "wms"), r, returnall)
            if api == "margin":
                if obj is not None:
                    r = ct.margin(obj)
                elif pack == "args":
                    r = ct.margin(*triple)
                else:
                    r = ct.margin(tuple(triple))
                return canon_result(("gm", "pm", "wpc", "wgc"), r, False)
            if obj is not None:
                arg = obj
            elif pack == "list":
                arg = list(triple)
            elif pack == "array":
                arg = triple
            else:
                arg = tuple(triple)
            r = ct.stability_margins(arg, returnall=returnall)
            return canon_result(("gm", "pm", "sm", "wpc", "wgc", "wms"), r, returnall)
    except Exception as e:  # noqa
        return {"err": classify_exc(e), "exc": "%s: %s" % (type(e).__name__, str(e)[:200])}


def fr_history(case, om, resp, mag, ph, only_fresh=None):
    """run the calls of the case on data the caller keeps; returns (results, result of the LAST call on fresh
    copies of the data, names of the caller's arrays that were modified).  `only_fresh = k`: just run call k on
    fresh copies and return its result."""
    source, store = case["source"], case["store"]
    pristine = {"mag": mag.tobytes(), "phase": ph.tobytes(), "omega": om.tobytes(), "resp": resp.tobytes()}

    def fresh_triple():
        return [mag.copy(), ph.copy(), om.copy()]
    kept, watch, obj = None, {}, None
    if source == "bode3":
        if store == "ndarray":
            kept = fresh_triple()
            watch = dict(zip(("mag", "phase", "omega"), kept))
        elif store == "readonly":
            kept = fresh_triple()
            for a in kept:
                a.setflags(write=False)
            watch = dict(zip(("mag", "phase", "omega"), kept))
        elif store == "view":           # strided views of a larger array the caller owns
            big = np.zeros((3, 2 * len(om)))
            big[0, ::2], big[1, ::2], big[2, ::2] = mag, ph, om
            kept = [big[0, ::2], big[1, ::2], big[2, ::2]]
            watch = dict(zip(("mag", "phase", "omega"), kept))
        elif store == "rows2d":         # one 3 x n array: unpacking yields views of its rows
            arr = np.array([mag, ph, om])
            kept = arr
            watch = {"mag": arr[0], "phase": arr[1], "omega": arr[2]}
        elif store == "lists":
            kept = [list(map(float, mag)), list(map(float, ph)), list(map(float, om))]
    elif source in ("frdobj", "frdobj-smooth"):
        def mk():
            return ct.FrequencyResponseData(resp.copy(), om.copy(), smooth=(source == "frdobj-smooth"))
        if store == "kept" and only_fresh is None:
            obj = mk()
            pristine["obj"] = (np.array(obj.frdata, copy=True).tobytes(), np.array(obj.omega, copy=True).tobytes())
    results = []
    sysobj = None
    ltipack = {"lti-frd": "frd-method", "lti-best": "best-method"}.get(source)
    if ltipack:
        sysobj = build(dict(case, form=store))
        try:
            pristine["sys"] = tf_coeffs(sysobj)
        except Exception:  # noqa
            pass
    if only_fresh is not None:
        call = case["calls"][only_fresh]
        if source == "bode3":
            if store == "lists":
                return fr_call(call, kept, None)
            if store == "rows2d" and call[0] == "stability_margins":
                return fr_call([call[0], call[1], "array"], np.array([mag, ph, om]), None)
            return fr_call(call, fresh_triple(), None)
        if ltipack:
            return fr_call([call[0], call[1], ltipack], None, build(dict(case, form=store)))
        return fr_call(call, None, mk())
    for call in case["calls"]:
        if source == "bode3":
            if store == "fresh":
                results.append(fr_call(call, fresh_triple(), None))
            elif store == "rows2d":
                c2 = list(call)
                if call[0] == "stability_margins":
                    c2[2] = "array"
                    results.append(fr_call(c2, kept, None))
                else:
                    results.append(fr_call(call, [kept[0], kept[1], kept[2]], None))
            else:
                results.append(fr_call(call, kept, None))
        elif ltipack:
            results.append(fr_call([call[0], call[1], ltipack], None, sysobj))
        else:
            results.append(fr_call(call, None, obj if obj is not None else mk()))
    modified = [k for k, a in watch.items() if np.asarray(a).tobytes() != pristine[k]]
    if sysobj is not None and "sys" in pristine:
        try:
            if tf_coeffs(sysobj) != pristine["sys"]:
                modified.append("system-object")
        except Exception:  # noqa
            modified.append("system-object")
    if obj is not None and "obj" in pristine:
        now = (np.array(obj.frdata, copy=True).tobytes(), np.array(obj.omega, copy=True).tobytes())
        if now != pristine["obj"]:
            modified.append("frd-object")
    return results, modified


class Recorder:
    """wraps numpy.roots, scipy.optimize.minimize and scipy.optimize.root_scalar while the
    implementation runs; records arguments and results keyed by the calling function."""

    def __init__(self):
        self.roots = {}
        self.minimize = None
        self.minimize_x0 = None
        self.minimize_bounds = None
        self.root_scalar = None
        self.warned_fallback = False

    def __enter__(self):
        self._roots, self._min, self._rs = np.roots, scipy.optimize.minimize, scipy.optimize.root_scalar
        rec = self

        def roots(p):
            r = rec._roots(p)
            caller = inspect.stack()[1].function
            rec.roots.setdefault(caller, (np.array(p, copy=True), np.array(r, copy=True)))
            return r

        def minimize(*a, **k):
            res = rec._min(*a, **k)
            if inspect.stack()[1].function == "_poly_z_wstab":
                rec.minimize = (bool(res.success), np.array(res.x, copy=True))
                try:
                    x0 = k["x0"] if "x0" in k else a[1]
                    rec.minimize_x0 = [float(v) for v in np.atleast_1d(x0)]
                    b = k.get("bounds")
                    rec.minimize_bounds = None if b is None else [float(b[0][0]), float(b[0][1])]
                except Exception:  # noqa
                    pass
            return res

        def root_scalar(f, *a, **k):
            res = rec._rs(f, *a, **k)
            if inspect.stack()[1].function == "bandwidth":
                rec.root_scalar = (list(k.get("bracket", [])), float(res.root), bool(res.converged))
            return res

        np.roots, scipy.optimize.minimize, scipy.optimize.root_scalar = roots, minimize, root_scalar
        self._cw = warnings.catch_warnings(record=True)
        self._wlist = self._cw.__enter__()
        warnings.simplefilter("always")
        return self

    def __exit__(self, *exc):
        np.roots, scipy.optimize.minimize, scipy.optimize.root_scalar = self._roots, self._min, self._rs
        self.warned_fallback = any("Falling back to 'frd'" in str(w.message) for w in self._wlist)
        self._cw.__exit__(*exc)
        return False


def build(case):
    num, den = case_coeffs(case)
    num = [float(x) for x in num]
    den = [float(x) for x in den]
    sys = ct.tf(num, den, dt_value(case["dt"]))
    if case.get("form") == "ss":
        sys = ct.tf2ss(sys)
    return sys


def tf_coeffs(sys):
    """coefficient lists stability_margins works on (exact rationals of the stored floats)"""
    if isinstance(sys, ct.TransferFunction):
        t = sys
    else:
        t = xferfcn._convert_to_transfer_function(sys)
    return [fr(c) for c in t.num[0][0]], [fr(c) for c in t.den[0][0]]


def gm_of(r):
    m = math.hypot(float(r[0]), float(r[1]))
    return math.inf if m == 0 else 1.0 / m


def pm_of(r):
    a = math.degrees(math.atan2(float(r[1]), float(r[0])))
    return (a % 360.0) - 180.0


def sm_of(r):
    return math.hypot(float(r[0]) + 1.0, float(r[1]))


def close_rel(a, b, tau, unit=1.0):
    if math.isinf(a) or math.isinf(b):
        return a == b
    if math.isnan(a) or math.isnan(b):
        return math.isnan(a) and math.isnan(b)
    return abs(a - b) <= tau * max(unit, abs(b))


def close_deg(a, b):
    if math.isnan(a) or math.isnan(b):
        return math.isnan(a) and math.isnan(b)
    d = ((a - b + 180.0) % 360.0) - 180.0
    return abs(d) <= TAU_DEG


class C12(Family):
    prop = "C12"
    # source-text tie (notes/NOTES-py2lean-arith.md): Generated/Poly{ZInvz,ZRealCrossing,ZMag1Crossing,
    # IwRealCrossing,IwSqr,IwMag1Crossing,IwWstab}.lean are rewritten from the text of the `_poly_*` functions
    # of control/margins.py of the tree under check on every run and proved equal to the model's test polynomials
    extra_modules = ["CtrlVerif.Props.C12Gen"]
    # source-text tie of the selection logic (notes/NOTES-py2lean-margins.md): Generated/Marg*.lean are rewritten by
    # core/py2lean_marg.py from stability_margins / margin / phase_crossover_frequencies / the _poly_* tails / LTI.bandwidth
    # sampled-data route and histories of calls (Model/MarginsFrd.lean)
    extra_modules += ["CtrlVerif.Props.C12Frd"]
    extra_modules += ["CtrlVerif.Props.C12GenSel", "CtrlVerif.Props.C12GenSm", "CtrlVerif.Props.C12GenSmRet",
                      "CtrlVerif.Props.C12GenSmTop", "CtrlVerif.Props.C12GenSmZ", "CtrlVerif.Props.C12GenSmCor",
                      "CtrlVerif.Props.C12GenMargin", "CtrlVerif.Props.C12GenBw", "CtrlVerif.Props.C12GenReal",
                      "CtrlVerif.Props.C12GenEx"]
    extra_modules += ["CtrlVerif.Props.C12Head", "CtrlVerif.Props.C12GenHead"]

    def pre_build(self):
        import os
        from core import py2lean_arith, leanproj
        repo = os.environ.get("VERIF_REPO") or "/repo"
        problems, self.gen_info = py2lean_arith.regenerate(
            repo, leanproj.LEAN, ("poly_z_invz", "poly_z_real_crossing", "poly_z_mag1_crossing",
                                  "poly_iw_real_crossing", "poly_iw_sqr", "poly_iw_mag1_crossing", "poly_iw_wstab"))
        from core import py2lean_marg
        problems2, info2 = py2lean_marg.regenerate(repo, leanproj.LEAN)
        self.gen_info.update(info2)
        # source-text tie of the head of stability_margins (notes/NOTES-py2lean-heads.md)
        from core import py2lean_heads
        problems3, info3 = py2lean_heads.regenerate(repo, leanproj.LEAN)
        self.gen_info.update(info3)
        return problems + problems2 + problems3
    externals = [
        "numpy.roots (returns all complex roots of the polynomial it is given; the polynomial is "
        "compared with the exactly recomputed one and the residual of every recorded root is recorded)",
        "scipy.optimize.minimize in _poly_z_wstab (discrete-time minimiser of |1+L|; the value at the returned "
        "point is checked, and minimality is refuted exactly by the model on candidate points of the unit circle "
        "found by an unverified grid search; x0 and bounds handed to it are recorded)",
        "scipy.optimize.root_scalar(bisect) in bandwidth (bracket compared, residual at the root checked)",
        "freqplot._default_frequency_range (the sampling grid of bandwidth is taken from the implementation)",
        "abs/angle/exp/10**x (evaluated in binary64 by the harness on the model's exact complex values)",
        "scipy.optimize.brentq / minimize_scalar and the FITPACK spline of a smooth FRD in the sampled-data route "
        "(the grid intervals handed to them are the model's; for discrete-time systems sampled by stability_margins "
        "the grid itself is freqplot._default_frequency_range of the implementation; the spline's distance from the loop is measured per case "
        "at the interval midpoints and sets the tolerance of the defining equations: 1e3 x that, between 1e-3 and 1e-2)"]
    assumptions = [
        "crossings are simple: cases where two selected frequencies, two candidate minima of the "
        "default selection, or a sign decision are closer than the stated guard are counted as guarded, not compared",
        "IEEE arithmetic is exact on integer/dyadic coefficient products below 2^50 (regime E: the "
        "polynomial given to numpy.roots must equal the model's coefficient list exactly)",
        "discrete time is modelled for epsw = 0; method='frd' on a CONTINUOUS-time system (the code's own frequency "
        "grid) is outside the model; for DISCRETE-time systems method='frd' and the numerical-inaccuracy fall-back of "
        "method='best' are compared on the grid freqplot._default_frequency_range returns for the transfer function "
        "(taken from the implementation), cut below pi/dt as the model of the head of stability_margins says "
        "(MarginsHead.belowNyquist), with the exact discrete crossings of the polynomial-route model as the reference "
        "(loops without poles / zeros on |z| = 1 except at z = 1; local minima of |1+L| found by an unverified grid "
        "search and evaluated exactly); the sampled-data route is modelled for Bode data / FRD objects of "
        "continuous-time loops without poles or zeros on the imaginary axis at w > 0, on logarithmic grids of 100-270 "
        "points per decade; a part (phase / gain / stability) is compared only when every sign decision on the data has "
        "a relative margin of 1e-9 (slope of |1+L|: 1e-12), the exact crossings are at least 4 grid intervals apart and "
        "from the grid ends, lie one per bracket, and cut the real axis / unit circle at an angle above 0.05",
        "time-scaled loops use powers of two only (uniform scaling, exact in binary64); frequency tolerances and "
        "the not-simple guards are relative to the time scale (continuous) / to min(1, 1/dt) (discrete)",
        "a discrete stability margin is reported as not minimal only when a candidate on the unit circle has "
        "|1+L| smaller by more than 1e-3 relative and the minimum is above 1e-6 (below: closed-loop pole on "
        "the unit circle, |1+L| not smooth)"]
    rule = ("SISO loops built from integer/dyadic factors (order 1-6, integrators, lightly damped and "
            "unstable factors, both gain signs, gains 1/8..40), continuous and discrete time (sampling periods "
            "1, 1/2, 0.1 and 2, 5/2, 3, 4, 10, 64, 1000, 1/1024), 30 % of the continuous loops time-scaled to "
            "L0(s/a) with a = 2^k, k in {-40..-10, 10..40} (crossover frequencies 1e-12..1e12, exact in binary64; "
            "epsw scaled with a), TF and SS form, returnall / default, epsw in {0, 1/8, 1/2, 2}, stability_margins / "
            "margin / phase_crossover_frequencies / bandwidth (dbdrop in {-3,-6,-1/2,-20, 0, 3}); for every "
            "discrete stability_margins case up to 6 candidate points exactly on |z| = 1 (local minima of |1+L| on a "
            "4097-point grid, refined) are handed to the model, which refutes a reported stability margin that "
            "is not the minimum; HISTORIES: n/16 cases run 1-3 successive calls (margin(mag, phase, omega), "
            "stability_margins((mag, phase, omega)) as tuple / list / 3 x n array, returnall or default, FRD objects "
            "smooth or not, method='frd') on Bode data of a continuous loop that the caller KEEPS between the calls "
            "(float ndarrays, read-only arrays, strided views, rows of a 2-D array, Python lists, fresh copies as the "
            "control group): every call of the history must satisfy the defining equations on the exact loop, report one "
            "crossing per sign change of the data (Lean model of the bracket selection) and select the smallest exact "
            "margin; the caller's arrays must be bit-identical afterwards; n/25 polynomial-route cases repeat the call 2-3 "
            "times on the same system object; n/20 cases are DISCRETE-time loops that stability_margins samples itself "
            "(sampling periods 1/1024 .. 64): explicit method='frd' on ordinary discrete loops and the automatic fall-back "
            "of the default method (stability_margins and margin) on fast-sampled slow dynamics (poles 1 - 2^-k, k = 5..12, "
            "0-3 samples of delay, integrators, numerator gain 2^-j), TF and SS form, 1-2 calls on the same object: every "
            "crossing of the exact discrete loop inside the sampled band (0, pi/dt) must be reported (one per sign change "
            "of the data on the correctly cut grid), satisfy its defining equation on the unit circle, and the default "
            "selection must be the smallest exact margin; non-trivial = order >= 2 or a non-default option; distinct = distinct "
            "canonical serialisation")

    def __init__(self):
        self._cache = {}

    # ---- generation ---------------------------------------------------------------------------
    def rnd_factor_c(self, rng):
        r = rng.random()
        if r < 0.35:
            return [F1, Fraction(rng.choice([1, 1, 2, 3, 4, 5, 8, 10, -1, -2, -3]))]
        if r < 0.5:
            return [F1, F0]
        if r < 0.85:
            b = Fraction(rng.choice([0, 1, 1, 2, 2, 3, 4, -1, -2]), rng.choice([1, 1, 2, 4]))
            c = Fraction(rng.choice([1, 2, 3, 4, 5, 8, 10, 16, 25]))
            return [F1, b, c]
        return [F1, Fraction(rng.randint(-4, 6)), Fraction(rng.randint(-4, 9)), Fraction(rng.randint(1, 9))]

    def rnd_factor_d(self, rng):
        r = rng.random()
        if r < 0.45:
            return [F1, Fraction(rng.choice([-3, -2, -1, 1, 2, 3, -4, 4, -5, 5, 0]), 4)]
        if r < 0.55:
            return [F1, -F1]                       # discrete integrator
        b = Fraction(rng.randint(-7, 7), 4)
        c = Fraction(rng.choice([1, 2, 3, 4, 5, 6]), rng.choice([4, 8]))
        return [F1, b, c]

    def rnd_loop(self, rng, disc, maxord):
        fac = self.rnd_factor_d if disc else self.rnd_factor_c
        den = [F1]
        nd = rng.choice([1, 1, 2, 2, 3])
        for _ in range(nd):
            f = fac(rng)
            if len(den) + len(f) - 2 <= maxord:
                den = exact.pmul(den, f)
        num = [F1]
        nn = rng.choice([0, 0, 0, 1, 1, 2])
        for _ in range(nn):
            f = fac(rng)
            if len(num) + len(f) - 2 <= len(den) - 1 - (0 if rng.random() < 0.25 else 1):
                num = exact.pmul(num, f)
        if len(den) == 1:
            den = exact.pmul(den, fac(rng))
        k = Fraction(rng.choice([1, 1, 2, 3, 5, 8, 10, 20, 40]), rng.choice([1, 1, 1, 2, 4, 8]))
        if rng.random() < 0.3:
            k = -k
        num = [k * c for c in num]
        return [tok(c) for c in num], [tok(c) for c in den]

    def rnd_dt(self, rng):
        """sampling period: the ordinary ones, and long / very short ones (frequencies are angle/dt; the search
        for the stability margin works in the normalised variable w*dt, whose range must not depend on dt)"""
        return rng.choice(DT_LEGACY) if rng.random() < 0.55 else rng.choice(DT_WIDE)

    def add_wscale(self, rng, case, p):
        """with probability p make the continuous-time loop L0(s/a), a = 2^k (exact in binary64): dynamics and
        crossover frequencies of the order 1e-12 .. 1e12 rad per time unit"""
        if case["dt"] == "C" and rng.random() < p:
            k = rng.choice(WSCALES)
            q = len(case["den"]) - 1
            if abs(k) * (4 * q - 1) > 800:     # keep a^(4q-1) (coefficients of n'd - d'n) inside binary64
                k = 30 if k > 0 else -30
            case["wscale"] = k
            case["norm"] = rng.choice(["monic", "const"])
            case["form"] = "tf"                # tf2ss of badly scaled coefficients is not this property's business
        return case

    def gen_sm(self, rng, tier):
        disc = rng.random() < 0.35
        num, den = self.rnd_loop(rng, disc, 5 if tier == "quick" else 6)
        dt = self.rnd_dt(rng) if disc else "C"
        if disc and rng.random() < 0.04:    # tiny gain: the numerical-inaccuracy fallback decision
            num = [tok(Fraction(x) / 16384) for x in num]
        api = rng.choice(["stability_margins"] * 6 + ["margin", "pcf"])
        case = {"kind": "sm", "num": num, "den": den, "dt": dt,
                "form": "ss" if rng.random() < 0.2 else "tf",
                "api": api,
                "returnall": bool(rng.random() < 0.6) if api == "stability_margins" else False,
                "epsw": "0" if disc or api != "stability_margins" or rng.random() < 0.75
                        else rng.choice(["1/2", "2", "1/8"]),
                "method": rng.choice(["best", "best", "poly"]) if api == "stability_margins" else "best"}
        if case["form"] == "ss" and len(num) >= len(den) + 1:
            case["form"] = "tf"
        return self.add_wscale(rng, case, 0.3)

    def gen_bw(self, rng, tier):
        disc = rng.random() < 0.35
        num, den = self.rnd_loop(rng, disc, 4)
        dt = self.rnd_dt(rng) if disc else "C"
        return self.add_wscale(rng, {"kind": "bw", "num": num, "den": den, "dt": dt,
                                     "form": "ss" if rng.random() < 0.2 else "tf",
                                     "via": rng.choice(["method", "func"]),
                                     "dbdrop": rng.choice(["-3", "-3", "-3", "-6", "-1/2", "-20", "0", "3"])}, 0.2)

    def gen_fr(self, rng, tier):
        """sampled-data route with a HISTORY: Bode data (mag, phase in degrees, omega) / an FRD object of a
        continuous-time loop on a logarithmic grid, kept by the caller and used for 1-3 successive calls"""
        num, den = ["4"], ["1", "3", "3", "1"]
        for _ in range(20):
            cn, cd = self.rnd_loop(rng, False, 4)
            if fr_loop_ok([Fraction(x) for x in cn], [Fraction(x) for x in cd]):
                num, den = cn, cd
                break
        r = rng.random()
        source = "bode3" if r < 0.7 else ("frdobj" if r < 0.82 else ("frdobj-smooth" if r < 0.94 else "lti-frd"))
        case = {"kind": "fr", "num": num, "den": den, "dt": "C", "source": source,
                "grid": [rng.choice([-2, -2, -1]), rng.choice([2, 2, 3]), rng.choice([400, 500, 600, 800])],
                "unwrap": bool(rng.random() < 0.7)}
        ncalls = rng.choice([1, 2, 2, 2, 3])
        calls = []
        for _ in range(ncalls):
            if source == "bode3":
                api = rng.choice(["margin", "stability_margins", "stability_margins"])
                pack = rng.choice(["args", "tuple"]) if api == "margin" else rng.choice(["tuple", "tuple", "list"])
            else:
                api = rng.choice(["margin", "stability_margins", "stability_margins"])
                pack = "obj"
            if source == "lti-frd":
                api = "stability_margins"
            calls.append([api, bool(api == "stability_margins" and rng.random() < 0.6), pack])
        case["calls"] = calls
        if source == "bode3":
            case["store"] = rng.choice(FR_STORES)
        elif source == "lti-frd":
            case["store"] = rng.choice(["tf", "tf", "ss"])
            if len(num) >= len(den) + 1:
                case["store"] = "tf"
        else:
            case["store"] = rng.choice(["kept", "kept", "kept", "fresh"])
        return case

    def gen_fd(self, rng, tier):
        """DISCRETE-time loops that stability_margins samples itself (its default frequency range cut at the
        Nyquist frequency): explicit method='frd' on ordinary discrete loops (crossings anywhere in (0, pi/dt)), and
        the automatic fall-back of the default method for fast-sampled slow dynamics (poles 1 - 2^-k, sample delays,
        discrete integrators, numerator gain 2^-j: `_likely_numerical_inaccuracy` fires), stability_margins and
        margin, TF and SS form, 1-2 calls on the same system object"""
        num, den, source = ["1/512"], ["1", "-1023/1024", "0"], "lti-best"
        for _ in range(40):
            if rng.random() < 0.5:
                d = [F1]
                ks = [rng.choice([5, 6, 7, 8, 9, 10, 11, 12]) for _ in range(rng.choice([1, 1, 2]))]
                for k in ks:
                    d = exact.pmul(d, [F1, Fraction(1, 2 ** k) - 1])
                for _ in range(rng.choice([0, 1, 1, 1, 2, 3])):
                    d = exact.pmul(d, [F1, F0])                      # samples of delay
                if rng.random() < 0.25:
                    d = exact.pmul(d, [F1, -F1])                     # discrete integrator
                if rng.random() < 0.3 and len(d) <= 4:
                    d = exact.pmul(d, self.rnd_factor_d(rng))
                n_ = [F1]
                if rng.random() < 0.35 and len(d) >= 3:
                    n_ = [F1, Fraction(rng.choice([-3, -2, -1, 0, 1, 2, 3]), 4)]
                g = Fraction(rng.choice([1, 1, 2, 3, 5, 10]), 2 ** (min(ks) + rng.choice([-2, -1, 0, 1, 2, 3, 4])))
                if rng.random() < 0.2:
                    g = -g
                cn, cd, src = [g * c for c in n_], d, ("lti-best" if rng.random() < 0.7 else "lti-frd")
            else:
                tn, td = self.rnd_loop(rng, True, 4)
                cn, cd, src = [Fraction(x) for x in tn], [Fraction(x) for x in td], "lti-frd"
            if not fr_loop_ok_d(cn, cd):
                continue
            fires, dist = fr_likely(cn, cd)
            if src == "lti-best" and not (fires and dist < 0.25):
                src = "lti-frd"
            num, den, source = [tok(c) for c in cn], [tok(c) for c in cd], src
            break
        dt = rng.choice(["D1/1000", "D1/1024", "D1/100", "D1/64", "T", "D1/2", exact.dt_tok(0.1), "D2", "D5/2",
                         "D10", "D64"])
        calls = []
        for _ in range(rng.choice([1, 1, 2])):
            api = "margin" if source == "lti-best" and rng.random() < 0.2 else "stability_margins"
            calls.append([api, bool(api == "stability_margins" and rng.random() < 0.6), "obj"])
        store = "ss" if rng.random() < 0.15 and len(num) < len(den) else "tf"
        return {"kind": "fr", "num": num, "den": den, "dt": dt, "source": source, "store": store, "calls": calls}

    def generate(self, rng, tier):
        n = 1000 if tier == "quick" else 15000
        out = []
        for i in range(n):
            if i % 5 == 4:
                out.append(self.gen_bw(rng, tier))
            else:
                out.append(self.gen_sm(rng, tier))
        # histories of calls: drawn after the single-call stream (which is unchanged for a given seed)
        for i in range(n // 16):
            out.append(self.gen_fr(rng, tier))
        for i in range(n // 25):
            c = self.gen_sm(rng, tier)
            c["repeat"] = rng.choice([2, 2, 3])       # the same call again on the same system object
            out.append(c)
        # discrete-time loops on the sampled route (drawn last: the streams above are unchanged for a given seed)
        for i in range(n // 20):
            out.append(self.gen_fd(rng, tier))
        return out

    def corpus(self):
        sm = lambda num, den, dt="C", **kw: dict({"kind": "sm", "num": num, "den": den, "dt": dt, "form": "tf",
                                                  "api": "stability_margins", "returnall": True, "epsw": "0",
                                                  "method": "best"}, **kw)
        bw = lambda num, den, dt="C", dbdrop="-3", **kw: dict(
            {"kind": "bw", "num": num, "den": den, "dt": dt, "form": "tf", "via": "method", "dbdrop": dbdrop}, **kw)
        fr = lambda num, den, calls, **kw: dict({"kind": "fr", "num": num, "den": den, "dt": "C", "source": "bode3",
                                                 "store": "ndarray", "grid": [-2, 2, 800], "unwrap": True,
                                                 "calls": [list(c) for c in calls]}, **kw)
        return [
            bw(["-1"], ["1", "1"]),                               # negative DC gain
            bw(["1/10"], ["1", "-9/10"], "T"),                      # discrete time
            bw(["1"], ["1", "-1/2"], exact.dt_tok(0.1)),
            bw(["1"], ["1", "1"]),
            bw(["1"], ["1", "0"]),                                # integrator: nan
            bw(["1", "0"], ["1", "1"]),                           # zero DC gain: inf
            sm(["1"], ["1", "2", "1", "0"]),
            sm(["1"], ["1", "2", "1", "0"], returnall=False),
            sm(["-1"], ["1", "1", "0"]),                          # negative gain, pole at the origin
            sm(["-1"], ["1", "1", "0"], returnall=False),
            sm(["1/2"], ["1", "3", "3", "1"], api="margin", returnall=False),
            sm(["1"], ["1", "2", "3", "4"], api="pcf", returnall=False),
            sm(["1/2", "1/4"], ["1", "-3/2", "1/2"], "T"),
            sm(["1/2", "1/4"], ["1", "-3/2", "1/2"], "T", returnall=False),
            sm(["1", "0", "0"], ["1", "1/2"], "T"),               # non-proper discrete: raises
            sm(["1/8", "-5/32", "3/64"], ["1", "-1/4", "-1/4", "-1/2"], "T", returnall=False, method="poly"),
            # sampling period > 1: the closest approach to -1 lies at w*dt > pi/dt (C12-m4)
            sm(["5"], ["1", "0"], "D2", returnall=False, method="poly"),
            sm(["1/2"], ["1", "5/4", "13/16"], "D2", returnall=False, method="poly"),
            sm(["1/2"], ["1", "5/4", "13/16"], "D64", method="poly"),
            sm(["1/2"], ["1", "5/4", "13/16"], "D1/1024", returnall=False, form="ss"),
            # discrete stability margin that is not the minimum of |1+L| (known finding), and a missing one
            sm(["-3", "-3"], ["1", "-1/4", "-3/4"], "T", returnall=False, method="poly"),
            sm(["-10", "-5", "35/4", "25/4"], ["1", "1/2", "-9/16", "-21/32", "-9/32"], "T"),
            sm(["2", "2"], ["1", "3/2", "13/16", "1/8"], "T", returnall=False, method="poly"),   # local minimum
            # time-scaled loops L0(s/a): crossover frequencies around 1e-9 / 1e9 rad per time unit (C12-m5)
            sm(["1"], ["1", "2", "3"], wscale=-30, norm="const"),
            sm(["1"], ["1", "2", "1", "0"], wscale=-30, norm="monic"),
            sm(["1"], ["1", "2", "1", "0"], wscale=-34, norm="monic", returnall=False),
            sm(["10", "1", "10"], ["1", "1", "4", "2", "0"], wscale=-30, norm="monic"),
            sm(["10", "1", "10"], ["1", "1", "4", "2", "0"], wscale=30, norm="const", returnall=False, epsw="1/2"),
            sm(["1"], ["1", "2", "3", "4"], wscale=-30, norm="monic", api="pcf", returnall=False),
            sm(["1/2"], ["1", "3", "3", "1"], wscale=-40, norm="const", api="margin", returnall=False),
            bw(["1"], ["1", "1"], wscale=30, norm="monic"),
            bw(["1"], ["1", "1"], wscale=-10, norm="monic"),
            bw(["1"], ["1", "1"], wscale=-24, norm="monic"),      # absolute xtol of the bisection (known finding)
            bw(["1"], ["1", "1"], wscale=-30, norm="monic"),      # grid starts above the bandwidth (known finding)
            # histories on Bode data / FRD objects the caller keeps (C12-m6): second and third call on the same arrays
            fr(["4"], ["1", "3", "3", "1"], [["margin", False, "args"], ["stability_margins", True, "tuple"],
                                              ["stability_margins", False, "tuple"]]),
            fr(["4"], ["1", "3", "3", "1"], [["stability_margins", True, "tuple"], ["stability_margins", True, "list"]],
               store="rows2d", unwrap=False),
            fr(["1"], ["1", "2", "1", "0"], [["stability_margins", False, "tuple"], ["margin", False, "tuple"]],
               store="view", grid=[-3, 3, 1200]),
            fr(["10", "1", "10"], ["1", "1", "4", "2", "0"], [["stability_margins", True, "tuple"]] * 2,
               store="readonly", grid=[-2, 2, 1200]),
            fr(["4"], ["1", "3", "3", "1"], [["stability_margins", False, "list"]], store="lists"),
            fr(["4"], ["1", "3", "3", "1"], [["stability_margins", True, "obj"], ["margin", False, "obj"]],
               source="frdobj", store="kept"),
            fr(["1"], ["1", "2", "1", "0"], [["margin", False, "obj"], ["stability_margins", True, "obj"]],
               source="frdobj-smooth", store="kept"),
            fr(["4"], ["1", "3", "3", "1"], [["stability_margins", False, "obj"]], source="lti-frd", store="tf"),
            # discrete-time loops sampled by stability_margins itself (C12-m8): fast-sampled first-order plant with one
            # sample of delay (fall-back of the default method; phase crossover at w dt = pi/3), explicit method='frd'
            fr(["1/128"], ["1", "-1023/1024", "0"], [["stability_margins", True, "obj"]], dt="D1/1000",
               source="lti-best", store="tf", grid=None),
            fr(["1/128"], ["1", "-1023/1024", "0"], [["stability_margins", False, "obj"], ["margin", False, "obj"]],
               dt="D1/1000", source="lti-best", store="tf", grid=None),
            fr(["1/2", "1/4"], ["1", "-3/2", "1/2"], [["stability_margins", True, "obj"]], dt="T", source="lti-frd",
               store="tf", grid=None),
            fr(["1/2"], ["1", "-1/2", "0", "0"], [["stability_margins", True, "obj"]] * 2, dt="D64", source="lti-frd",
               store="ss", grid=None),
            # the unbounded minimize_scalar of the sampled route walks out of the band (known finding)
            fr(["-1/2"], ["1", "1/4", "2", "-1/16", "15/16"], [["stability_margins", False, "obj"]], dt="T",
               source="lti-frd", store="tf", grid=None),
            sm(["1"], ["1", "2", "1", "0"], repeat=3),
            sm(["1/2", "1/4"], ["1", "-3/2", "1/2"], "T", returnall=False, repeat=2),
            sm(["1"], ["1", "2", "1", "0"], form="ss", api="margin", returnall=False, repeat=2),
        ]

    # ---- execution ------------------------------------------------------------------------------
    def _run(self, case):
        key = exact_key(case)
        if key in self._cache:
            return self._cache[key]
        if case["kind"] == "fr":
            res = self._run_fr(case)
        else:
            res = self._run_sm(case) if case["kind"] == "sm" else self._run_bw(case)
        if len(self._cache) > 200000:
            self._cache.clear()
        self._cache[key] = res
        return res

    def _call_sm(self, case, sys):
        with contextlib.redirect_stdout(io.StringIO()), warnings.catch_warnings():
            warnings.simplefilter("ignore")
            try:
                if case["api"] == "stability_margins":
                    r = ct.stability_margins(sys, returnall=case["returnall"],
                                             epsw=float(eff_epsw(case)), method=case["method"])
                    return canon_result(("gm", "pm", "sm", "wpc", "wgc", "wms"), r, case["returnall"])
                if case["api"] == "margin":
                    return canon_result(("gm", "pm", "wpc", "wgc"), ct.margin(sys), False)
                om, g = ct.phase_crossover_frequencies(sys)
                return {"ok": {"omega": [fl(x) for x in om], "gains": [fl(x) for x in g]}}
            except Exception as e:  # noqa
                return {"err": classify_exc(e), "exc": "%s: %s" % (type(e).__name__, str(e)[:200])}

    def _run_sm(self, case):
        info = {}
        try:
            sys = build(case)
            num, den = tf_coeffs(sys)
        except Exception as e:  # construction failed: nothing to compare
            return {"impl": {"err": "build", "exc": "%s: %s" % (type(e).__name__, str(e)[:200])},
                    "line": "mg smc 1 1 1 1 0 0 0 0", "info": {"build_failed": True}}
        disc = case["dt"] != "C"
        rec = Recorder()
        impl = None
        with rec:
            try:
                if case["api"] == "stability_margins":
                    r = ct.stability_margins(sys, returnall=case["returnall"],
                                             epsw=float(eff_epsw(case)), method=case["method"])
                    keys = ("gm", "pm", "sm", "wpc", "wgc", "wms")
                    if case["returnall"]:
                        impl = {"ok": {k: [fl(x) for x in np.atleast_1d(v)] for k, v in zip(keys, r)}}
                    else:
                        impl = {"ok": {k: fl(v) for k, v in zip(keys, r)}}
                elif case["api"] == "margin":
                    r = ct.margin(sys)
                    impl = {"ok": {k: fl(v) for k, v in zip(("gm", "pm", "wpc", "wgc"), r)}}
                else:
                    om, g = ct.phase_crossover_frequencies(sys)
                    impl = {"ok": {"omega": [fl(x) for x in om], "gains": [fl(x) for x in g]}}
            except Exception as e:  # noqa
                impl = {"err": classify_exc(e), "exc": "%s: %s" % (type(e).__name__, str(e)[:200])}
        info["fallback_warned"] = rec.warned_fallback
        if case.get("repeat"):
            # history: the same call again on the same system object (outside the recorder)
            info["later"] = [self._call_sm(case, sys) for _ in range(int(case["repeat"]) - 1)]
            try:
                num2, den2 = tf_coeffs(sys)
                info["sys_modified"] = (num2, den2) != (num, den)
            except Exception:  # noqa
                info["sys_modified"] = True
        info["num"], info["den"] = [tok(c) for c in num], [tok(c) for c in den]
        # test polynomials: exact oracle vs what was handed to numpy.roots
        polys = oracle_polys_d(num, den) if disc and len(num) <= len(den) else \
            (oracle_polys_c(num, den) if not disc else {})
        names = {"real": "_poly_z_real_crossing" if disc else "_poly_iw_real_crossing",
                 "mag1": "_poly_z_mag1_crossing" if disc else "_poly_iw_mag1_crossing",
                 "wstab": "_poly_iw_wstab"}
        roots_for, polycmp = {}, {}
        # regime E needs every product / sum of margins.py to be exact in binary64: judged by the widest binary
        # mantissa among the exact test polynomials (the exponent does not matter: time-scaled loops are exact)
        bits = max([mant_bits(c) for p in polys.values() for c in p] + [1])
        info["bits"] = bits
        for which, want in polys.items():
            got = rec.roots.get(names[which])
            if got is None:
                polycmp[which] = "not-called"
                roots_for[which] = _ORIG_ROOTS([float(c) for c in want])
                continue
            p_impl = [fr(c) for c in np.real(got[0])]
            a, b = strip_lead(p_impl), strip_lead(want)
            if a == b:
                polycmp[which] = "equal" if p_impl == want else "equal-mod-leading-zeros"
                roots_for[which] = got[1]
            else:
                scale = max([abs(c) for c in b] + [F1])
                if bits > 50 and len(a) == len(b) and all(abs(x - y) <= Fraction(1, 10 ** 9) * scale
                                                          for x, y in zip(a, b)):
                    polycmp[which] = "close"
                    roots_for[which] = got[1]
                else:
                    polycmp[which] = "DIFFERENT"
                    info.setdefault("poly_detail", {})[which] = {
                        "impl": [tok(c) for c in p_impl], "exact": [tok(c) for c in want]}
                    roots_for[which] = _ORIG_ROOTS([float(c) for c in want])
        info["polycmp"] = polycmp
        # residual of the recorded roots on the exact polynomial (validation of the contract)
        worst = 0.0
        for which, want in polys.items():
            for z in np.atleast_1d(roots_for[which]):
                zz = (fr(z.real), fr(z.imag))
                vr, vi = ceval(want, zz)
                sc = abs_eval_exact(want, fr(abs(z)))
                if sc > 0:
                    worst = max(worst, ratio(max(abs(vr), abs(vi)), sc))
        info["roots_rel_residual"] = worst
        # completeness of the root finder (its contract): exact Sturm count of the distinct real
        # roots of the test polynomial in [epsw, oo) / (epsw, oo) vs the recorded real roots there
        if not disc and bits <= 50:
            ew = eff_epsw(case)
            unit = unit_of(case)
            sturm = {}
            for which, want in polys.items():
                if len(strip_lead(want)) > 26:
                    continue
                closed = which == "real"
                rr = sorted(float(z.real) for z in np.atleast_1d(roots_for[which]) if z.imag == 0
                            and (z.real >= float(ew) if closed else z.real > float(ew)))
                distinct = sum(1 for i, x in enumerate(rr) if i == 0 or abs(x - rr[i - 1]) > 1e-6 * max(unit, abs(x)))
                if sturm_count_from(want, ew, closed) == distinct:
                    sturm[which] = "match"
                elif len(p_gcd(want, np_der(want))) > 1:
                    sturm[which] = "mismatch-multiple-root(not-simple)"
                else:
                    sturm[which] = "MISMATCH"
            info["sturm"] = sturm
        if disc:
            zstab, wdt_stab = [], []
            if rec.minimize is not None:
                if rec.minimize[0]:
                    wdt_stab = [float(x) for x in rec.minimize[1]]
                info["sm_search"] = {"x0": rec.minimize_x0, "bounds": rec.minimize_bounds,
                                     "x": [float(x) for x in rec.minimize[1]], "success": rec.minimize[0]}
            elif impl is not None and "ok" in impl and case["api"] == "stability_margins":
                # the minimiser of |1+L| was not obtained from scipy.optimize.minimize: take the reported frequency
                wl = impl["ok"]["wms"] if case["returnall"] else [impl["ok"]["wms"]]
                wdt_stab = [unfl(x) * float(sys.dt) for x in wl if math.isfinite(unfl(x))]
                info["sm_search"] = None
            zstab = list(np.exp(1J * np.array(wdt_stab))) if wdt_stab else []
            info["minimize"] = None if rec.minimize is None else rec.minimize[0]
            info["zstab"] = [[fl(z.real), fl(z.imag)] for z in zstab]
            info["wdt_stab"] = wdt_stab
            # candidates for the minimality check of the discrete stability margin (points exactly on |z| = 1)
            wit = []
            if polys and case["api"] == "stability_margins":
                try:
                    wit = [circle_point(t) for t in sm_witness_angles(num, den)]
                except Exception:  # noqa
                    wit = []
            info["n_witness"] = len(wit)
            line = "mg smd %s %s %s %s %s %s %s %d%s" % (
                toks(num), toks(den), toks([fr(e) for e in EPS_TABLE]), tok(TOL2),
                ctoks(roots_for.get("real", [])), ctoks(roots_for.get("mag1", [])), ctoks(zstab),
                len(wit), "".join(" %s %s" % (tok(a), tok(b)) for a, b in wit))
        else:
            line = "mg smc %s %s %s %s %s %s" % (
                toks(num), toks(den), tok(eff_epsw(case)),
                ctoks(roots_for["real"]), ctoks(roots_for["mag1"]), ctoks(roots_for["wstab"]))
        info["oracle_polys"] = {k: [tok(c) for c in v] for k, v in polys.items()}
        return {"impl": impl, "line": line, "info": info}

    def _run_fr(self, case):
        """sampled-data route: a history of calls on Bode data / an FRD object of a continuous-time loop, or on a
        discrete-time system that stability_margins samples itself (method='frd', fall-back of method='best')"""
        info = {}
        disc = fr_disc(case)
        try:
            if disc:
                _, num, den = fr_lti_tf(case)
            else:
                num, den = case_coeffs(case)
            om, resp, mag, ph, edge = fr_data(case)
        except Exception as e:  # noqa  construction failed: nothing to compare
            return {"impl": {"err": "build", "exc": "%s: %s" % (type(e).__name__, str(e)[:200])},
                    "line": ["mg smc 1 1 1 1 0 0 0 0", "mg frd 0"], "info": {"build_failed": True}}
        if not (np.all(np.isfinite(resp)) and np.all(np.isfinite(ph))) or (disc and len(num) > len(den)):
            return {"impl": {"err": "build", "exc": "non-finite data"},
                    "line": ["mg smc 1 1 1 1 0 0 0 0", "mg frd 0"], "info": {"build_failed": True,
                                                                             "data_nonfinite": disc}}
        results, modified = fr_history(case, om, resp, mag, ph)
        last = len(results) - 1
        impl = {"calls": results, "modified": modified,
                "fresh_last": results[last] if len(results) == 1 and case["store"] in ("fresh", "lists") else
                fr_history(case, om, resp, mag, ph, only_fresh=last)}
        info["fresh"] = lambda k: impl["fresh_last"] if k == last else \
            fr_history(case, om, resp, mag, ph, only_fresh=k)
        info["om"], info["resp"], info["nyquist_edge"] = om, resp, edge
        info["num"], info["den"] = [tok(c) for c in num], [tok(c) for c in den]
        polys = oracle_polys_d(num, den) if disc else oracle_polys_c(num, den)
        info["bits"] = max([mant_bits(c) for p in polys.values() for c in p] + [1])
        roots_for = {k: _ORIG_ROOTS([float(c) for c in v]) for k, v in polys.items()}
        worst = 0.0
        for which, want in polys.items():
            for z in np.atleast_1d(roots_for[which]):
                zz = (fr(z.real), fr(z.imag))
                vr, vi = ceval(want, zz)
                sc = abs_eval_exact(want, fr(abs(z)))
                if sc > 0:
                    worst = max(worst, ratio(max(abs(vr), abs(vi)), sc))
        info["roots_rel_residual"] = worst
        info["oracle_polys"] = {k: [tok(c) for c in v] for k, v in polys.items()}
        info["interp"] = fr_interp_error(case, om, resp, (num, den))
        if disc:
            # the local minima of |1+L| on the half circle (unverified search; the model evaluates the loop there)
            try:
                ang = sorted(sm_witness_angles(num, den, nmax=12))
            except Exception:  # noqa
                ang = []
            info["stab_angles"] = ang
            zst = [circle_point(t) for t in ang]
            line0 = "mg smd %s %s %s %s %s %s %d%s 0" % (
                toks(num), toks(den), toks([fr(e) for e in EPS_TABLE]), tok(TOL2),
                ctoks(roots_for["real"]), ctoks(roots_for["mag1"]),
                len(zst), "".join(" %s %s" % (tok(a), tok(b)) for a, b in zst))
        else:
            line0 = "mg smc %s %s 0 %s %s %s" % (toks(num), toks(den), ctoks(roots_for["real"]),
                                                 ctoks(roots_for["mag1"]), ctoks(roots_for["wstab"]))
        return {"impl": impl, "line": [line0, "mg frd " + ctoks(resp)], "info": info}

    def _run_bw(self, case):
        info = {}
        try:
            sys = build(case)
            num, den = tf_coeffs(sys)
        except Exception as e:
            return {"impl": {"err": "build", "exc": "%s: %s" % (type(e).__name__, str(e)[:200])},
                    "line": "mg bw 1 1 1 1 0 -3 1 0 0", "info": {"build_failed": True}}
        disc = case["dt"] != "C"
        dbdrop = float(Fraction(case["dbdrop"]))
        rec = Recorder()
        with rec:
            try:
                v = sys.bandwidth(dbdrop) if case["via"] == "method" else ct.bandwidth(sys, dbdrop)
                impl = {"ok": fl(v)}
            except Exception as e:  # noqa
                impl = {"err": classify_exc(e), "exc": "%s: %s" % (type(e).__name__, str(e)[:200])}
        with warnings.catch_warnings():
            warnings.simplefilter("ignore")
            omega = np.sort(np.array(freqplot._default_frequency_range(sys), ndmin=1))
            if disc:
                dtv = sys.dt
                pts = np.exp(1j * omega * dtv)
            else:
                pts = 1j * omega
        if not (np.all(np.isfinite(omega)) and np.all(np.isfinite(pts))):
            # the frequency grid (a parameter of the model) contains nan / inf: nothing to compare with
            return {"impl": impl, "line": "mg bw 1 1 1 1 0 -3 1 0 0", "info": {"grid_nonfinite": True}}
        rootpt = []
        if "ok" in impl and math.isfinite(float(impl["ok"])):
            w = float(impl["ok"])
            rootpt = [np.exp(1j * w * sys.dt) if disc else 1j * w]
        info["omega"] = omega
        info["root_scalar"] = rec.root_scalar
        info["num"], info["den"] = [tok(c) for c in num], [tok(c) for c in den]
        thr = 10 ** (dbdrop / 20)
        line = "mg bw %s %s %s %s %s %s %s" % (
            toks(num), toks(den), "1" if disc else "0", case["dbdrop"], tok(fr(thr)),
            ctoks(pts), ctoks(rootpt))
        return {"impl": impl, "line": line, "info": info}

    def line(self, case):
        return self._run(case)["line"]

    def impl(self, case):
        return self._run(case)["impl"]

    # ---- model output -----------------------------------------------------------------------------
    def parse_model(self, case, out):
        if case["kind"] == "fr":
            if self._run(case)["info"].get("build_failed"):      # placeholder line (continuous form)
                return self.parse_model(dict(case, kind="sm", dt="C"), out[0])
            exact_m = self.parse_model(dict(case, kind="sm"), out[0])
            tk = Tokens(out[1])
            assert tk.next() == "ok" and tk.next() == "Z"
            m = {"Z": tk.nat() == 1}
            for key in ("P", "G", "S"):
                assert tk.next() == key
                m[key] = [tk.nat() for _ in range(tk.nat())]
            assert tk.done()
            if "ok" not in exact_m:
                return exact_m
            return {"ok": dict(exact_m["ok"], brackets=m)}
        if out.startswith("err "):
            return {"err": out.split()[1]}
        tk = Tokens(out)
        assert tk.next() == "ok"
        if case["kind"] == "bw":
            kind = tk.next()
            if kind == "nan":
                return {"ok": {"kind": "nan"}}
            m = {"kind": kind}
            if kind == "bracket":
                m["k"] = tk.nat()
            assert tk.next() == "dc"
            m["dc"] = tk.next()
            assert tk.next() == "T2"
            m["T2"] = tk.next()
            assert tk.next() == "gap"
            m["gap"] = tk.next()
            assert tk.next() == "R"
            n = tk.nat()
            m["atroot"] = [tk.next() for _ in range(n)]
            return {"ok": m}
        disc = case["dt"] != "C"

        def opt():
            if tk.nat() == 1:
                return [tk.next(), tk.next()]
            return None

        def pt():
            return [tk.next(), tk.next()] if disc else tk.next()
        m = {}
        assert tk.next() == "P"
        if disc:
            m["polys"] = {"real": [tok(x) for x in tk.rats()]}
            m["len180"] = tk.nat()
            m["polys"]["mag1"] = [tok(x) for x in tk.rats()]
            m["len1"] = tk.nat()
            assert tk.next() == "F"
            m["fallback"] = tk.nat() == 1
            m["n1sq"], m["n2sq"] = tk.next(), tk.next()
        else:
            m["polys"] = {"real": [tok(x) for x in tk.rats()], "mag1": [tok(x) for x in tk.rats()],
                          "wstab": [tok(x) for x in tk.rats()]}
        assert tk.next() == "X"
        m["X"] = [[pt(), opt()] for _ in range(tk.nat())]
        assert tk.next() == "A"
        m["A"] = [[pt(), [tk.next(), tk.next()]] for _ in range(tk.nat())]
        assert tk.next() == "B"
        m["B"] = [[pt(), opt()] for _ in range(tk.nat())]
        assert tk.next() == "S"
        m["S"] = [[pt(), opt()] for _ in range(tk.nat())]
        if disc:
            assert tk.next() == "M"
            m["M"] = [[tk.next(), tk.next()], [tk.next(), tk.next()]] if tk.nat() == 1 else None
            assert tk.next() == "R"
            m["R"] = [tk.nat() == 1 for _ in range(tk.nat())]
        if not disc:
            assert tk.next() == "D"
            m["D"] = [[tk.next(), tk.next()] for _ in range(tk.nat())]
        assert tk.next() == "I"
        m["idx"] = [int(tk.next()), int(tk.next()), int(tk.next())]
        assert tk.done()
        return {"ok": m}

    # ---- comparison ---------------------------------------------------------------------------------
    def feat(self, case, kind, **kw):
        f = {"kind": kind, "call": case["kind"] if case["kind"] == "bw" else case["api"],
             "time": "continuous" if case["dt"] == "C" else "discrete"}
        if case.get("wscale") is not None:     # time unit of the loop: dynamics around 2^wscale rad per unit
            f["timescale"] = "slow" if int(case["wscale"]) < 0 else "fast"
        f.update(kw)
        return f

    def compare(self, case, impl, model):
        run = self._run(case)
        info = run["info"]
        if info.get("data_nonfinite"):
            # harness-side: the binary64 evaluation of the loop on the grid over/underflows (e.g. a multiple pole at
            # z = 1 and samples with w dt ~ 1e-9), or the system is not proper - nothing to compare on this route
            info["guard"] = "frd-data-nonfinite"
            return Verdict(AGREE, "guarded: the sampled response is not finite in binary64",
                           {"guard": "frd-data-nonfinite"})
        if info.get("build_failed"):
            return Verdict(DIFFERS, "system construction failed: " + impl.get("exc", ""),
                           self.feat(case, "build"))
        if info.get("grid_nonfinite"):
            v = Verdict(AGREE, "guarded: _default_frequency_range returned non-finite samples",
                        {"guard": "bw-grid-nonfinite"})
        elif case["kind"] == "bw":
            v = self.compare_bw(case, impl, model, info)
        elif case["kind"] == "fr":
            v = self.compare_fr(case, impl, model, info)
        else:
            v = self.compare_sm(case, impl, model, info)
            if case.get("repeat") and v.status == AGREE:
                v = self.compare_repeat(case, impl, model, info, v)
        info["guard"] = v.features.get("guard", "none") if v.status == AGREE else "n/a"
        return v

    # .... bandwidth ....
    def compare_bw(self, case, impl, model, info):
        if "err" in model:
            if "err" in impl:
                return Verdict(AGREE)
            return Verdict(VIOLATES, "bandwidth returns %s for a non-negative dbdrop" % impl["ok"],
                           self.feat(case, "bw-returns-badarg"))
        m = model["ok"]
        if case.get("form") == "ss":
            p0 = F0 if case["dt"] == "C" else F1
            if exact.pval([Fraction(x) for x in case["den"]], p0) == 0:
                return Verdict(AGREE, "guarded: state-space form with a pole at the DC point (singular solve)",
                               {"guard": "ss-singular-dc"})
        if m["kind"] == "bracket" and m["k"] == 0:
            if "err" in impl and float(Fraction(m["gap"])) >= 1e-6:
                # the grid of _default_frequency_range starts above the bandwidth (seen for dynamics slower than
                # 1e-8 rad per time unit, which the grid construction discards as 'zero'): the bracket
                # [omega[-1], omega[0]] is no bracket
                msg = impl["exc"].split(":", 1)[1].strip()[:50]
                return Verdict(VIOLATES, "bandwidth raises %s: the first sample of the frequency grid (w = %r) is "
                               "already below |dc|*10^(dbdrop/20), dc gain %s" % (
                                   impl["exc"], float(info["omega"][0]), float(Fraction(m["dc"]))),
                               self.feat(case, "bw-raises", exc=impl["exc"].split(":")[0], msg=msg,
                                         grid="first-sample-below-threshold"))
            return Verdict(AGREE, "guarded: first grid sample already below the threshold", {"guard": "bw-k0"})
        if "err" in impl:
            msg = impl["exc"].split(":", 1)[1].strip()[:50]
            return Verdict(VIOLATES, "bandwidth raises %s; model: %s" % (impl["exc"], m["kind"]),
                           self.feat(case, "bw-raises", exc=impl["exc"].split(":")[0], msg=msg))
        v = float(impl["ok"])
        if m["kind"] == "nan":
            if math.isnan(v):
                return Verdict(AGREE)
            return Verdict(VIOLATES, "infinite DC gain: expected nan, got %r" % v, self.feat(case, "bw-nan"))
        dc = Fraction(m["dc"])
        gap = float(Fraction(m["gap"]))
        if gap < 1e-6:
            return Verdict(AGREE, "guarded: a sampled gain is within 1e-6 of the threshold", {"guard": "bw-gap"})
        dcneg = dc < 0
        if m["kind"] == "inf":
            if math.isinf(v) and v > 0:
                return Verdict(AGREE)
            return Verdict(VIOLATES, "gain never drops below the threshold on the grid: expected inf, got %r" % v,
                           self.feat(case, "bw-expected-inf", dc_negative=dcneg))
        k = m["k"]
        if k == 0:
            return Verdict(AGREE, "guarded: first grid sample already below the threshold", {"guard": "bw-k0"})
        om = info["omega"]
        lo, hi = float(om[k - 1]), float(om[k])
        if math.isinf(v) or math.isnan(v):
            return Verdict(VIOLATES, "gain drops below |dc|*10^(dbdrop/20) between w=%r and %r but bandwidth "
                           "returned %r (dc gain %s)" % (lo, hi, v, float(dc)),
                           self.feat(case, "bw-returns-" + fl(v), dc_negative=dcneg))
        if not (lo * (1 - 1e-12) <= v <= hi * (1 + 1e-12)):
            return Verdict(VIOLATES, "bandwidth %r is not in the first bracket [%r, %r] where the gain drops"
                           % (v, lo, hi), self.feat(case, "bw-bracket", dc_negative=dcneg))
        t2 = float(Fraction(m["T2"]))
        at = m["atroot"]
        if len(at) != 1 or at[0] == "nan":
            return Verdict(DIFFERS, "no gain at the returned frequency", self.feat(case, "bw-harness"))
        g2 = float(Fraction(at[0]))
        if abs(math.sqrt(g2) - math.sqrt(t2)) > 1e-6 * math.sqrt(t2):
            return Verdict(VIOLATES, "|L| at the returned bandwidth %r is %r, expected |dc|*10^(dbdrop/20) = %r"
                           % (v, math.sqrt(g2), math.sqrt(t2)),
                           self.feat(case, "bw-residual", dc_negative=dcneg))
        rs = info.get("root_scalar")
        if rs is not None and rs[0] and not (abs(rs[0][0] - lo) <= 1e-12 * lo and abs(rs[0][1] - hi) <= 1e-12 * hi):
            return Verdict(DIFFERS, "bracket given to root_scalar %r differs from [%r, %r]" % (rs[0], lo, hi),
                           self.feat(case, "bw-bracket-arg"))
        return Verdict(AGREE)

    # .... histories ....
    def compare_repeat(self, case, impl, model, info, v0):
        """the same call again on the same system object: every later result must satisfy the property too"""
        for k, later in enumerate(info.get("later", [])):
            if later == impl:
                continue
            v = self.compare_sm(case, later, model, info)
            if v.status == VIOLATES:
                f = dict(v.features, history="later-call")
                return Verdict(VIOLATES, "call %d on the same system object: %s (the first call returned %r)"
                               % (k + 2, v.detail, impl), f)
            if not results_close(later, impl, 1e-9):
                return Verdict(DIFFERS, "call %d on the same system object returns %r, the first call %r"
                               % (k + 2, later, impl), self.feat(case, "history-dependent-result"))
        if info.get("sys_modified"):
            return Verdict(DIFFERS, "the coefficients of the system object changed during the call",
                           self.feat(case, "system-object-modified"))
        return v0

    def feat_fr(self, case, kind, call, **kw):
        f = {"kind": kind, "call": call, "time": "discrete" if fr_disc(case) else "continuous",
             "source": case["source"], "store": case["store"]}
        f.update(kw)
        return f

    def fr_parts(self, case, m, info):
        """what can be compared for this case: per kind of crossing (P phase, G gain, S stability) the exact
        crossings of the loop inside the grid, or the reason why that part is guarded"""
        om, resp = info["om"], info["resp"]
        br = m["brackets"]
        n = len(om)
        a2 = resp.real ** 2 + resp.imag ** 2
        d2 = (resp.real + 1.0) ** 2 + resp.imag ** 2
        out = {}

        disc = fr_disc(case)
        dtv = float(dt_value(case["dt"])) if disc else 0.0

        def exact_list(lst):
            res = []
            for c in lst:
                if disc:      # a point of the unit circle: w = angle / dt
                    w = math.atan2(float(Fraction(c[0][1])), float(Fraction(c[0][0]))) / dtv
                else:
                    w = float(Fraction(c[0]))
                r = None if c[1] is None else (Fraction(c[1][0]), Fraction(c[1][1]))
                res.append((w, r))
            return sorted(res, key=lambda t: t[0])

        nf = np.array([float(Fraction(c)) for c in info["num"]])
        df = np.array([float(Fraction(c)) for c in info["den"]])

        def shallow(w, which):
            """the Nyquist curve cuts the real axis (P) / the unit circle (G) at a shallow angle at w: the
            position of the crossing is ill-conditioned with respect to the interpolation error"""
            z = np.exp(1j * w * dtv) if disc else 1j * w
            n0, d0 = np.polyval(nf, z), np.polyval(df, z)
            n1, d1 = np.polyval(np.polyder(nf), z), np.polyval(np.polyder(df), z)
            L, dL = n0 / d0, (1j * dtv * z if disc else 1j) * (n1 * d0 - n0 * d1) / (d0 * d0)
            if dL == 0:
                return True
            if which == "P":
                return abs(dL.imag) < FR_SHALLOW * abs(dL)
            return abs((dL * L.conjugate()).real) < FR_SHALLOW * abs(dL) * abs(L)

        def located(ex, idx, width, which=None):
            """exact crossings inside the grid, away from its ends, separated by >= 4 intervals, one per bracket"""
            inside = [(w, r) for (w, r) in ex if om[0] <= w <= om[-1]]
            if any(r is None for _, r in inside):
                return "response-missing"
            if which and any(shallow(w, which) for w, _ in inside):
                return "shallow-crossing"
            if any(w < om[4] or w > om[n - 5] for w, _ in inside):
                return "crossing-near-grid-end"
            step = om[1] / om[0]
            if disc and any(abs(a - b) <= 1e-9 * max(a, b) for (a, _), (b, _) in zip(inside, inside[1:])):
                # the same point of the circle twice (root of the test polynomial returned as a pair)
                return "crossings-closer-than-4-intervals"
            if any(b / a < step ** 4 for (a, _), (b, _) in zip(inside, inside[1:])):
                return "crossings-closer-than-4-intervals"
            if len(inside) != len(idx):
                return "grid-brackets-differ-from-exact-crossings"
            for (w, _), i in zip(inside, idx):
                if not (om[i] <= w <= om[min(i + width, n - 1)]):
                    return "grid-brackets-differ-from-exact-crossings"
            return inside
        # phase: signs of Im L on the data, Re L at the sign changes
        sc = np.where(np.diff(np.sign(-resp.imag)))[0]
        if br["Z"] or np.min(np.abs(resp.imag) / np.sqrt(a2)) < FR_SIGN or \
                (len(sc) and np.min(np.abs(resp.real[sc]) / np.sqrt(a2[sc])) < FR_SIGN):
            out["P"] = "sign-undecided"
        else:
            out["P"] = located(exact_list(m["A"]), br["P"], 1, "P")
        if np.min(np.abs(a2 - 1.0)) < FR_SIGN:
            out["G"] = "sign-undecided"
        else:
            out["G"] = located(exact_list(m["B"]), br["G"], 1, "G")
        dd = np.diff(d2)
        if np.min(np.abs(dd) / d2[:-1]) < FR_SLOPE:
            out["S"] = "slope-undecided"
        else:
            out["S"] = located(exact_list(m["S"]), br["S"], 2)
        return out

    def fr_check_call(self, case, call, res, parts, br, om, num, den, tol=FR_TAU):
        """None, or (kind, detail): the result of one call violates the property on the loop the data sample.
        Values are checked through the defining equations on the exact loop at the reported frequency (tolerance
        `tol`, insensitive to the slope of the curves); the default selection is checked on the exact margins of the
        crossings the reported frequency belongs to (by grid interval), with a tie window of 5 tol."""
        api, returnall, _ = call
        tol_deg = 100.0 * tol

        def which_bracket(w, idx, width):
            for j, i in enumerate(idx):
                if om[i] * (1 - 1e-9) <= w <= om[min(i + width, len(om) - 1)] * (1 + 1e-9):
                    return j
            return None
        if "err" in res:
            if case["store"] == "lists" and "Margin sysdata must be" in res.get("exc", ""):
                return None          # the code rejects sequences of Python lists (documented as array_like)
            return ("frd-raises", "raises %s" % res["exc"])
        got = res["ok"]

        disc = fr_disc(case)
        Lfloat = fr_eval(case, num, den)

        def Lat(w):
            if disc:      # z = exp(j w dt) is not rational: binary64 evaluation (tolerances are >= 1e-3)
                with np.errstate(all="ignore"):
                    v = complex(Lfloat(w))
                return v if math.isfinite(v.real) and math.isfinite(v.imag) else None
            r = resp_exact(num, den, (F0, fr(w)))
            return None if r is None else complex(float(r[0]), float(r[1]))

        def values(vk, wk):
            if returnall:
                return [unfl(x) for x in got[vk]], [unfl(x) for x in got[wk]]
            return [unfl(got[vk])], [unfl(got[wk])]
        # ---- phase crossover / gain margin
        if isinstance(parts["P"], list) and "gm" in got:
            ex = parts["P"]
            gv, gw = values("gm", "wpc")
            egm = [gm_of(r) for _, r in ex]
            if returnall:
                if len(gw) != len(br["P"]) or len(gv) != len(gw):
                    return ("frd-phase-crossing-" + ("missing" if len(gw) < len(br["P"]) else "extra"),
                            "wpc = %r: %d phase crossovers reported, the data change the sign of Im L (with Re L <= 0) on "
                            "%d grid intervals %r; crossovers of the loop: %r" % (
                                gw, len(gw), len(br["P"]), [(om[i], om[i + 1]) for i in br["P"]], [w for w, _ in ex]))
                pairs = sorted(zip(gw, gv))
                for (w, g), i in zip(pairs, br["P"]):
                    if not (om[i] * (1 - 1e-9) <= w <= om[i + 1] * (1 + 1e-9)):
                        return ("frd-phase-crossing-freq", "wpc = %r is not in the grid interval [%r, %r] where the "
                                "data cross the negative real axis" % (w, om[i], om[i + 1]))
            else:
                pairs = [(gw[0], gv[0])]
                if not ex:
                    if not (math.isinf(gv[0]) and math.isnan(gw[0])):
                        return ("frd-gm-default-spurious", "gm = %r at wpc = %r, the loop has no phase crossover on "
                                "the grid" % (gv[0], gw[0]))
                    pairs = []
                elif not math.isfinite(gv[0]) or not math.isfinite(gw[0]):
                    return ("frd-gm-default-missing", "gm = %r, wpc = %r; the loop has phase crossovers at %r with "
                            "gain margins %r" % (gv[0], gw[0], [w for w, _ in ex], egm))
                else:
                    j = which_bracket(gw[0], br["P"], 1)
                    if j is None:
                        return ("frd-gm-default-freq", "default wpc = %r is in none of the grid intervals where the "
                                "data cross the negative real axis; crossovers of the loop: %r"
                                % (gw[0], [w for w, _ in ex]))
                    keys = [abs(math.log(g)) if 0 < g < math.inf else math.inf for g in egm]
                    if keys[j] > min(keys) + 5 * tol:
                        return ("frd-gm-default-not-smallest",
                                "default gm = %r at wpc = %r; gain margins of the loop: %r at %r"
                                % (gv[0], gw[0], egm, [w for w, _ in ex]))
            for (w, g) in pairs:
                L = Lat(w)
                if L is None or not (abs(L.imag) <= tol * abs(L) and L.real < 0 and abs(g * abs(L) - 1.0) <= tol):
                    return ("frd-phase-crossing-value", "gm = %r at wpc = %r, but L(j wpc) = %r (not real negative "
                            "with |L| = 1/gm)" % (g, w, L))
        # ---- gain crossover / phase margin
        if isinstance(parts["G"], list) and "pm" in got:
            ex = parts["G"]
            pv, pw = values("pm", "wgc")
            epm = [pm_of(r) for _, r in ex]
            if returnall:
                if len(pw) != len(br["G"]) or len(pv) != len(pw):
                    return ("frd-gain-crossing-" + ("missing" if len(pw) < len(br["G"]) else "extra"),
                            "wgc = %r: %d gain crossovers reported, the data cross |L| = 1 on %d grid intervals %r; "
                            "crossovers of the loop: %r" % (
                                pw, len(pw), len(br["G"]), [(om[i], om[i + 1]) for i in br["G"]], [w for w, _ in ex]))
                pairs = sorted(zip(pw, pv))
                for (w, g), i in zip(pairs, br["G"]):
                    if not (om[i] * (1 - 1e-9) <= w <= om[i + 1] * (1 + 1e-9)):
                        return ("frd-gain-crossing-freq", "wgc = %r is not in the grid interval [%r, %r] where the "
                                "data cross |L| = 1" % (w, om[i], om[i + 1]))
            else:
                pairs = [(pw[0], pv[0])]
                if not ex:
                    if not (math.isinf(pv[0]) and math.isnan(pw[0])):
                        return ("frd-pm-default-spurious", "pm = %r at wgc = %r, the loop has no gain crossover on "
                                "the grid" % (pv[0], pw[0]))
                    pairs = []
                elif not math.isfinite(pv[0]) or not math.isfinite(pw[0]):
                    return ("frd-pm-default-missing", "pm = %r, wgc = %r; the loop has gain crossovers at %r with "
                            "phase margins %r" % (pv[0], pw[0], [w for w, _ in ex], epm))
                else:
                    j = which_bracket(pw[0], br["G"], 1)
                    if j is None:
                        return ("frd-pm-default-freq", "default wgc = %r is in none of the grid intervals where the "
                                "data cross |L| = 1; crossovers of the loop: %r" % (pw[0], [w for w, _ in ex]))
                    keys = [abs(x) for x in epm]
                    if keys[j] > min(keys) + 5 * tol_deg:
                        return ("frd-pm-default-not-smallest",
                                "default pm = %r at wgc = %r; phase margins of the loop: %r at %r"
                                % (pv[0], pw[0], epm, [w for w, _ in ex]))
            for (w, g) in pairs:
                L = Lat(w)
                ok = L is not None and abs(abs(L) - 1.0) <= tol
                if ok:
                    d = ((g - pm_of((L.real, L.imag)) + 180.0) % 360.0) - 180.0
                    ok = abs(d) <= tol_deg
                if not ok:
                    return ("frd-gain-crossing-value", "pm = %r at wgc = %r, but L(j wgc) = %r (|L| = 1 and phase "
                            "-180 + pm do not hold)" % (g, w, L))
        # ---- stability margin
        if isinstance(parts["S"], list) and "sm" in got:
            ex = parts["S"]
            sv, sw = values("sm", "wms")
            esm = [sm_of(r) for _, r in ex]
            if returnall:
                if len(sw) != len(br["S"]) or len(sv) != len(sw):
                    return ("frd-stab-" + ("missing" if len(sw) < len(br["S"]) else "extra"),
                            "wms = %r: %d minima reported, the sampled |1+L| has %d grid minima (at %r); minima of "
                            "the loop: %r" % (sw, len(sw), len(br["S"]), [om[i + 1] for i in br["S"]],
                                              [w for w, _ in ex]))
                pairs = list(zip(sw, sv))
            else:
                pairs = [(sw[0], sv[0])]
                if not ex:
                    if not math.isinf(sv[0]):
                        return ("frd-sm-default-spurious", "sm = %r at wms = %r, |1+L| has no interior minimum on "
                                "the grid" % (sv[0], sw[0]))
                    pairs = []
                elif not math.isfinite(sv[0]) or not math.isfinite(sw[0]):
                    return ("frd-sm-default-missing", "sm = %r, wms = %r; |1+L| has minima %r at %r"
                            % (sv[0], sw[0], esm, [w for w, _ in ex]))
            if pairs and ex and abs(min(v for _, v in pairs) - min(esm)) > 2 * tol * max(1.0, min(esm)):
                return ("frd-sm-not-minimum" if not returnall else "frd-stab-value",
                        "smallest reported sm = %r; minima of |1+L| over the grid: %r at %r"
                        % (min(v for _, v in pairs), esm, [w for w, _ in ex]))
            for (w, v) in pairs:
                L = Lat(w)
                if L is None or abs(abs(1.0 + L) - v) > 2 * tol * max(1.0, abs(1.0 + L)):
                    return ("frd-stab-value", "sm = %r at wms = %r, but |1 + L(j wms)| = %r"
                            % (v, w, None if L is None else abs(1.0 + L)))
        return None

    def compare_fr(self, case, impl, model, info):
        if "err" in model:
            return Verdict(DIFFERS, "model rejects the loop: %s" % model["err"], {"kind": "frd-harness"})
        m = model["ok"]
        for which, p in info["oracle_polys"].items():
            if m["polys"].get(which) != p:
                return Verdict(DIFFERS, "harness oracle and Lean model disagree on the %s polynomial" % which,
                               {"kind": "oracle-vs-model", "poly": which})
        num, den = [Fraction(x) for x in info["num"]], [Fraction(x) for x in info["den"]]
        disc = fr_disc(case)
        if disc:
            # discrete-time system sampled by stability_margins itself: the fall-back decision is the model's
            n1, n2 = float(Fraction(m["n1sq"])), float(Fraction(m["n2sq"]))
            if abs(n1 - 1e-8 * n2) <= 1e-6 * 1e-8 * n2:
                return Verdict(AGREE, "guarded", {"guard": "fallback-threshold"})
            if case["source"] == "lti-best" and not m["fallback"]:
                return Verdict(AGREE, "guarded: the numerical-inaccuracy switch does not fire (polynomial route; "
                               "covered by the single-call stream)", {"guard": "frd-no-fallback"})
            if info["nyquist_edge"]:
                return Verdict(AGREE, "guarded: a sample of the default range within 1e-12 of the Nyquist frequency",
                               {"guard": "frd-nyquist-edge"})
        if case["source"] == "lti-frd" and not disc:
            for call, res in zip(case["calls"], impl["calls"]):
                if "err" in res:
                    msg = res["exc"].split(":", 1)[1].strip()[:50]
                    return Verdict(VIOLATES, "stability_margins(sys, method='frd') raises %s for a continuous-time "
                                   "system whose margins exist" % res["exc"],
                                   self.feat_fr(case, "raises", "stability_margins", method="frd",
                                                exc=res["exc"].split(":")[0], msg=msg))
            return Verdict(AGREE, "guarded: method='frd' samples the system on a grid of its own (not compared)",
                           {"guard": "frd-method-own-grid"})
        if info["interp"] > FR_INTERP:
            return Verdict(AGREE, "guarded: the grid does not resolve the response (spline error estimate %.1e)"
                           % info["interp"], {"guard": "frd-grid-too-coarse"})
        if info.get("roots_rel_residual", 0.0) > 1e-9:
            return Verdict(AGREE, "guarded: ill-conditioned root of a test polynomial", {"guard": "roots-residual"})
        tol = min(FR_TAU_MAX, max(FR_TAU, 1e3 * info["interp"]))
        parts = self.fr_parts(case, m, info)
        info["fr_parts"] = "+".join(k for k in "PGS" if isinstance(parts[k], list)) or "none"
        om = info["om"]
        br = m["brackets"]
        for k, (call, res) in enumerate(zip(case["calls"], impl["calls"])):
            bad = self.fr_check_call(case, call, res, parts, br, om, num, den, tol)
            if bad is None:
                continue
            if disc and bad[0] in ("frd-stab-missing", "frd-sm-default-missing", "frd-sm-not-minimum") and \
                    fr_minimizer_leaves_grid(om, info["resp"], br["S"]):
                # the unbounded bracket search of minimize_scalar walks out of the sampled band (towards a lower
                # minimum at / beyond the Nyquist frequency) and the code drops the result: listed finding
                bad = ("frd-sm-minimizer-leaves-grid", bad[1] + "; minimize_scalar started from the bracket of the "
                       "grid minimum ends outside the sampled band")
            if disc:
                dtv = float(dt_value(case["dt"]))
                bad = (bad[0], "%s [discrete-time loop, dt = %r, sampled by stability_margins on its default "
                       "frequency range below the Nyquist frequency: %d samples in [%.6g, %.6g], pi/dt = %.6g]"
                       % (bad[1], dtv, len(om), om[0], om[-1], math.pi / dtv))
            fres = info["fresh"](k)
            fresh_bad = self.fr_check_call(case, call, fres, parts, br, om, num, den, tol)
            hist = "first-call" if k == 0 else "later-call-on-the-same-data"
            return Verdict(VIOLATES, "call %d of %d (%s%s) on %s data (%s): %s; the same call on fresh copies of the "
                           "data %s; caller's arrays modified by the calls: %r; earlier calls: %r" % (
                               k + 1, len(case["calls"]), call[0], ", returnall=True" if call[1] else "",
                               case["source"], case["store"], bad[1],
                               "fails too" if fresh_bad else "is correct: %r" % (fres,),
                               impl["modified"], [c[0] for c in case["calls"][:k]]),
                           self.feat_fr(case, bad[0], call[0], history=hist,
                                        fresh_call="also-fails" if fresh_bad else "correct",
                                        returnall=bool(call[1])))
        if impl["modified"]:
            return Verdict(DIFFERS, "the calls modified the caller's data: %r" % impl["modified"],
                           self.feat_fr(case, "caller-data-modified", case["calls"][0][0]))
        res, fres = impl["calls"][-1], impl["fresh_last"]
        if not results_close(res, fres, 1e-9):
            return Verdict(DIFFERS, "the last call of the history returns %r on the kept data, %r on fresh copies"
                           % (res, fres), self.feat_fr(case, "history-dependent-result", case["calls"][-1][0]))
        if info["fr_parts"] == "none":
            return Verdict(AGREE, "guarded: %r" % {k: v for k, v in parts.items()}, {"guard": "frd-all-parts"})
        return Verdict(AGREE)

    # .... margins ....
    def cond_guard(self, num, den, pts, disc):
        """True when some evaluation of num/den at a selected point is ill-conditioned"""
        for p in pts:
            z = (Fraction(p[0]), Fraction(p[1])) if disc else (F0, Fraction(p))
            r = fr(math.hypot(float(z[0]), float(z[1])))
            for poly in (num, den):
                vr, vi = ceval(poly, z)
                mag = max(abs(vr), abs(vi))
                sc = abs_eval_exact(poly, r)
                if mag == 0:
                    if sc != 0 and r != 0:
                        return True
                    continue
                if ratio(sc, mag) > COND_MAX:
                    return True
        return False

    def compare_sm(self, case, impl, model, info):
        disc = case["dt"] != "C"
        if "err" in model:
            if "err" in impl:
                return Verdict(AGREE)
            return Verdict(VIOLATES, "returns a result where the model raises %s" % model["err"],
                           self.feat(case, "returns-" + model["err"]))
        m = model["ok"]
        num, den = [Fraction(x) for x in info["num"]], [Fraction(x) for x in info["den"]]
        # (0) the model's polynomials must be the oracle's (two independent exact computations)
        for which, p in info["oracle_polys"].items():
            if m["polys"].get(which) != p:
                return Verdict(DIFFERS, "harness oracle and Lean model disagree on the %s polynomial" % which,
                               {"kind": "oracle-vs-model", "poly": which})
        if disc:
            n1, n2 = float(Fraction(m["n1sq"])), float(Fraction(m["n2sq"]))
            if abs(n1 - 1e-8 * n2) <= 1e-6 * 1e-8 * n2:
                return Verdict(AGREE, "guarded", {"guard": "fallback-threshold"})
        if disc and m["fallback"]:
            if case["method"] == "best" and case["api"] != "pcf":
                if "err" not in impl and not info["fallback_warned"]:
                    return Verdict(DIFFERS, "model predicts the FRD fallback, implementation did not warn",
                                   self.feat(case, "fallback-decision"))
                return Verdict(AGREE, "FRD fallback (outside the model)", {"guard": "frd-fallback"})
        elif disc and info["fallback_warned"]:
            return Verdict(DIFFERS, "implementation fell back to FRD, model does not predict it",
                           self.feat(case, "fallback-decision"))
        if "err" in impl:
            msg = impl["exc"].split(":", 1)[1].strip()[:50]
            return Verdict(VIOLATES, "implementation raises %s where margins exist" % impl["exc"],
                           self.feat(case, "raises", exc=impl["exc"].split(":")[0], msg=msg))
        # ---- a pole at z = 1: L(1) does not exist, so there is no crossing at w = 0; the code evaluates
        # the response at the rounded root 1 +- 1e-16 and keeps it when the rounding makes it negative ----
        if disc and case["api"] != "pcf":
            cden = [Fraction(x) for x in case["den"]]
            cnum = [Fraction(x) for x in case["num"]]
            if exact.pval(cden, F1) == 0 and exact.pval(cnum, F1) != 0:
                got = impl["ok"]
                gms = [unfl(x) for x in got["gm"]] if case["returnall"] else [unfl(got["gm"])]
                wps = [unfl(x) for x in got["wpc"]] if case["returnall"] else [unfl(got["wpc"])]
                for g, w in zip(gms, wps):
                    if abs(w) <= 1e-9 and g < 1e-8:
                        return Verdict(VIOLATES, "gm = %r reported at wpc = %r for a loop with a pole at z = 1: "
                                       "the loop response does not exist there (no crossing)" % (g, w),
                                       self.feat(case, "spurious-crossing-at-dc-pole"))
        # ---- discrete stability margin: the reported value must be the minimum of |1+L| over the unit circle
        # (decided exactly by the model on candidate points of the circle; independent of the guards below,
        # which concern the crossings) ----
        if disc and case["api"] == "stability_margins":
            v = self.check_sm_minimum(case, m, info, num, den)
            if v is not None:
                return v
        # ---- guards (conditioning of the case; decided on the model's exact data) ----
        if info.get("bits", 0) > 50 and "DIFFERENT" in info.get("polycmp", {}).values():
            return Verdict(AGREE, "guarded: non-dyadic coefficients (state-space conversion) and the rounded test "
                           "polynomial is not within 1e-9 of the exact one", {"guard": "regime-T-poly-noise"})
        if info.get("roots_rel_residual", 0.0) > 1e-9:
            return Verdict(AGREE, "guarded: a recorded root does not satisfy the exact test polynomial to 1e-9 "
                           "(ill-conditioned root / rounding noise in a leading coefficient)", {"guard": "roots-residual"})
        pts = [c[0] for c in m["X"]] + [c[0] for c in m["B"]] + [c[0] for c in m["S"]]
        if self.cond_guard(num, den, pts, disc):
            return Verdict(AGREE, "guarded: ill-conditioned evaluation", {"guard": "cond"})
        for c in m["X"]:
            if c[1] is not None:
                re, im = float(Fraction(c[1][0])), float(Fraction(c[1][1]))
                if re != 0 and abs(re) < 1e-6 * math.hypot(re, im):
                    return Verdict(AGREE, "guarded: sign of Re L undecided", {"guard": "re-sign"})
        if not disc:
            ts = [Fraction(x) for x in m["polys"]["wstab"]]
            dts = np_der(ts)
            for (w, val) in m["D"]:
                sc = abs_eval_exact(dts, abs(Fraction(w)))
                if sc > 0 and abs(Fraction(val)) < Fraction(1, 10 ** 7) * sc:
                    return Verdict(AGREE, "guarded: second-derivative sign undecided", {"guard": "d2-sign"})

        def freq(p):
            if disc:
                ang = math.atan2(float(Fraction(p[1])), float(Fraction(p[0])))
                return ang / float(dt_value(case["dt"]))
            return float(Fraction(p))

        def cx(r):
            return None if r is None else (Fraction(r[0]), Fraction(r[1]))
        A = [(freq(c[0]), cx(c[1])) for c in m["A"]]
        B = [(freq(c[0]), cx(c[1])) for c in m["B"]]
        if disc:   # the frequency of the minimiser is wdt/dt as reported (not reduced modulo 2 pi)
            dtv = float(dt_value(case["dt"]))
            S = [(wdt / dtv, cx(c[1])) for wdt, c in zip(info["wdt_stab"], m["S"])]
        else:
            S = [(freq(c[0]), cx(c[1])) for c in m["S"]]
        X = [(freq(c[0]), cx(c[1])) for c in m["X"]]
        unit = unit_of(case)
        for lst in (A, B, S):
            ws = sorted(w for w, _ in lst)
            for a, b in zip(ws, ws[1:]):
                if abs(a - b) <= 1e-6 * max(unit, abs(b)):
                    return Verdict(AGREE, "guarded: two crossings closer than 1e-6 (not simple)",
                                   {"guard": "double-crossing"})
        if case["api"] == "pcf":
            return self.compare_pcf(case, impl, X, unit)
        exp = {"gm": [gm_of(r) for _, r in A], "wpc": [w for w, _ in A],
               "pm": [math.nan if r is None else pm_of(r) for _, r in B], "wgc": [w for w, _ in B],
               "sm": [math.nan if r is None else sm_of(r) for _, r in S], "wms": [w for w, _ in S]}
        if case["returnall"]:
            return self.compare_all(case, impl["ok"], exp, unit)
        return self.compare_default(case, impl["ok"], exp, A, B, S, m["idx"], unit)

    def check_sm_minimum(self, case, m, info, num, den):
        """None, or the VIOLATES verdict "the reported discrete stability margin is not the minimum of |1+L|".
        Decided by the model: `R[i]` = the i-th reported minimiser is refuted by the best candidate `M` on the
        unit circle (exact comparison of |1+L|^2); reported only with the margin TAU_MIN."""
        info["sm_min"] = "n/a"
        if m.get("M") is None:
            info["sm_min"] = "no-candidate"
            return None
        zw, rw = m["M"]
        rwx = (Fraction(rw[0]), Fraction(rw[1]))
        sm_w = sm_of(rwx)
        if sm_w < SM_ZERO:
            info["sm_min"] = "guard:closed-loop-pole-on-circle"
            return None
        # how the search was set up and how it ended (features only: they tell a failure of the search the code
        # documents - start at the best of 100 geometric samples of (1e-4, 2 pi), range [0, 2 pi] - from a
        # different search)
        srch = info.get("sm_search")
        nf = np.array([float(c) for c in num])
        df = np.array([float(c) for c in den])

        def f(t):
            with np.errstate(all="ignore"):
                z = np.exp(1j * np.asarray(t, dtype=float))
                v = np.abs(1 + np.polyval(nf, z) / np.polyval(df, z))
            return np.where(np.isfinite(v), v, np.inf)
        if srch is None:
            rng_feat, mode, start = "unrecorded", "unrecorded", "unrecorded"
        else:
            b = srch.get("bounds")
            if b is None:
                rng_feat = "unbounded"
            elif b[0] <= 1e-4 and b[1] >= math.pi * (1 - 1e-12):
                rng_feat = "covers-half-circle"
            else:
                rng_feat = "misses-part-of-half-circle"
            x0 = srch.get("x0")
            start = "other"
            if x0 is not None and len(x0) == 1:
                g = np.geomspace(1e-4, 2 * np.pi, num=100)
                xd = float(g[int(np.argmin(f(g)))])
                if abs(x0[0] - xd) <= 1e-12 * xd:
                    start = "best-of-documented-grid"
            if not srch.get("success"):
                mode = "minimiser-failed"
            elif x0 is not None and len(x0) == 1 and len(srch["x"]) == 1 and abs(srch["x"][0] - x0[0]) <= 1e-3:
                mode = "stalled-at-start"
            else:
                x = srch["x"][0]
                fx = float(f(x))
                lo = min(float(f(max(x - 1e-3, 0.0))), float(f(x + 1e-3)))
                mode = "moved-to-local-minimum" if lo >= fx - 1e-6 * max(1.0, fx) else "moved-to-non-stationary-point"
        th_w = math.atan2(float(Fraction(zw[1])), float(Fraction(zw[0])))
        dtv = float(dt_value(case["dt"]))
        S = [c for c in m["S"]]
        if not S:
            info["sm_min"] = "missing"
            return Verdict(VIOLATES, "no stability margin reported (sm = inf / empty), but |1+L| = %r at w*dt = %r "
                           "(w = %r) on the unit circle; search: %r" % (sm_w, th_w, th_w / dtv, srch),
                           self.feat(case, "sm-missing", range=rng_feat, start=start, mode=mode))
        vals = [(sm_of((Fraction(c[1][0]), Fraction(c[1][1]))), i) for i, c in enumerate(S) if c[1] is not None]
        if not vals:
            return None
        sm_rep, i = min(vals)
        if m["R"][i] and sm_rep > sm_w * (1 + TAU_MIN):
            info["sm_min"] = "refuted"
            return Verdict(VIOLATES, "stability margin %r at w*dt = %r is not the minimum of |1+L| over the unit "
                           "circle: |1+L| = %r at w*dt = %r (w = %r, dt = %r); search handed to "
                           "scipy.optimize.minimize: %r" % (sm_rep, info["wdt_stab"][i] if i < len(info["wdt_stab"])
                                                           else None, sm_w, th_w, th_w / dtv, dtv, srch),
                           self.feat(case, "sm-not-minimum", range=rng_feat, start=start, mode=mode))
        info["sm_min"] = "minimum" if not m["R"][i] or sm_rep <= sm_w * (1 + 1e-7) else "within-tolerance"
        return None

    def compare_pcf(self, case, impl, X, unit=1.0):
        om = [unfl(x) for x in impl["ok"]["omega"]]
        g = [unfl(x) for x in impl["ok"]["gains"]]
        if len(om) != len(X):
            return Verdict(VIOLATES, "phase_crossover_frequencies returns %d frequencies, the test polynomial has "
                           "%d admissible real roots" % (len(om), len(X)), self.feat(case, "pcf-count"))
        for (w, gi), (we, r) in zip(sorted(zip(om, g)), sorted(X, key=lambda c: c[0])):
            if not close_rel(w, we, 1e-7, unit):
                return Verdict(VIOLATES, "crossover frequency %r, expected %r" % (w, we), self.feat(case, "pcf-freq"))
            if r is None:
                continue
            if not close_rel(gi, float(r[0]), TAU):
                return Verdict(VIOLATES, "gain %r at w=%r, exact Re L = %r" % (gi, w, float(r[0])),
                               self.feat(case, "pcf-gain"))
        return Verdict(AGREE)

    def compare_all(self, case, got, exp, unit=1.0):
        pairs = (("gm", "wpc", "phase-crossing"), ("pm", "wgc", "gain-crossing"), ("sm", "wms", "stab"))
        order_only = None
        for (vk, wk, name) in pairs:
            gv, gw = [unfl(x) for x in got[vk]], [unfl(x) for x in got[wk]]
            ev, ew = exp[vk], exp[wk]
            if len(gv) != len(gw):
                return Verdict(VIOLATES, "%s and %s have different lengths" % (vk, wk), self.feat(case, name + "-shape"))
            if len(gw) != len(ew):
                kind = name + ("-missing" if len(gw) < len(ew) else "-extra")
                return Verdict(VIOLATES, "%s: implementation reports %d (%r), the roots of the test polynomial give "
                               "%d (%r)" % (wk, len(gw), gw, len(ew), ew), self.feat(case, kind, returnall=True))
            gs, es = sorted(zip(gw, gv)), sorted(zip(ew, ev))
            for (w, v), (we, ve) in zip(gs, es):
                if not close_rel(w, we, 1e-7, unit):
                    return Verdict(VIOLATES, "%s %r, expected %r" % (wk, w, we),
                                   self.feat(case, name + "-freq", returnall=True))
                ok = close_deg(v, ve) if vk == "pm" else close_rel(v, ve, TAU)
                if not ok:
                    return Verdict(VIOLATES, "%s = %r at w = %r, exact value %r" % (vk, v, w, ve),
                                   self.feat(case, name + "-value", returnall=True))
            if gw != [w for w, _ in gs]:
                order_only = wk
        if order_only:
            return Verdict(DIFFERS, "%s not sorted" % order_only, self.feat(case, "order"))
        return Verdict(AGREE)

    def compare_default(self, case, got, exp, A, B, S, idx, unit=1.0):
        gi, pi, si = idx
        if pi == -2 or si == -2:
            return Verdict(AGREE, "guarded: a response does not exist at a crossing", {"guard": "pole-at-crossing"})
        # tie guards on the exact keys
        def tie(keys, i):
            return any(j != i and abs(k - keys[i]) <= 1e-6 * max(1.0, abs(keys[i])) for j, k in enumerate(keys))
        if gi >= 0:
            keys = [abs(math.log(gm_of(r))) if gm_of(r) not in (0.0, math.inf) else math.inf for _, r in A]
            if tie([k for k in keys], gi):
                return Verdict(AGREE, "guarded: two gain margins equally small", {"guard": "gm-tie"})
        if pi >= 0 and tie([abs(pm_of(r)) for _, r in B], pi):
            return Verdict(AGREE, "guarded: two phase margins equally small", {"guard": "pm-tie"})
        if si >= 0 and tie([sm_of(r) for _, r in S], si):
            return Verdict(AGREE, "guarded: two stability margins equally small", {"guard": "sm-tie"})
        want = {"gm": math.inf if gi < 0 else exp["gm"][gi], "wpc": math.nan if gi < 0 else exp["wpc"][gi],
                "pm": math.inf if pi < 0 else exp["pm"][pi], "wgc": math.nan if pi < 0 else exp["wgc"][pi],
                "sm": math.inf if si < 0 else exp["sm"][si], "wms": math.nan if si < 0 else exp["wms"][si]}
        for (vk, wk, name, lst) in (("gm", "wpc", "gm", exp["gm"]), ("pm", "wgc", "pm", exp["pm"]),
                                    ("sm", "wms", "sm", exp["sm"])):
            if vk not in got:
                continue
            v, w = unfl(got[vk]), unfl(got[wk])
            okv = close_deg(v, want[vk]) if vk == "pm" and math.isfinite(want[vk]) else close_rel(v, want[vk], TAU)
            okw = close_rel(w, want[wk], 1e-7, unit)
            if okv and okw:
                continue
            # which part of the property fails?
            among = any((close_deg(v, e) if vk == "pm" else close_rel(v, e, TAU)) for e in lst)
            if among:
                kind = name + "-default-not-smallest"
            elif not lst:
                kind = name + "-default-spurious"
            elif math.isinf(v) or math.isnan(w):
                kind = name + "-default-missing"
            else:
                kind = name + "-default-value"
            return Verdict(VIOLATES, "default %s = %r at %s = %r; all margins of this kind: %r at %r; smallest is %r at %r"
                           % (vk, v, wk, w, lst, exp[wk], want[vk], want[wk]),
                           self.feat(case, kind, returnall=False))
        return Verdict(AGREE)

    # ---- evidence ------------------------------------------------------------------------------------
    def nontrivial(self, case, model):
        if "ok" not in model:
            return False
        order = len(case["den"]) - 1
        nondefault = case.get("returnall") or case.get("epsw", "0") != "0" or case["dt"] != "C" \
            or case.get("form") == "ss" or case.get("dbdrop", "-3") != "-3" or case.get("wscale") is not None
        return order >= 2 or bool(nondefault)

    def stats(self, case, impl, model):
        info = self._run(case)["info"]
        st = {"kind": case["kind"], "time": "C" if case["dt"] == "C" else "D", "form": case.get("form"),
              "guard": info.get("guard", "?"),
              "order": len(case["den"]) - 1,
              "gain_sign": "neg" if Fraction(case["num"][0]) < 0 else "pos",
              "wscale": "2^%s" % case["wscale"] if case.get("wscale") is not None else "1"}
        if case["kind"] == "fr":
            st.update({"source": case["source"], "store": case["store"], "ncalls": len(case["calls"]),
                       "fr_parts": info.get("fr_parts", "n/a")})
            if fr_disc(case):
                dtv = float(dt_value(case["dt"]))
                st["dt"] = "1" if dtv == 1 else ("<1" if dtv < 1 else ">1")
                if "ok" in model and info.get("om") is not None and len(info["om"]):
                    # where the exact phase crossovers inside the grid lie in the Nyquist band (w dt / pi)
                    top = 0.0
                    for c in model["ok"].get("A", []):
                        th = math.atan2(float(Fraction(c[0][1])), float(Fraction(c[0][0])))
                        if info["om"][0] <= th / dtv <= info["om"][-1]:
                            top = max(top, th / math.pi)
                    st["top_phase_crossing"] = "none" if top == 0 else ("<0.16" if top < 0.5 / math.pi else
                                                                        ("<0.5" if top < 0.5 else ">=0.5")) + " of Nyquist"
            return st
        if case.get("repeat"):
            st["history"] = "repeat-x%d" % int(case["repeat"])
        if case["dt"] != "C":
            dtv = float(dt_value(case["dt"]))
            st["dt"] = "1" if dtv == 1 else ("<1" if dtv < 1 else ">1")
            if case["kind"] == "sm":
                st["sm_min"] = info.get("sm_min", "n/a")
        if case["kind"] == "sm":
            st["api"] = case["api"] + ("/all" if case["returnall"] else "")
            if "ok" in model:
                m = model["ok"]
                st["n_phase_crossings"] = min(len(m["A"]), 4)
                st["n_gain_crossings"] = min(len(m["B"]), 4)
                st["n_stab"] = min(len(m["S"]), 4)
                st["regime"] = "E" if info.get("bits", 99) <= 50 else "T"
                for k, v in info.get("polycmp", {}).items():
                    st["poly_" + k] = v
                for k, v in info.get("sturm", {}).items():
                    st["sturm_" + k] = v
                r = info.get("roots_rel_residual", 0.0)
                st["roots_residual"] = "<=1e-12" if r <= 1e-12 else ("<=1e-8" if r <= 1e-8 else ">1e-8")
            else:
                st["outcome"] = "err:" + model.get("err", "?")
        else:
            st["dbdrop"] = case["dbdrop"]
            if "ok" in model:
                st["outcome"] = model["ok"]["kind"]
                if "dc" in model["ok"]:
                    st["dc_sign"] = "neg" if Fraction(model["ok"]["dc"]) < 0 else "nonneg"
            else:
                st["outcome"] = "err:" + model.get("err", "?")
        return st

    # ---- shrinking / search --------------------------------------------------------------------------
    def shrink(self, case):
        def variants(lst):
            for i in range(len(lst)):
                if len(lst) > 1:
                    yield lst[:i] + lst[i + 1:]
            for i, x in enumerate(lst):
                q = Fraction(x)
                for r in (F0, F1, -F1, Fraction(int(q)), q / 2):
                    if r != q and len(tok(r)) <= len(x):
                        yield lst[:i] + [tok(r)] + lst[i + 1:]
        if case["kind"] == "fr":
            calls = case["calls"]
            if len(calls) > 1:
                for i in range(len(calls)):
                    yield dict(case, calls=calls[:i] + calls[i + 1:])
            for i, cl in enumerate(calls):
                if cl[1]:
                    yield dict(case, calls=calls[:i] + [[cl[0], False, cl[2]]] + calls[i + 1:])
            if case["store"] not in ("ndarray", "kept", "tf"):
                yield dict(case, store={"bode3": "ndarray", "lti-frd": "tf"}.get(case["source"], "kept"))
            if case.get("unwrap"):
                yield dict(case, unwrap=False)
            if case.get("grid") not in (None, [-2, 2, 600]):
                yield dict(case, grid=[-2, 2, 600])
        if case.get("repeat") and int(case["repeat"]) > 2:
            yield dict(case, repeat=2)
        if case.get("wscale") is not None:
            c = dict(case)
            c.pop("wscale")
            c.pop("norm", None)
            yield c
            if case.get("norm") != "monic":
                c = dict(case)
                c["norm"] = "monic"
                yield c
        for k, v in (("form", "tf"), ("method", "poly"), ("epsw", "0"), ("via", "method"), ("dt", "T")):
            if k in case and case[k] != v and not (k == "dt" and case["dt"] == "C"):
                c = dict(case)
                c[k] = v
                yield c
        for key in ("num", "den"):
            for v in variants(case[key]):
                if all(Fraction(x) == 0 for x in v) and key == "den":
                    continue
                c = dict(case)
                c[key] = v
                yield c

    def search(self, rng, case, tier):
        out = []
        for _ in range(200):
            if case["kind"] == "fr":
                out.append(self.gen_fd(rng, tier) if fr_disc(case) else self.gen_fr(rng, tier))
            else:
                out.append(self.gen_bw(rng, tier) if case["kind"] == "bw" else self.gen_sm(rng, tier))
        return out


def exact_key(case):
    import json
    return json.dumps(case, sort_keys=True)


FAMILY = C12
