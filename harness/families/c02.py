"""C02 — state-space arithmetic: correspondence between StateSpace operators and the Lean model
`CtrlVerif.Model.SSDyn` (driver family `ss`).  The block constructions executed by the driver
are the typed definitions the theorems of Props/C02.lean are about."""
import copy
import json
import re
from fractions import Fraction

import numpy as np
import control as ct

from core.runner import Family, Verdict, AGREE, VIOLATES, DIFFERS
from core import exact, exmat
from core.exact import fr, tok, Tokens

DT01 = exact.dt_tok(0.1)
BIN = ("add", "sub", "mul", "div", "append")
TOPS = ("fb", "div", "lft")          # operations that solve / invert (regime T)
# >>> bdalg: the n-ary block-diagram functions of control/bdalg.py (node = [fn, x1, ..., xn])
NARY = ("series", "parallel", "appendn")
# feedback call forms: method / function, with the defaults sign=-1 and sys2=1 left out
FB_VIA = ("method", "func", "method-sign", "func-sign", "method-all", "func-all")
# <<< bdalg
TOL = Fraction(1, 10 ** 8)
POINTS = [Fraction(7, 3), Fraction(-11, 5), Fraction(13, 7), Fraction(-17, 4), Fraction(23, 6),
          Fraction(29, 9), Fraction(-31, 8), Fraction(37, 10), Fraction(-41, 12), Fraction(43, 5),
          Fraction(47, 11), Fraction(-53, 13), Fraction(59, 14), Fraction(61, 15), Fraction(-67, 16)]


# ----------------------------------------------------------------------------
# case = expression tree (nested lists, JSON-able)
#   ["L", n, p, m, dt_tok, A, B, C, D]   flat row-major rational tokens
#   ["S", q, kind]   ["A", p, m, [q...], dtype]
#   ["neg", x] ["pow", k, x] ["fb", sign, via, x, y] ["sel", rows, cols, x] [binop, x, y]
#   ["lft", nu, ny, x, y]      x.lft(y, nu, ny)   (nu / ny = -1: the default)
#   ["series", x1, ..., xn] ["parallel", x1, ..., xn] ["appendn", x1, ..., xn] ["negate", x]
#                              control.series / parallel / append / negate (n >= 1 operands)
#   "fb" via: "method" x.feedback(y, sign) | "func" control.feedback(x, y, sign) |
#             "*-sign" the same without the sign argument (sign = -1) | "*-all" without y and sign
#             (y = 1, sign = -1); a scalar / array x (function form only) is converted first
# >>> rus: optional case key "rus" = [how, scope] - the documented option remove_useless_states
#   how   : "set_defaults" ct.set_defaults('statesp', remove_useless_states=True) |
#           "dict" ct.config.defaults['statesp.remove_useless_states'] = True |
#           "legacy" ct.use_legacy_defaults('0.8.3') | "kw" the constructor keyword (leaves only)
#   scope : "ops" operands built with the option off, every operator runs with it on |
#           "all" operands built and operators run with it on |
#           "leaves" only the operands are built with it on (keyword, or a configuration that is
#           reset before the arithmetic)
#   driver line: the instruction `rus` (final processing of the constructor) after every leaf /
#   after every node whose evaluation ends in a StateSpace(...) call.
# <<< rus
# ----------------------------------------------------------------------------

def flatten(t, rl=False, ro=False):
    """postfix program of the tree.  rus: `rl` - the leaves are built with the option
    remove_useless_states on, `ro` - the operators run with it on: the instruction `rus` follows
    every leaf / every node whose evaluation ends in a `StateSpace(...)` call (`G ** 1` returns
    `self`, a call of series / parallel / append with one operand copies it: no call)."""
    f = lambda x: flatten(x, rl, ro)
    R = " rus" if ro else ""
    k = t[0]
    if k == "L":
        _, n, p, m, dt, A, B, C, D = t
        return "L %d %d %d %s %s" % (n, p, m, dt, " ".join(A + B + C + D)) + (" rus" if rl else "")
    if k == "S":
        return "S " + t[1]
    if k == "A":
        return "A %d %d %s" % (t[1], t[2], " ".join(t[3]))
    if k == "neg":
        return f(t[1]) + " neg" + R
    if k == "negate":
        return f(t[1]) + " negate" + R
    if k in NARY:
        if ro:      # the fold of the code, one constructor call per step
            return f(t[1]) + "".join(" %s %s 2 rus" % (f(x), k) for x in t[2:])
        return " ".join(f(x) for x in t[1:]) + " %s %d" % (k, len(t) - 1)
    if k == "pow":
        return f(t[2]) + " pow %d" % t[1] + (R if t[1] != 1 else "")
    if k == "fb":
        conv = " tosys" if t[3][0] in ("S", "A") else ""      # bdalg.feedback converts a constant sys1
        return f(t[3]) + conv + " " + f(t[4]) + " fb " + t[1] + R
    if k == "lft":
        return f(t[3]) + " " + f(t[4]) + " lft %d %d" % (t[1], t[2]) + R
    if k == "sel":
        return f(t[3]) + " sel %d %s %d %s" % (
            len(t[1]), " ".join(map(str, t[1])), len(t[2]), " ".join(map(str, t[2]))) + R
    if k in BIN:
        return f(t[1]) + " " + f(t[2]) + " " + k + R
    raise ValueError(k)


def children(t):
    k = t[0]
    if k in ("L", "S", "A"):
        return []
    if k in ("neg", "negate"):
        return [1]
    if k in NARY:
        return list(range(1, len(t)))
    if k == "pow":
        return [2]
    if k in ("fb", "lft"):
        return [3, 4]
    if k == "sel":
        return [3]
    return [1, 2]


def size(t):
    return 1 + sum(size(t[i]) for i in children(t))


def ops_in(t, acc=None):
    acc = [] if acc is None else acc
    if t[0] not in ("L", "S", "A"):
        acc.append(t[0] if t[0] != "pow" else ("pow-" if t[1] < 0 else "pow"))
    for i in children(t):
        ops_in(t[i], acc)
    return acc


def leaf_keys(t, acc=None):
    """serialisations of the system / array leaves, one entry per occurrence"""
    acc = [] if acc is None else acc
    if t[0] in ("L", "A"):
        acc.append(json.dumps(t))
    for i in children(t):
        leaf_keys(t[i], acc)
    return acc


def has_dynamic_leaf(t):
    if t[0] == "L":
        return t[1] > 0
    return any(has_dynamic_leaf(t[i]) for i in children(t))


def inexact(t):
    """the tree contains an operation that solves/inverts, or non-integer data"""
    if t[0] in TOPS or (t[0] == "pow" and t[1] < 0):
        return True
    if t[0] == "L":
        return any(Fraction(x).denominator != 1 for part in t[5:9] for x in part)
    if t[0] == "S":
        return Fraction(t[1]).denominator != 1
    if t[0] == "A":
        return any(Fraction(x).denominator != 1 for x in t[3])
    return any(inexact(t[i]) for i in children(t))


def nested_inexact(t):
    """an inverting operation applied to an operand that itself contains one"""
    if t[0] in TOPS or (t[0] == "pow" and t[1] < 0):
        if any(inexact(t[i]) for i in children(t)):
            return True
    return any(nested_inexact(t[i]) for i in children(t))


def classify_exc(e):
    msg = str(e)
    if isinstance(e, ZeroDivisionError):
        return "zeroDen"
    if isinstance(e, ValueError):
        if "timebase" in msg or "Time steps" in msg:
            return "timebase"
        if "singular" in msg or "well-posed" in msg:
            return "illPosed"
        return "shape"
    if isinstance(e, (TypeError, NotImplementedError)):
        return "notImplemented"
    if isinstance(e, IndexError):
        return "indexRange"
    return type(e).__name__


def dt_value(tokn):
    if tokn == "N":
        return None
    if tokn == "T":
        return True
    if tokn == "C":
        return 0
    return float(Fraction(tokn[1:]))


def num_value(q, kind):
    q = Fraction(q)
    if kind == "int":
        return int(q)
    if kind == "npint":
        return np.int64(int(q))
    if kind == "npfloat":
        return np.float64(float(q))
    return float(q)


def build_leaf(t, kw=False):
    _, n, p, m, dt, A, B, C, D = t
    f = lambda v, r, c: np.array([float(Fraction(x)) for x in v], dtype=float).reshape(r, c)
    if kw:      # (rus) the documented keyword of the constructor
        return ct.StateSpace(f(A, n, n), f(B, n, m), f(C, p, n), f(D, p, m), dt_value(dt),
                             remove_useless_states=True)
    return ct.StateSpace(f(A, n, n), f(B, n, m), f(C, p, n), f(D, p, m), dt_value(dt))


# >>> rus --------------------------------------------------------------------------------------
RUS_HOW = ("set_defaults", "dict", "legacy", "kw")
RUS_SCOPE = ("ops", "all", "leaves")


class rus_config:
    """`with rus_config(how):` the configuration history that switches the option on; on exit the
    configuration is exactly what it was before (all keys, whatever the library call changed)."""

    def __init__(self, how):
        self.how = how

    def __enter__(self):
        self.saved = dict(ct.config.defaults)
        if self.how == "set_defaults":
            ct.set_defaults("statesp", remove_useless_states=True)
        elif self.how == "dict":
            ct.config.defaults["statesp.remove_useless_states"] = True
        elif self.how == "legacy":
            import warnings
            with warnings.catch_warnings():
                warnings.simplefilter("ignore")
                ct.use_legacy_defaults("0.8.3")
        return self

    def __exit__(self, *exc):
        for k in [k for k in ct.config.defaults if k not in self.saved]:
            del ct.config.defaults[k]
        ct.config.defaults.update(self.saved)
        return False


def rus_of(case):
    """(how, leaves built with the option, operators run with the option)"""
    r = case.get("rus")
    if not r:
        return None, False, False
    how, scope = r
    assert how in RUS_HOW and scope in RUS_SCOPE and (how != "kw" or scope == "leaves"), r
    return how, scope in ("all", "leaves"), scope in ("ops", "all")


def sys_leaves(t, acc=None):
    acc = [] if acc is None else acc
    if t[0] == "L":
        acc.append(t)
    for i in children(t):
        sys_leaves(t[i], acc)
    return acc


def structural(t):
    """a system leaf of the tree has a zero row or a zero column in its state matrix"""
    for lf in sys_leaves(t):
        n, A = lf[1], lf[5]
        for i in range(n):
            if all(Fraction(A[i * n + j]) == 0 for j in range(n)) or \
                    all(Fraction(A[j * n + i]) == 0 for j in range(n)):
                return True
    return False
# <<< rus --------------------------------------------------------------------------------------


def key(t):
    return json.dumps(t, separators=(",", ":"))


def build(t):
    k = t[0]
    if k == "L":
        return build_leaf(t)
    if k == "S":
        return num_value(t[1], t[2])
    vals = [Fraction(x) for x in t[3]]
    if t[4] == "int" and all(v.denominator == 1 for v in vals):
        return np.array([int(v) for v in vals]).reshape(t[1], t[2])
    return np.array([float(v) for v in vals]).reshape(t[1], t[2])


def run_tree(t, leaves=None, nodes=None):
    """Evaluate the tree with the real operators.  OBJECT SHARING: structurally identical leaves
    (systems, arrays, scalars) are built once (`leaves`) and the same Python object is the operand
    at every occurrence; identical subtrees are evaluated once per evaluation (`nodes`) and their
    result object is reused, as in `H = G * K; H + H`.  Passing the same `leaves` to a second call
    re-evaluates the expression on the operand objects the first evaluation has already used."""
    leaves = {} if leaves is None else leaves
    nodes = {} if nodes is None else nodes
    k = t[0]
    ky = key(t)
    if k in ("L", "S", "A"):
        if ky not in leaves:
            leaves[ky] = build(t)
        return leaves[ky]
    if ky in nodes:
        return nodes[ky]
    r = run_node(t, leaves, nodes)
    nodes[ky] = r
    return r


def run_node(t, leaves, nodes):
    k = t[0]
    ev = lambda x: run_tree(x, leaves, nodes)
    if k == "neg":
        return -ev(t[1])
    if k == "negate":
        return ct.negate(ev(t[1]))
    if k in NARY:
        ops = [ev(x) for x in t[1:]]
        return {"series": ct.series, "parallel": ct.parallel, "appendn": ct.append}[k](*ops)
    if k == "pow":
        return ev(t[2]) ** t[1]
    if k == "fb":
        a, b = ev(t[3]), ev(t[4])
        sign = num_value(t[1], "float" if Fraction(t[1]).denominator != 1 else "int")
        if t[2] == "func":
            return ct.feedback(a, b, sign)
        if t[2] in ("method-sign", "func-sign", "method-all", "func-all"):
            if sign != -1 or (t[2].endswith("-all") and t[4] != ["S", "1", "int"]):
                raise AssertionError("harness: default-argument form of feedback with non-default data")
            if t[2] == "func-sign":
                return ct.feedback(a, b)
            if t[2] == "method-sign":
                return a.feedback(b)
            if t[2] == "func-all":
                return ct.feedback(a)
            return a.feedback()
        return a.feedback(b, sign)
    if k == "lft":
        a, b = ev(t[3]), ev(t[4])
        if not isinstance(a, ct.StateSpace):
            raise ValueError("lft: upper operand is not a system")
        if t[1] == -1 and t[2] == -1:
            return a.lft(b)
        if t[2] == -1:
            return a.lft(b, nu=t[1])
        if t[1] == -1:
            return a.lft(b, ny=t[2])
        return a.lft(b, t[1], t[2])
    if k == "sel":
        return ev(t[3])[t[1], t[2]]
    a, b = ev(t[1]), ev(t[2])
    if k == "add":
        return a + b
    if k == "sub":
        return a - b
    if k == "mul":
        return a * b
    if k == "div":
        return a / b
    if k == "append":
        return ct.append(a, b) if not isinstance(a, ct.StateSpace) else a.append(b)
    raise ValueError(k)


def canon_result(r):
    if isinstance(r, ct.StateSpace):
        n, p, m = r.nstates, r.noutputs, r.ninputs
        return {"ok": {"type": "ss", "n": n, "p": p, "m": m, "dt": exact.dt_canon(r.dt),
                       "A": exmat.flat_tokens(exmat.from_np(r.A, n, n)),
                       "B": exmat.flat_tokens(exmat.from_np(r.B, n, m)),
                       "C": exmat.flat_tokens(exmat.from_np(r.C, p, n)),
                       "D": exmat.flat_tokens(exmat.from_np(r.D, p, m))}}
    if isinstance(r, np.ndarray) and r.dtype != object:
        r2 = np.atleast_2d(r)
        return {"ok": {"type": "array", "p": r2.shape[0], "m": r2.shape[1],
                       "v": [tok(fr(x)) for x in r2.flatten()]}}
    if isinstance(r, (int, float, np.number)):
        return {"ok": {"type": "scalar", "v": tok(fr(r))}}
    return {"ok": {"type": "other", "repr": type(r).__name__}}


def mats(o):
    n, p, m = o["n"], o["p"], o["m"]
    return (exmat.from_flat(o["A"], n, n), exmat.from_flat(o["B"], n, m),
            exmat.from_flat(o["C"], p, n), exmat.from_flat(o["D"], p, m))


def one_by_zero(o):
    """B, C or D of the (model) result has shape (1, 0): not representable by the StateSpace
    constructor, whose _ssmatrix turns every (1, 0) array into (0, 0)"""
    return o["type"] == "ss" and ((o["m"] == 0 and 1 in (o["n"], o["p"])) or (o["n"] == 0 and o["p"] == 1))


# ----------------------------------------------------------------------------
# conditioning guard of the well-posedness tests (feedback / lft)
# ----------------------------------------------------------------------------
RANK_MARGIN = 8          # demand an error only when sigma_min <= tol / RANK_MARGIN

def inverting_nodes(t, acc=None):
    acc = [] if acc is None else acc
    if t[0] in TOPS or (t[0] == "pow" and t[1] < 0):
        acc.append(t)
    for i in children(t):
        inverting_nodes(t[i], acc)
    return acc


def leaf_D(t):
    """the float direct term a leaf operand presents to feedback / lft (after
    _convert_to_statespace), or None"""
    if t[0] == "L":
        _, n, p, m, dt, A, B, C, D = t
        return np.array([float(Fraction(x)) for x in D], dtype=float).reshape(p, m)
    if t[0] == "A":
        return np.array([float(Fraction(x)) for x in t[3]], dtype=float).reshape(t[1], t[2])
    return None


def loop_matrix(node):
    """The matrix whose rank decides well-posedness, formed in floating point from the operands'
    float data with the formula the operation is specified by (feedback: I - sign D2 D1; lft:
    [[I, -D22], [-Dbar11, I]]).  None when the node is not a feedback / lft of two leaves of
    matching shapes."""
    if node[0] not in ("fb", "lft"):
        return None
    D1, D2 = leaf_D(node[3]), leaf_D(node[4])
    if D1 is None or D2 is None or node[3][0] != "L":
        return None
    p, m = D1.shape
    if node[0] == "fb":
        if D2.shape != (m, p):
            return None
        sign = num_value(node[1], "float" if Fraction(node[1]).denominator != 1 else "int")
        return np.eye(m) - sign * D2 @ D1
    nu, ny = node[1], node[2]
    if ny == -1:
        ny = min(D2.shape[1], p)
    if nu == -1:
        nu = min(D2.shape[0], m)
    if not (0 <= nu <= min(m, D2.shape[0]) and 0 <= ny <= min(p, D2.shape[1])) or nu + ny == 0:
        return None
    D22, Db11 = D1[p - ny:, m - nu:], D2[:nu, :ny]
    return np.block([[np.eye(ny), -D22], [-Db11, np.eye(nu)]])


def rank_margin(F):
    """sigma_min / (sigma_max * n * eps) of the float matrix F: numpy.linalg.matrix_rank(F) reports
    a deficient rank iff this is <= 1.  A 1x1 matrix is deficient only when it is exactly 0."""
    n = F.shape[0]
    S = np.linalg.svd(F, compute_uv=False)
    if S[0] == 0:
        return 0.0
    return float(S[-1] / (S[0] * n * np.finfo(float).eps))


def rank_demand(t):
    """Decide whether `the model says ill-posed` can be DEMANDED of the implementation although the
    data are not exactly representable.  The exact loop matrix (intended rationals) is singular; the
    implementation sees the rounded data, whose loop matrix is singular only `to working precision`.
    The demand is made when the tree has exactly one inverting operation, it is a feedback / lft of
    two leaves, and the float loop matrix is rank deficient by numpy's own criterion
    (tol = sigma_max * n * eps) with a factor RANK_MARGIN to spare.  Returns the margin or None."""
    inv = inverting_nodes(t)
    if len(inv) != 1:
        return None
    F = loop_matrix(inv[0])
    if F is None or not np.all(np.isfinite(F)):
        return None
    q = rank_margin(F)
    return q if q * RANK_MARGIN <= 1 else None


# >>> bdalg ------------------------------------------------------------------------------------
def is_const(t):
    return t[0] in ("S", "A")


def const_prefix(t):
    """The n-ary calls of the tree whose fold starts on constants only, i.e. before any StateSpace
    code runs: series / parallel whose first TWO operands are scalars / arrays (`M2 * M1`,
    `M1 + M2` are evaluated by Python / NumPy), append whose FIRST operand is one (`M.append`).
    Returns e.g. "series:array,array", "appendn:const-first" (the first such call) or None."""
    if t[0] in ("series", "parallel") and len(t) >= 3 and is_const(t[1]) and is_const(t[2]):
        nm = {"S": "scalar", "A": "array"}
        return "%s:%s,%s" % (t[0], nm[t[1][0]], nm[t[2][0]])
    if t[0] == "appendn" and is_const(t[1]):
        return "appendn:const-first"
    for i in children(t):
        r = const_prefix(t[i])
        if r is not None:
            return r
    return None


def nary_calls(t, acc=None):
    """(fn, number of operands) of every block-diagram function call in the tree"""
    acc = [] if acc is None else acc
    if t[0] in NARY:
        acc.append((t[0], len(t) - 1))
    elif t[0] == "negate":
        acc.append(("negate", 1))
    elif t[0] == "fb" and t[2] != "method":
        acc.append(("feedback:" + t[2], 2))
    for i in children(t):
        nary_calls(t[i], acc)
    return acc
# <<< bdalg ------------------------------------------------------------------------------------


class C02(Family):
    prop = "C02"
    extra_modules = ["CtrlVerif.Props.C02Tree",      # tree theorem (structural induction)
                     "CtrlVerif.Props.C02Glue",      # run-time layer = typed layer, per operator
                     "CtrlVerif.Props.C02GlueTree",  # run-time tree theorem, driver dispatch
                     # source-text tie (notes/NOTES-py2lean-ss.md): Generated/SS*.lean are rewritten from
                     # control/statesp.py of the tree under check and proved equal to the run-time model
                     "CtrlVerif.Props.C02GenBasic", "CtrlVerif.Props.C02GenMul", "CtrlVerif.Props.C02GenAdd",
                     "CtrlVerif.Props.C02GenFeedback", "CtrlVerif.Props.C02GenPow", "CtrlVerif.Props.C02GenLft",
                     "CtrlVerif.Props.C02Gen",
                     "CtrlVerif.Props.C02Bdalg",     # (bdalg) n-ary series / parallel / append folds
                     "CtrlVerif.Props.C02Rus"]       # (rus) the option remove_useless_states keeps every value

    def pre_build(self):
        import os
        from core import py2lean_ss, leanproj
        problems, self.gen_info = py2lean_ss.regenerate(os.environ.get("VERIF_REPO") or "/repo", leanproj.LEAN)
        return problems
    externals = ["numpy.linalg.solve / scipy.linalg.inv / matrix_rank (the model uses det != 0 and "
                 "the certified inverse det^-1 * adjugate)",
                 "numpy.linalg.svd in the harness (conditioning guard of the rank tests: an error is "
                 "demanded for non-representable ill-posed data only when the float loop matrix is "
                 "rank deficient by matrix_rank's own tolerance with a factor 8 to spare)"]
    assumptions = [
        "IEEE arithmetic is exact on the generated small-integer matrices for + - * neg append "
        "indexing (checked: exact equality required when the model's largest intermediate is "
        "below 2^50); results of feedback / inversion / division and of any operation on "
        "non-integer data are compared to 1e-8 relative",
        "an ill-posed loop given by decimal data that binary floating point cannot represent is "
        "singular only to working precision for the implementation: the error is demanded when "
        "sigma_min(F) <= sigma_max(F) * n * eps / 8 for the float loop matrix F formed from the "
        "rounded operands by the specified formula (numpy's SVD, same process); otherwise, and "
        "for ** -1 / division by such a direct term (scipy.linalg.inv raises only on an exactly "
        "zero pivot), nothing is demanded",
        "structurally identical leaves of a tree are one Python object (operands are re-used), "
        "identical subtrees are evaluated once, and every tree is evaluated twice on the same "
        "operand objects; the model's values are immutable, so its result is the same each time",
        "control.series / parallel / append are compared with the model's left fold of the binary "
        "operators in call order (Model/C02Bdalg.lean; the fold on evaluated operands is the "
        "evaluation of the fold tree: C02.Bd.bdalg_eq_eval); a leading constant followed by another "
        "constant is the static gain it stands for (DSS.bdSeed) - where python-control evaluates "
        "`M2 * M1` / `M.append` with NumPy instead, the difference is reported (two known findings)",
        "option remove_useless_states (cases with the key `rus`): the model's program applies the rule "
        "(Convert.removeUseless, exact zero tests) after every leaf / every node whose evaluation ends in "
        "a StateSpace(...) call; the code also applies it at constructor calls inside an operator and "
        "tests floats, so a result is accepted when it is the model's realisation, or has the model's "
        "transfer matrix at 2n+1 non-zero rational points (C02.Rus.construct_resp: no value changes at "
        "s != 0) with - on exact data - not more states than the model's program leaves; the harness "
        "restores config.defaults after every evaluation",
        "TransferFunction operands of StateSpace operators go through tf2ss, which is C03",
        "the timebase of results is decided by C05; C02 uses operands with compatible timebases"]
    rule = ("random expression trees over StateSpace leaves (nstates 0..3, shapes {1,2,3}^2, integer "
            "matrices -3..3, D zero or not), Python/NumPy scalars and arrays on either side, "
            "operators + - * / neg ** feedback lft append indexing (lft: every nu/ny partition with "
            "nu+ny <= 4 of upper/lower shapes up to 4x4, explicit and default (-1) arguments, zero and "
            "non-zero D22 / Dbar11, exactly singular F, out-of-range nu/ny); trees whose leaves come "
            "from a small pool so that the same operand object is used several times, and "
            "(G op X) op G patterns with X a scalar / array / system on either side; every tree "
            "evaluated twice on the same operand objects; MIMO feedback loops and lft partitions that "
            "are ill-posed for finite-decimal data not representable in binary (and well-posed "
            "neighbours), ** -1 / division by such direct terms, and inversion-free arithmetic on "
            "one-decimal data; calls of the block-diagram functions control.series / parallel / append "
            "with 1..5 operands (square MIMO chains of non-commuting factors, non-square chains "
            "k0 -> k1 -> ... -> kn, systems with and without states, arrays, scalars and SISO systems "
            "broadcast anywhere in the call, the same system object several times), control.negate, "
            "control.feedback / StateSpace.feedback with explicit and default sign / feedback path and "
            "a constant forward path, alone, nested in the random trees and as operands of each other; "
            "calls whose fold starts on two constants; operands with structural zeros (integrator banks, "
            "strictly triangular chains, zero rows / columns of A, zero rows of B, zero columns of C in "
            "every combination) in products / series / sums / feedback / indexing / append / powers, "
            "evaluated with the option remove_useless_states off and on - switched on by set_defaults, "
            "by the config.defaults entry, by use_legacy_defaults('0.8.3') or by the constructor keyword, "
            "for the operators only, for operands and operators, or for the operands only; "
            "a case is non-trivial when it has a "
            "leaf with states, at least one binary operator or feedback, and the model result has "
            "states; distinct = distinct canonical serialisation")

    # ---- generation -------------------------------------------------------
    def rint(self, rng, lo=-3, hi=3):
        return rng.randint(lo, hi)

    _pool = None          # operand pool (dict) while a tree with re-used operands is generated
    _ops = None           # restriction of the operator set of `gen` (None: all)
    _decimal = False      # leaves / arrays with one-decimal (non-dyadic) data
    _sparse = False       # (rus) leaves with structural zeros: zero rows / columns of A, B, C

    def pooled(self, rng, k, make):
        """operand pool: with probability 0.6 an operand generated earlier for the same tree (same
        kind / shape / requirements) is used again - structurally identical leaves are ONE object
        in `run_tree` - otherwise a new one is made and remembered"""
        if self._pool is None:
            return make()
        have = self._pool.setdefault(k, [])
        if have and rng.random() < 0.6:
            return copy.deepcopy(rng.choice(have))
        x = make()
        have.append(x)
        return copy.deepcopy(x)

    def leaf(self, rng, shape, dt, invertible=False, n=None):
        return self.pooled(rng, ("L", tuple(shape), bool(invertible), n),
                           lambda: self.leaf_new(rng, shape, dt, invertible, n))

    def leaf_new(self, rng, shape, dt, invertible=False, n=None):
        p, m = shape
        if n is None:
            n = rng.choice([0, 1, 1, 2, 2, 3])
        for _ in range(50):
            A = [self.rint(rng) for _ in range(n * n)]
            B = [self.rint(rng) for _ in range(n * m)]
            C = [self.rint(rng) for _ in range(p * n)]
            if rng.random() < 0.35 and not invertible:
                D = [0] * (p * m)
            else:
                D = [self.rint(rng) for _ in range(p * m)]
            if invertible and p == m and exmat.det(exmat.from_flat(D, p, m)) == 0:
                continue
            break
        if self._sparse and n > 0 and rng.random() < 0.85:
            A, B, C = self.sparsify(rng, n, p, m, A, B, C)
        if self._decimal:            # one-decimal data: not representable, every operation rounds
            dec = lambda v: [Fraction(10 * x + rng.randint(-4, 4), 10) for x in v]
            A, B, C = dec(A), dec(B), dec(C)
            if any(D) and not invertible:
                D = dec(D)
        elif rng.random() < 0.12:      # dyadic non-integers
            B = [Fraction(x, 2) for x in B]
        ldt = dt if rng.random() < 0.8 else "N"
        s = lambda v: [tok(Fraction(x)) for x in v]
        return ["L", n, p, m, ldt, s(A), s(B), s(C), s(D)]

    def scalar(self, rng, nonzero=False):
        if self._decimal:
            v = rng.choice([x for x in range(-34, 35) if x % 5 or not nonzero and x == 0])
            return ["S", tok(Fraction(v, 10)), rng.choice(["float", "npfloat"])]
        kind = rng.choice(["int", "float", "npfloat", "npint"])
        v = rng.choice([-3, -2, -1, 1, 2, 3] + ([] if nonzero else [0]))
        if kind in ("float", "npfloat") and rng.random() < 0.4:
            return ["S", tok(Fraction(v, 2)), kind]
        return ["S", str(v), kind]

    def array(self, rng, shape):
        return self.pooled(rng, ("A", tuple(shape)), lambda: self.array_new(rng, shape))

    def array_new(self, rng, shape):
        p, m = shape
        if self._decimal:
            return ["A", p, m, [tok(Fraction(rng.randint(-34, 34), 10)) for _ in range(p * m)], "float"]
        return ["A", p, m, [str(rng.randint(-3, 3)) for _ in range(p * m)], rng.choice(["int", "float"])]

    def rshape(self, rng):
        return (rng.choice([1, 1, 2, 2, 3]), rng.choice([1, 1, 2, 2, 3]))

    def gen(self, rng, depth, shape, dt, invertible=False):
        p, m = shape
        if depth <= 0 or rng.random() < 0.2 or invertible:
            return self.leaf(rng, shape, dt, invertible)
        ops = ["add", "add", "sub", "mul", "mul", "neg", "sel", "fb", "fb", "div", "lft", "lft"]
        if p == m:
            ops += ["pow", "pow"]
        if p >= 2 and m >= 2:
            ops += ["append", "append"]
        # >>> bdalg: the block-diagram functions as operators of the random trees
        ops += ["series", "parallel", "negate", "fbcall"]
        if p >= 2 and m >= 2:
            ops += ["appendn"]
        # <<< bdalg
        if self._ops is not None:
            ops = [o for o in ops if o in self._ops]
        op = rng.choice(ops)
        d = depth - 1
        bad = rng.random() < 0.04
        # >>> bdalg
        if op == "series":
            return self.series_call(rng, dt, shape, min(d, 1), n=rng.choice([1, 2, 3, 3, 4]), bad=bad)
        if op == "parallel":
            return self.parallel_call(rng, dt, shape, min(d, 1), n=rng.choice([1, 2, 3, 3, 4]), bad=bad)
        if op == "appendn":
            return self.append_call(rng, dt, shape, min(d, 1))
        if op == "negate":
            return [op, self.gen(rng, d, shape, dt)]
        if op == "fbcall":
            return self.feedback_call(rng, dt, shape, min(d, 1))
        # <<< bdalg
        if op in ("add", "sub"):
            r = rng.random()
            other = self.rshape(rng) if bad else shape
            if r < 0.5:
                return [op, self.gen(rng, d, shape, dt), self.gen(rng, d, other, dt)]
            if r < 0.6:
                return [op, self.gen(rng, d, shape, dt), self.gen(rng, d, (1, 1), dt)]
            if r < 0.7:
                return [op, self.gen(rng, d, (1, 1), dt), self.gen(rng, d, shape, dt)]
            x = self.scalar(rng) if rng.random() < 0.4 else self.array(rng, other)
            if r < 0.85:
                return [op, self.gen(rng, d, shape, dt), x]
            return [op, x, self.gen(rng, d, shape, dt)]
        if op == "mul":
            k = rng.choice([1, 2, 2, 3])
            k2 = rng.choice([1, 2, 3]) if bad else k
            r = rng.random()
            if r < 0.5:
                return [op, self.gen(rng, d, (p, k), dt), self.gen(rng, d, (k2, m), dt)]
            if r < 0.6:
                return [op, self.gen(rng, d, shape, dt), self.gen(rng, d, (1, 1), dt)]
            if r < 0.7:
                return [op, self.gen(rng, d, (1, 1), dt), self.gen(rng, d, shape, dt)]
            if r < 0.78:
                return [op, self.gen(rng, d, shape, dt), self.scalar(rng)]
            if r < 0.86:
                return [op, self.scalar(rng), self.gen(rng, d, shape, dt)]
            if r < 0.93:
                return [op, self.gen(rng, d, (p, k), dt), self.array(rng, (k2, m))]
            return [op, self.array(rng, (p, k)), self.gen(rng, d, (k2, m), dt)]
        if op == "neg":
            return [op, self.gen(rng, d, shape, dt)]
        if op == "div":
            r = rng.random()
            if r < 0.4:
                return [op, self.gen(rng, d, shape, dt), self.scalar(rng, nonzero=rng.random() < 0.9)]
            if r < 0.8:
                return [op, self.gen(rng, d, shape, dt), self.leaf(rng, (1, 1), dt, rng.random() < 0.9)]
            if r < 0.9 and p == m:
                x = self.scalar(rng) if rng.random() < 0.5 else self.array(rng, shape)
                return [op, x, self.leaf(rng, shape, dt, True)]
            return [op, self.gen(rng, d, shape, dt), self.leaf(rng, (m, m) if not bad else (m, m + 1), dt, True)]
        if op == "pow":
            k = rng.choice([-2, -1, -1, 0, 1, 2, 2, 3])
            if k < 0:
                return [op, k, self.leaf(rng, shape, dt, rng.random() < 0.9)]
            return [op, k, self.gen(rng, min(d, 1), shape, dt)]
        if op == "fb":
            sign = rng.choice(["-1", "-1", "1", "1", "2", "-1/2"])
            via = rng.choice(["method", "func"])
            back = (m, p) if not bad else self.rshape(rng)
            r = rng.random()
            if r < 0.75:
                other = self.gen(rng, min(d, 1), back, dt)
            elif r < 0.85 and shape == (1, 1):
                other = self.scalar(rng)
            else:
                other = self.array(rng, back)
            return [op, sign, via, self.gen(rng, d, shape, dt), other]
        if op == "lft":
            return self.lft_node(rng, d, shape, dt, bad)
        if op == "sel":
            P, M = p + rng.choice([0, 1]), m + rng.choice([0, 1])
            rows = rng.sample(range(P), p)
            cols = rng.sample(range(M), m)
            # out-of-range selectors belong to C17
            return [op, rows, cols, self.gen(rng, d, (P, M), dt)]
        if op == "append":
            p1, m1 = rng.randint(1, p - 1), rng.randint(1, m - 1)
            b = self.gen(rng, d, (p - p1, m - m1), dt) if rng.random() < 0.8 else \
                self.array(rng, (p - p1, m - m1))
            return [op, self.gen(rng, d, (p1, m1), dt), b]
        raise AssertionError(op)

    def lft_parts(self, rng, shape):
        """(nu, ny, shape of the upper system, shape of the lower system) for a result of the
        given shape: result outputs = (p_G - ny) + (p_H - nu), inputs = (m_G - nu) + (m_H - ny)"""
        p, m = shape
        for _ in range(300):
            nu, ny = rng.choice([0, 1, 1, 2, 2, 3]), rng.choice([0, 1, 1, 2, 2, 3])
            p1, m1 = rng.randint(0, p), rng.randint(0, m)
            gs, hs = (p1 + ny, m1 + nu), (p - p1 + nu, m - m1 + ny)
            if nu + ny <= 4 and min(gs + hs) >= 1 and max(gs + hs) <= 4:
                return nu, ny, gs, hs
        return 1, 1, (p // 2 + 1, m // 2 + 1), (p - p // 2 + 1, m - m // 2 + 1)

    def lft_args(self, rng, nu, ny, gs, hs, bad=False):
        """the nu / ny arguments: -1 where the value is the default, out-of-range when `bad`"""
        a_nu = -1 if nu == min(hs[0], gs[1]) and rng.random() < 0.4 else nu
        a_ny = -1 if ny == min(hs[1], gs[0]) and rng.random() < 0.4 else ny
        if bad:
            if rng.random() < 0.5:
                a_nu = rng.choice([nu + 1, nu + 2, min(hs[0], gs[1]) + 1, max(hs[0], gs[1]) + 1, -2, -3])
            else:
                a_ny = rng.choice([ny + 1, ny + 2, min(hs[1], gs[0]) + 1, max(hs[1], gs[0]) + 1, -2, -3])
        return a_nu, a_ny

    def lft_node(self, rng, d, shape, dt, bad=False):
        nu, ny, gs, hs = self.lft_parts(rng, shape)
        a_nu, a_ny = self.lft_args(rng, nu, ny, gs, hs, bad)
        x = self.gen(rng, min(d, 1), gs, dt)
        r = rng.random()
        if r < 0.8:
            y = self.gen(rng, min(d, 1), hs, dt)
        elif r < 0.9 and hs == (1, 1):
            y = self.scalar(rng)
        else:
            y = self.array(rng, hs)
        return ["lft", a_nu, a_ny, x, y]

    def lft_special(self, rng, dt):
        """leaves only: every partition of shapes up to 4x4 (nu + ny <= 4), zero / non-zero D22 and
        Dbar11, ill-posed F, invalid partitions"""
        gs = (rng.randint(1, 3), rng.randint(1, 3))
        hs = (rng.randint(1, 3), rng.randint(1, 3))
        if rng.random() < 0.25:
            gs, hs = (rng.randint(1, 4), rng.randint(1, 4)), (rng.randint(1, 4), rng.randint(1, 4))
        for _ in range(100):
            nu, ny = rng.randint(0, min(gs[1], hs[0])), rng.randint(0, min(gs[0], hs[1]))
            if nu + ny <= 4:
                break
        else:
            nu, ny = 1, 1
        ng = rng.choice([0, 1, 1, 2, 2, 3])
        nh = rng.choice([0, 1, 1, 2, 2, 3])
        g = self.leaf(rng, gs, dt, n=ng)
        h = self.leaf(rng, hs, dt, n=nh)
        r = rng.random()
        Dg, Dh = exmat.from_flat(g[8], *gs), exmat.from_flat(h[8], *hs)
        if r < 0.2:           # D22 = 0 (strictly proper from u to y)
            for i in range(gs[0] - ny, gs[0]):
                for j in range(gs[1] - nu, gs[1]):
                    Dg[i][j] = Fraction(0)
        elif r < 0.3:         # Dbar11 = 0
            for i in range(nu):
                for j in range(ny):
                    Dh[i][j] = Fraction(0)
        elif r < 0.55 and nu >= 1 and ny >= 1:      # ill-posed: det(I - D22 Dbar11) = 0
            i, j = rng.randrange(ny), rng.randrange(nu)
            c = Fraction(rng.choice([1, -1, 2, -2]))
            if all(x == 0 for row in Dg for x in row):
                Dg = [[Fraction(rng.randint(-3, 3)) for _ in row] for row in Dg]
            Dg[gs[0] - ny + i][gs[1] - nu + j] = c
            for a in range(nu):
                for b in range(ny):
                    Dh[a][b] = Fraction(0)
            Dh[j][i] = 1 / c
        g[8], h[8] = exmat.flat_tokens(Dg), exmat.flat_tokens(Dh)
        a_nu, a_ny = self.lft_args(rng, nu, ny, gs, hs, bad=rng.random() < 0.08)
        return ["lft", a_nu, a_ny, g, h]

    # ---- non-representable (decimal) data ------------------------------------------------
    def dec(self, rng, mode):
        if mode == 0:
            return Fraction(rng.randint(-29, 29), 10)
        if mode == 1:
            return Fraction(rng.randint(-9, 9), 10)
        if mode == 2:
            return Fraction(rng.randint(-3, 3))
        return Fraction(rng.randint(-99, 99), 100)

    def eig1_pair(self, rng, p, m, s):
        """D1 (p x m), D2 (m x p) with finite-decimal entries (most of them not representable in
        binary) such that  s * D2 * D1 * v = v  for an integer vector v != 0, i.e. the loop matrix
        I - s D2 D1 is exactly singular for the intended data."""
        md1, md2 = rng.choice([0, 0, 1, 2, 3]), rng.choice([0, 1, 2, 2, 3])
        while True:
            v = [rng.randint(-2, 2) for _ in range(m)]
            js = [j for j in range(m) if abs(v[j]) == 1]
            if js:
                break
        j0 = rng.choice(js)
        ent = lambda md: self.dec(rng, md) if rng.random() < 0.8 else Fraction(rng.randint(-3, 3))
        D1 = [[ent(md1) for _ in range(m)] for _ in range(p)]
        k0 = rng.randrange(p)
        t = Fraction(rng.choice(["1", "-1", "2", "-2", "1/2", "-1/2"]))
        D1[k0][j0] = (t - sum(D1[k0][j] * v[j] for j in range(m) if j != j0)) / v[j0]
        w = [sum(D1[k][j] * v[j] for j in range(m)) for k in range(p)]
        D2 = [[ent(md2) for _ in range(p)] for _ in range(m)]
        for i in range(m):
            D2[i][k0] = (Fraction(v[i]) / s - sum(D2[i][k] * w[k] for k in range(p) if k != k0)) / t
        return D1, D2

    def stoch_pair(self, rng, m, s):
        """D2 = I and D1 = (I - F) / s with F = rows orthogonal to an integer vector (the loop of
        the kind D1 = [[0.7, 0.3], [0.1, 0.9]], D2 = I, sign = +1)"""
        while True:
            v = [rng.choice([-2, -1, 1, 1, 2]) for _ in range(m)]
            js = [j for j in range(m) if abs(v[j]) == 1]
            if js:
                break
        j0 = rng.choice(js)
        F = [[self.dec(rng, rng.choice([0, 1])) for _ in range(m)] for _ in range(m)]
        for i in range(m):
            F[i][j0] = -sum(F[i][j] * v[j] for j in range(m) if j != j0) / v[j0]
        D1 = exmat.scale(1 / s, exmat.sub(exmat.eye(m), F))
        return D1, exmat.eye(m)

    def static_or_dynamic(self, rng, shape, dt, D, kinds=("L", "L", "L0", "A")):
        """an operand with the given direct term: system with states, static system, or ndarray"""
        k = rng.choice(kinds)
        if k == "A":
            return ["A", shape[0], shape[1], exmat.flat_tokens(D), "float"]
        g = self.leaf_new(rng, shape, dt, n=0 if k == "L0" else rng.choice([1, 1, 2, 3]))
        g[8] = exmat.flat_tokens(D)
        return g

    def loop_decimal(self, rng, dt, wellposed=False):
        """MIMO feedback loop (F is m x m, m >= 2; the plant may be non-square, p = 1..3) whose
        loop matrix is exactly singular for the intended decimal data; with `wellposed` the
        forward direct term is scaled so that the loop is comfortably well-posed."""
        for _ in range(200):
            m, p = rng.choice([2, 2, 3]), rng.choice([1, 2, 2, 3, 3])
            sign = rng.choice(["1", "-1", "1", "-1", "2", "-1/2"])
            if rng.random() < 0.3:
                p = m
                D1, D2 = self.stoch_pair(rng, m, Fraction(sign))
            else:
                D1, D2 = self.eig1_pair(rng, p, m, Fraction(sign))
            if wellposed:
                D1 = exmat.scale(Fraction(rng.choice(["1/2", "-1", "3/2", "2", "-1/2", "3"])), D1)
            F = exmat.sub(exmat.eye(m), exmat.scale(Fraction(sign), exmat.mul(D2, D1)))
            g = self.static_or_dynamic(rng, (p, m), dt, D1, kinds=("L", "L", "L", "L0"))
            h = self.static_or_dynamic(rng, (m, p), dt, D2)
            t = ["fb", sign, rng.choice(["method", "func"]), g, h]
            if wellposed:
                Fi = exmat.solve(F, exmat.eye(m))
                if Fi is None or exmat.maxabs(Fi) > 20:
                    continue
                return t
            if rank_demand(t) is not None or rng.random() < 0.1:
                return t
        return t

    def lft_decimal(self, rng, dt, wellposed=False):
        """lft whose loop matrix [[I, -D22], [-Dbar11, I]] is exactly singular for the intended
        decimal data (nu, ny >= 1, nu + ny <= 4; also the SISO loop nu = ny = 1, where F is 2 x 2)"""
        for _ in range(200):
            nu, ny = rng.choice([1, 1, 2]), rng.choice([1, 1, 2])
            gs = (ny + rng.choice([0, 1, 1, 2]), nu + rng.choice([0, 1, 1, 2]))
            hs = (nu + rng.choice([0, 0, 1]), ny + rng.choice([0, 0, 1]))
            if max(gs + hs) > 4 or gs[1] - nu + hs[1] - ny < 1 or gs[0] - ny + hs[0] - nu < 1:
                continue          # (results without inputs / outputs: known finding one-by-zero)
            Db11, D22 = self.eig1_pair(rng, nu, ny, Fraction(1))     # D22 * Dbar11 * v = v
            if wellposed:
                D22 = exmat.scale(Fraction(rng.choice(["1/2", "-1", "3/2", "2", "-1/2", "3"])), D22)
            F = exmat.sub(exmat.eye(ny), exmat.mul(D22, Db11))
            g = self.leaf_new(rng, gs, dt, n=rng.choice([0, 1, 1, 2]))
            Dg = exmat.from_flat(g[8], *gs)
            Dg = [[self.dec(rng, 0) if rng.random() < 0.5 else x for x in row] for row in Dg]
            for i in range(ny):
                for j in range(nu):
                    Dg[gs[0] - ny + i][gs[1] - nu + j] = D22[i][j]
            g[8] = exmat.flat_tokens(Dg)
            Dh = [[self.dec(rng, 0) if rng.random() < 0.5 else Fraction(rng.randint(-3, 3))
                   for _ in range(hs[1])] for _ in range(hs[0])]
            for i in range(nu):
                for j in range(ny):
                    Dh[i][j] = Db11[i][j]
            h = self.static_or_dynamic(rng, hs, dt, Dh)
            a_nu, a_ny = self.lft_args(rng, nu, ny, gs, hs)
            t = ["lft", a_nu, a_ny, g, h]
            if wellposed:
                Fi = exmat.solve(F, exmat.eye(ny))
                if Fi is None or exmat.maxabs(Fi) > 20:
                    continue
                return t
            if rank_demand(t) is not None or rng.random() < 0.1:
                return t
        return t

    def inverse_decimal(self, rng, dt):
        """** -1 / division by a system whose direct term is exactly singular for the intended
        decimal data.  Nothing can be demanded of the implementation here (scipy.linalg.inv raises
        only on an exactly zero pivot of the rounded data): the case documents the input class and
        checks that nothing else goes wrong."""
        p = rng.choice([2, 2, 3])
        D, _ = self.stoch_pair(rng, p, Fraction(1))
        D = exmat.sub(exmat.eye(p), D)               # rows orthogonal to v: singular
        g = self.leaf_new(rng, (p, p), dt)
        g[8] = exmat.flat_tokens(D)
        if rng.random() < 0.6:
            return ["pow", rng.choice([-1, -1, -2]), g]
        x = self.leaf_new(rng, (rng.choice([1, 2, 3]), p), dt) if rng.random() < 0.6 else self.scalar(rng)
        return ["div", x, g]

    def gen_decimal(self, rng, dt):
        """arithmetic without inversion on one-decimal data (every operation rounds: tolerance
        regime), operands re-used"""
        self._decimal, self._pool = True, {}
        self._ops = ("add", "sub", "mul", "neg", "sel", "append", "pow",
                     "series", "parallel", "appendn", "negate")       # (bdalg)
        try:
            shape = self.rshape(rng)
            t = self.gen(rng, rng.choice([1, 2, 2]), shape, dt)
        finally:
            self._decimal, self._pool, self._ops = False, None, None
        return t

    # ---- operand re-use (object sharing) -----------------------------------------------------
    def gen_shared(self, rng, depth, dt):
        """a random tree whose leaves are drawn from a small pool: the same operand object takes
        part in several operations of one expression (all operators, scalars / arrays / systems
        on either side)"""
        self._pool = {}
        try:
            k = rng.choice([1, 2, 2, 3])
            shape = (k, k) if rng.random() < 0.6 else self.rshape(rng)
            return self.gen(rng, depth, shape, dt)
        finally:
            self._pool = None

    def reuse_pattern(self, rng, dt):
        """(G op1 X) op2 G ...: an operand is used again after it took part in an operation with a
        scalar / array / system on either side"""
        sq = rng.random() < 0.5
        k = rng.choice([1, 2, 2, 3])
        shape = (k, k) if sq else rng.choice([(2, 3), (3, 2), (1, 2), (2, 1), (1, 3), (2, 2), (3, 3)])
        p, m = shape
        G = self.leaf_new(rng, shape, dt, n=rng.choice([0, 1, 1, 2, 2]))
        if not any(Fraction(x) for x in G[8]) and rng.random() < 0.7:
            G[8] = [str(rng.randint(-3, 3)) for _ in range(p * m)]
        kind = rng.choice(["scalar", "array", "array", "sys", "sys", "siso"])
        if kind == "scalar":
            X = self.scalar(rng, nonzero=True)
        elif kind == "array":
            X = self.array_new(rng, shape)
        elif kind == "siso":
            X = self.leaf_new(rng, (1, 1), dt, n=rng.choice([0, 1, 2]))
        else:
            X = self.leaf_new(rng, shape, dt)
        firsts = [["add", G, X], ["add", X, G], ["sub", G, X], ["sub", X, G], ["add", G, X], ["sub", G, X]]
        if kind in ("scalar", "siso"):
            firsts += [["mul", G, X], ["mul", X, G]]
            if kind == "scalar":
                firsts += [["div", G, X]]
        if kind == "array":
            firsts += [["mul", G, self.array_new(rng, (m, m))], ["mul", self.array_new(rng, (p, p)), G]]
        if kind == "sys" and p == m:
            firsts += [["mul", G, X], ["mul", X, G]]
        if kind in ("array", "sys"):
            K = self.array_new(rng, (m, p)) if kind == "array" else self.leaf_new(rng, (m, p), dt)
            firsts += [["fb", rng.choice(["1", "-1"]), rng.choice(["method", "func"]), G, K]]
        firsts += [["neg", G]]
        if p == m:
            firsts += [["pow", rng.choice([1, 1, 2]), G]]
        first = rng.choice(firsts)
        seconds = [["sub", first, G], ["add", first, G], ["sub", G, first], ["add", G, first],
                   ["append", first, G], ["append", G, first]]
        if p == m:
            seconds += [["mul", first, G], ["mul", G, first]]
        Kb = self.leaf_new(rng, (m, p), dt, n=rng.choice([0, 1]))
        seconds += [["fb", "-1", "method", first, Kb], ["mul", ["mul", first, Kb], G]]
        second = rng.choice(seconds)
        r = rng.random()
        if r < 0.35 and second[0] != "append":
            return [rng.choice(["add", "sub"]), second, X]           # ... and the partner once more
        if r < 0.5:
            return [rng.choice(["add", "sub"]), second, first]       # the intermediate result re-used
        return second

    # >>> bdalg: control.series / parallel / append / negate / feedback ---------------------------
    def bd_operand(self, rng, shape, dt, d=0, consts=True):
        """an operand of a block-diagram function: mostly a system with states, else a static
        system, an ndarray (when `consts`), or a small sub-expression"""
        r = rng.random()
        if r < 0.55:
            return self.leaf(rng, shape, dt, n=rng.choice([1, 1, 2, 2, 3]))
        if r < 0.65:
            return self.leaf(rng, shape, dt, n=0)
        if r < 0.8 and consts:
            return self.array(rng, shape)
        if d > 0:
            return self.gen(rng, d, shape, dt)
        return self.leaf(rng, shape, dt)

    def bd_small(self, rng, dt):
        """a 1 x 1 operand that the operators broadcast: Python / NumPy scalar or SISO system"""
        if rng.random() < 0.5:
            return self.scalar(rng)
        return self.leaf(rng, (1, 1), dt, n=rng.choice([0, 1, 1, 2]))

    def bd_fix_head(self, rng, ops, shapes, dt):
        """a StateSpace among the first two operands (first operand for append): the fold then
        runs on StateSpace operators from its first step (the other case is `bd_const_prefix`)"""
        if not any(not is_const(x) for x in ops[:2]):
            i = rng.randrange(min(2, len(ops)))
            if shapes[i] is None:
                ops[i] = self.leaf(rng, (1, 1), dt, n=rng.choice([0, 1, 2]))
            else:
                ops[i] = self.leaf(rng, shapes[i], dt, n=rng.choice([0, 1, 1, 2]))
        return ops

    def series_call(self, rng, dt, shape, d=0, n=None, bad=False):
        """series(x1, ..., xn) of shape p x m: the signal dimensions chain m = k0 -> k1 -> ... ->
        kn = p, xi is k_i x k_(i-1); square MIMO chains (non-commuting factors), non-square
        chains, 1 x 1 operands broadcast anywhere in the chain"""
        p, m = shape
        if n is None:
            n = rng.choice([1, 2, 3, 3, 3, 4, 4, 5])
        if p == m and rng.random() < 0.5:
            dims = [p] * (n + 1)
        else:
            dims = [m] + [rng.choice([1, 2, 2, 3, 3]) for _ in range(n - 1)] + [p]
        if n == 1:
            dims = [m, p]
        shapes = [(dims[i + 1], dims[i]) for i in range(n)]
        if bad:
            i = rng.randrange(n)
            shapes[i] = (shapes[i][0] + rng.choice([0, 1]), shapes[i][1] + 1)
        ops = [self.bd_operand(rng, sh, dt, d) for sh in shapes]
        if rng.random() < 0.25:        # a scalar / SISO factor somewhere in the chain
            i = rng.randrange(n + 1)
            ops.insert(i, self.bd_small(rng, dt))
            shapes.insert(i, None)
        return ["series"] + self.bd_fix_head(rng, ops, shapes, dt)

    def parallel_call(self, rng, dt, shape, d=0, n=None, bad=False):
        if n is None:
            n = rng.choice([1, 2, 3, 3, 3, 4, 5])
        shapes = [shape] * n
        if bad:
            shapes[rng.randrange(n)] = (shape[0] + rng.choice([0, 1]), shape[1] + 1)
        ops = [self.bd_operand(rng, sh, dt, d) for sh in shapes]
        if rng.random() < 0.25:        # a scalar / SISO summand (added to every entry)
            i = rng.randrange(n + 1)
            ops.insert(i, self.bd_small(rng, dt))
            shapes.insert(i, None)
        return ["parallel"] + self.bd_fix_head(rng, ops, shapes, dt)

    def append_call(self, rng, dt, shape, d=0, n=None):
        """append(x1, ..., xn) of shape p x m: p and m split into n positive parts"""
        p, m = shape
        if n is None:
            n = rng.randint(1, min(p, m, 4))
        def parts(tot):
            cs = sorted(rng.sample(range(1, tot), n - 1))
            return [b - a for a, b in zip([0] + cs, cs + [tot])]
        ps, ms = parts(p), parts(m)
        shapes = list(zip(ps, ms))
        ops = []
        for sh in shapes:
            if sh == (1, 1) and rng.random() < 0.2:
                ops.append(self.scalar(rng))
            else:
                ops.append(self.bd_operand(rng, sh, dt, d))
        if is_const(ops[0]):
            ops[0] = self.leaf(rng, shapes[0], dt, n=rng.choice([0, 1, 1, 2]))
        return ["appendn"] + ops

    def feedback_call(self, rng, dt, shape, d=0):
        """control.feedback / StateSpace.feedback in their call forms: explicit arguments, default
        sign, default feedback path (sys2 = 1) - and a scalar / array forward path (function form
        with a state-space feedback path)"""
        p, m = shape
        via = rng.choice(FB_VIA + (("method-all", "func-all") if shape == (1, 1) else ()))
        if via.endswith("-all") and shape != (1, 1) and rng.random() < 0.9:
            # the default feedback path is the scalar 1: a SISO loop (MIMO: both sides reject it)
            via = via[:-4] + "-sign"
        if via.endswith("-all"):
            return ["fb", "-1", via, self.bd_operand(rng, (p, m), dt, d, consts=False), ["S", "1", "int"]]
        sign = "-1" if via.endswith("-sign") else rng.choice(["-1", "1", "1", "2", "-1/2"])
        if via.startswith("func") and rng.random() < 0.4:
            # constant forward path: converted by bdalg.feedback; the path back is a system
            g = self.scalar(rng) if (p, m) == (1, 1) and rng.random() < 0.5 else self.array(rng, (p, m))
            k = self.leaf(rng, (m, p), dt, n=rng.choice([0, 1, 1, 2]))
            return ["fb", sign, via, g, k]
        g = self.bd_operand(rng, (p, m), dt, d, consts=False)
        r = rng.random()
        if r < 0.7:
            k = self.bd_operand(rng, (m, p), dt, 0, consts=False)
        elif r < 0.8 and (p, m) == (1, 1):
            k = self.scalar(rng)
        else:
            k = self.array(rng, (m, p))
        return ["fb", sign, via, g, k]

    def bd_call(self, rng, dt, shape=None, d=0):
        """one call of a block-diagram function (the dedicated stream)"""
        r = rng.random()
        bad = rng.random() < 0.05
        if r < 0.4:
            if shape is None:
                k = rng.choice([2, 2, 3])
                shape = (k, k) if rng.random() < 0.45 else self.rshape(rng)
            return self.series_call(rng, dt, shape, d, bad=bad)
        if shape is None:
            shape = self.rshape(rng)
        if r < 0.6:
            return self.parallel_call(rng, dt, shape, d, bad=bad)
        if r < 0.75:
            if min(shape) < 2 and rng.random() < 0.7:
                shape = (rng.choice([2, 3, 4, 4]), rng.choice([2, 3, 4, 4]))
            return self.append_call(rng, dt, shape, d, n=rng.randint(max(1, min(shape) - 2), min(shape)))
        if r < 0.82:
            return ["negate", self.bd_operand(rng, shape, dt, d, consts=False)]
        if rng.random() < 0.35:
            shape = (1, 1)
        return self.feedback_call(rng, dt, shape, d)

    def gen_bdalg(self, rng, dt):
        """the dedicated stream: a call, operands from a pool in a third of the cases (the same
        system object several times in one call), sometimes used further in an expression"""
        self._pool = {} if rng.random() < 0.35 else None
        try:
            t = self.bd_call(rng, dt, d=rng.choice([0, 0, 0, 1]))
            r = rng.random()
            if r < 0.12:
                t = ["neg", t]
            elif r < 0.2:
                t = ["negate", t]
            elif r < 0.3:
                t = [rng.choice(["add", "sub"]), t, self.scalar(rng)]
            return t
        finally:
            self._pool = None

    def bd_const_prefix(self, rng, dt):
        """calls whose fold starts on constants only (before any StateSpace code runs): the first
        two operands of series / parallel are scalars / arrays, the first operand of append is
        one; a StateSpace system follows.  Square arrays of one shape (so that NumPy's `*` and `+`
        are defined on them)."""
        k = rng.choice([1, 2, 2, 3])
        fn = rng.choice(["series", "series", "parallel", "appendn"])
        c = lambda: self.scalar(rng, nonzero=True) if rng.random() < 0.35 else self.array_new(rng, (k, k))
        g = self.leaf_new(rng, (k, k), dt, n=rng.choice([0, 1, 1, 2]))
        if fn == "appendn":
            ops = [c(), g] + ([self.array_new(rng, (1, 1))] if rng.random() < 0.3 else [])
            return [fn] + ops
        ops = [c(), c(), g]
        if fn == "series" and ops[0][0] == "A" and ops[1][0] == "A":
            # two leading arrays: NumPy's element-wise product instead of the matrix product (known
            # finding).  A static gain with an invertible direct term follows, so that the result
            # differs from the model's in its transfer matrix exactly when the two products differ
            # (with dynamics the difference can hide in an unreachable / unobservable part).
            ops[2] = self.leaf_new(rng, (k, k), dt, invertible=True, n=0)
            return [fn] + ops
        if rng.random() < 0.3:
            ops.append(self.leaf_new(rng, (k, k), dt, n=rng.choice([0, 1])))
        return [fn] + ops
    # <<< bdalg -------------------------------------------------------------------------------

    # >>> rus: operands with structural zeros, the option remove_useless_states -------------------
    RUS_EXACT_OPS = ("add", "add", "sub", "mul", "mul", "mul", "neg", "sel", "append", "pow",
                     "series", "series", "parallel", "negate", "appendn")

    def sparsify(self, rng, n, p, m, A, B, C):
        """structural zeros: integrator banks (A = 0), integrator / lag chains (strictly triangular
        A), triangular A with zeros on the diagonal, zero rows / columns of A, zero rows of B
        (undriven states), zero columns of C (states that are not read out).  Every combination
        occurs: states that really are useless (row of A and of B zero; column of A and of C
        zero) and states that only look so to a wrong pairing (row of A and column of C zero:
        an integrator that drives other states; column of A and row of B zero: a state driven
        only by other states)."""
        A, B, C = list(A), list(B), list(C)
        nz = lambda: rng.choice([-2, -1, 1, 2])
        r = rng.random()
        low = rng.random() < 0.5
        if r < 0.25:
            A = [0] * (n * n)
        elif r < 0.45:
            A = [A[i * n + j] if (i > j if low else i < j) else 0 for i in range(n) for j in range(n)]
            for i in range(1, n):
                ix = i * n + i - 1 if low else (i - 1) * n + i
                if A[ix] == 0:
                    A[ix] = nz()
        elif r < 0.65:
            A = [A[i * n + j] if (i >= j if low else i <= j) else 0 for i in range(n) for j in range(n)]
            for i in range(n):
                if rng.random() < 0.5:
                    A[i * n + i] = 0
        for i in range(n):
            if rng.random() < 0.25:
                for j in range(n):
                    A[i * n + j] = 0
            if rng.random() < 0.25:
                for j in range(n):
                    A[j * n + i] = 0
        for i in range(n):
            if rng.random() < 0.3:
                for j in range(m):
                    B[i * m + j] = 0
            if rng.random() < 0.3:
                for j in range(p):
                    C[j * n + i] = 0
        return A, B, C

    def rus_pattern(self, rng, dt):
        """a factor G1 with structural zeros placed BEFORE a (mostly strictly proper) factor G2 in a
        product / series, alone and used further: the states of G1 reach the output only through
        the states of G2"""
        k, p, m = rng.choice([1, 2, 2, 3]), rng.choice([1, 1, 2]), rng.choice([1, 2, 3])
        G1 = self.leaf(rng, (k, m), dt, n=rng.choice([1, 2, 2, 3]))
        G2 = self.leaf(rng, (p, k), dt, n=rng.choice([1, 2]))
        if rng.random() < 0.6:
            G2[8] = ["0"] * (p * k)
        prod = rng.choice([["mul", G2, G1], ["mul", G2, G1], ["series", G1, G2]])
        if rng.random() < 0.2:
            G0 = self.leaf(rng, (m, m), dt, n=rng.choice([1, 2]))
            prod = ["series", G0, G1, G2] if prod[0] == "series" else ["mul", prod, G0]
        G3 = self.leaf(rng, (p, m), dt)
        r = rng.random()
        if r < 0.25:
            return prod
        if r < 0.45:
            return [rng.choice(["add", "sub"]), prod, G3]
        if r < 0.55:
            return [rng.choice(["add", "sub", "parallel"]), G3, prod]
        if r < 0.65:
            K = self.leaf(rng, (m, p), dt, n=rng.choice([0, 1]))
            return ["fb", rng.choice(["1", "-1"]), rng.choice(["method", "func"]), prod, K]
        if r < 0.75:
            return [rng.choice(["neg", "negate"]), prod]
        if r < 0.85:
            rows = sorted(rng.sample(range(p), rng.randint(1, p)))
            cols = sorted(rng.sample(range(m), rng.randint(1, m)))
            return ["sel", rows, cols, prod]
        if r < 0.93:
            return ["append", prod, G3] if rng.random() < 0.5 else ["append", G3, prod]
        return ["mul", self.array(rng, (rng.choice([1, 2]), p)), prod]

    def gen_rus(self, rng, dt):
        """a CASE: a tree over operands with structural zeros, and the configuration history under
        which it is evaluated (15 %: none - the option off)"""
        self._sparse = True
        self._pool = {} if rng.random() < 0.4 else None
        try:
            for _ in range(30):
                if rng.random() < 0.45:
                    tree = self.rus_pattern(rng, dt)
                else:
                    self._ops = None if rng.random() < 0.3 else self.RUS_EXACT_OPS
                    tree = self.gen(rng, rng.choice([1, 2, 2]), self.rshape(rng), dt)
                if const_prefix(tree) is None and has_dynamic_leaf(tree) and size(tree) > 1:
                    break
            else:
                tree = self.rus_pattern(rng, dt)
        finally:
            self._sparse, self._pool, self._ops = False, None, None
        if rng.random() < 0.15:
            return {"tree": tree}
        how = rng.choice(["set_defaults", "set_defaults", "dict", "dict", "dict", "legacy", "kw"])
        scope = "leaves" if how == "kw" else rng.choice(["ops", "ops", "ops", "all", "all", "leaves"])
        return {"tree": tree, "rus": [how, scope]}
    # <<< rus -----------------------------------------------------------------------------------

    def special(self, rng):
        """streams that need something specific"""
        dt = rng.choice(["C", "C", "N", "T", DT01])
        if rng.random() < 0.4:
            return self.lft_special(rng, dt)
        r = rng.random()
        if r < 0.25:    # system + array of the same non-square shape / wrong shapes
            shape = rng.choice([(3, 2), (2, 3), (1, 2), (2, 1), (3, 1), (2, 2), (1, 3)])
            ashape = shape if rng.random() < 0.7 else rng.choice([(shape[0], 1), (1, shape[1]), shape[::-1]])
            x, y = self.leaf(rng, shape, dt), self.array(rng, ashape)
            op = rng.choice(["add", "sub"])
            return [op, x, y] if rng.random() < 0.6 else [op, y, x]
        if r < 0.5:     # ill-posed loops: I - sign D2 D1 singular
            p = rng.choice([1, 1, 2])
            g = self.leaf(rng, (p, p), dt, True)
            D1 = exmat.from_flat(g[8], p, p)
            sign = rng.choice(["1", "-1"])
            D2 = exmat.solve(D1, exmat.scale(Fraction(sign), exmat.eye(p)))   # sign*D2*D1 = I
            h = self.leaf(rng, (p, p), dt)
            h[8] = exmat.flat_tokens(D2)
            return ["fb", sign, "method", g, h]
        if r < 0.7:     # singular direct term inverted
            p = rng.choice([1, 2, 2])
            g = self.leaf(rng, (p, p), dt)
            D = exmat.from_flat(g[8], p, p)
            D[-1] = [2 * x for x in D[0]]
            g[8] = exmat.flat_tokens(D)
            return ["pow", -1, g] if rng.random() < 0.6 else ["div", self.leaf(rng, (p, p), dt), g]
        if r < 0.85:    # non-square feedback with different state counts and D != 0
            shape = rng.choice([(2, 3), (3, 2), (1, 2), (2, 1)])
            g = self.leaf(rng, shape, dt, n=rng.choice([1, 2, 3]))
            h = self.leaf(rng, shape[::-1], dt, n=rng.choice([0, 1, 2]))
            return ["fb", rng.choice(["1", "-1", "1/2"]), rng.choice(["method", "func"]), g, h]
        # SISO promotion chains
        shape = rng.choice([(2, 3), (3, 2), (2, 2)])
        g, s = self.leaf(rng, shape, dt), self.leaf(rng, (1, 1), dt, n=rng.choice([1, 2]))
        return [rng.choice(["add", "sub", "mul"]), g, s] if rng.random() < 0.5 else \
            [rng.choice(["add", "sub", "mul"]), s, g]

    def generate(self, rng, tier):
        n = 420 if tier == "quick" else 7000
        maxd = 3 if tier == "quick" else 4
        out = []
        for i in range(n):
            if i % 5 == 4:
                out.append({"tree": self.special(rng)})
                continue
            dt = rng.choice(["C", "C", "C", "N", "T", DT01, "D1/4"])
            depth = rng.choice([1, 2, 2, 3]) if maxd == 3 else rng.choice([1, 2, 3, 3, 4])
            out.append({"tree": self.gen(rng, depth, self.rshape(rng), dt)})
        for i in range(60 if tier == "quick" else 1200):      # lft partitions on leaves
            out.append({"tree": self.lft_special(rng, rng.choice(["C", "C", "N", "T", DT01]))})
        q = tier == "quick"
        dts = ["C", "C", "N", "T", DT01]
        for i in range(70 if q else 800):        # operands re-used inside one expression
            out.append({"tree": self.gen_shared(rng, rng.choice([2, 2, 3]), rng.choice(dts))})
        for i in range(50 if q else 500):
            out.append({"tree": self.reuse_pattern(rng, rng.choice(dts))})
        for i in range(40 if q else 500):        # loops ill-posed for non-representable data
            out.append({"tree": self.loop_decimal(rng, rng.choice(dts))})
        for i in range(25 if q else 300):
            out.append({"tree": self.lft_decimal(rng, rng.choice(dts))})
        for i in range(15 if q else 150):        # ... and their well-posed neighbours
            out.append({"tree": self.loop_decimal(rng, rng.choice(dts), wellposed=True)})
        for i in range(10 if q else 100):
            out.append({"tree": self.lft_decimal(rng, rng.choice(dts), wellposed=True)})
        for i in range(6 if q else 40):
            out.append({"tree": self.inverse_decimal(rng, rng.choice(dts))})
        for i in range(30 if q else 300):        # rounding arithmetic on decimal data
            out.append({"tree": self.gen_decimal(rng, rng.choice(dts))})
        # >>> bdalg: calls of series / parallel / append / negate / feedback with 1, 2, 3, ... operands
        for i in range(110 if q else 1500):
            out.append({"tree": self.gen_bdalg(rng, rng.choice(dts + ["D1/4"]))})
        for i in range(10 if q else 80):         # ... whose fold starts on constants only
            out.append({"tree": self.bd_const_prefix(rng, rng.choice(dts))})
        # <<< bdalg
        # >>> rus: structural zeros in the operands; the option remove_useless_states switched on
        for i in range(90 if q else 1200):
            out.append(self.gen_rus(rng, rng.choice(dts + ["D1/4"])))
        # <<< rus
        return out

    def corpus(self):
        L = lambda n, p, m, A, B, C, D, dt="C": ["L", n, p, m, dt] + [[str(x) for x in v] for v in (A, B, C, D)]
        g32 = L(1, 3, 2, [-1], [1, 2], [1, 0, 3], [0] * 6)
        g22 = L(1, 2, 2, [-1], [1, 2], [1, 3], [0] * 4)
        # (rus) integrator bank before a strictly proper lag: G2 * G1, series(G1, G2), G2 * G1 + G3
        i23 = L(2, 2, 3, [0, 0, 0, 0], [1, 2, 0, 0, 1, -1], [1, 0, 1, 1], [0] * 6)
        l12 = L(2, 1, 2, [-1, 1, 0, -2], [1, 0, 1, 1], [1, -1], [0, 0])
        g13 = L(1, 1, 3, [-3], [1, 0, 2], [1], [0, 1, 0])
        # (rus) a state with a zero row of A that is not read out but drives the other state
        hid = L(2, 1, 1, [0, 0, 1, -1], [1, 0], [0, 1], [0])
        return [
            {"tree": ["mul", l12, i23], "rus": ["dict", "ops"]},
            {"tree": ["series", i23, l12], "rus": ["set_defaults", "ops"]},
            {"tree": ["add", ["mul", l12, i23], g13], "rus": ["legacy", "all"]},
            {"tree": ["sub", ["mul", l12, i23], g13], "rus": ["dict", "all"]},
            {"tree": ["add", hid, ["S", "1", "int"]], "rus": ["kw", "leaves"]},
            {"tree": ["mul", L(1, 1, 1, [-1], [1], [1], [0]), L(1, 1, 1, [0], [1], [1], [0])],
             "rus": ["set_defaults", "all"]},
            {"tree": ["add", g32, ["A", 3, 2, ["1"] * 6, "float"]]},
            {"tree": ["add", g22, ["A", 2, 1, ["1", "2"], "float"]]},
            {"tree": ["fb", "1", "method", L(1, 1, 1, [-1], [1], [1], [0]), L(1, 1, 1, [-2], [1], [1], [1])]},
            {"tree": ["lft", 1, 1, L(1, 2, 2, [-1], [1, 2], [1, 3], [0, 1, 1, 0]), L(1, 1, 1, [-2], [1], [1], [1])]},
            {"tree": ["lft", -1, -1, L(1, 2, 2, [-1], [1, 2], [1, 3], [0, 1, 1, 1]), L(1, 1, 1, [-2], [1], [1], [1])]},
            {"tree": ["lft", 1, 2, L(2, 3, 2, [-1, 0, 1, -2], [1, 2, 0, 1], [1, 3, 0, 1, 2, 2], [0, 1, 1, 2, 0, 0]),
                      L(1, 2, 3, [-2], [1, 0, 2], [1, 3], [1, 0, 0, 2, 1, 0])]},
            # ill-posed for the intended decimals, singular only up to rounding in floats
            {"tree": ["fb", "1", "method", L(1, 2, 2, [-1], [1, 2], [1, -1], ["7/10", "3/10", "1/10", "9/10"]),
                      L(0, 2, 2, [], [], [], [1, 0, 0, 1])]},
            {"tree": ["lft", 1, 1, L(1, 2, 2, [-1], [1, 2], [1, 3], [0, 1, 1, "2/5"]),
                      L(1, 1, 1, [-2], [1], [1], ["5/2"])]},
            # an operand used again after it took part in an operation (one object per identical leaf)
            {"tree": ["sub", ["add", g32, ["A", 3, 2, ["1", "2", "3", "4", "5", "6"], "float"]], g32]},
            {"tree": ["add", ["mul", g22, ["S", "2", "float"]], g22]},
            # >>> bdalg: series of three non-commuting 2 x 2 systems; a non-square chain 2 -> 3 -> 1 -> 2;
            # parallel / append of three; feedback with the default arguments
            {"tree": ["series", L(1, 2, 2, [-1], [1, 2], [1, 3], [1, 2, 3, 4]),
                      L(0, 2, 2, [], [], [], [0, 1, 1, 1]), L(1, 2, 2, [-2], [0, 1], [1, 1], [1, 0, 2, 1])]},
            {"tree": ["series", L(1, 3, 2, [-1], [1, 2], [1, 0, 3], [1, 0, 0, 1, 2, 2]),
                      L(1, 1, 3, [-2], [1, 0, 2], [1], [1, 2, 3]), L(0, 2, 1, [], [], [], [1, -1])]},
            {"tree": ["parallel", g22, ["A", 2, 2, ["1", "2", "3", "4"], "float"], g22, ["S", "2", "int"]]},
            {"tree": ["appendn", g22, L(1, 1, 1, [-2], [1], [1], [1]), ["A", 1, 2, ["1", "2"], "int"]]},
            {"tree": ["fb", "-1", "func-all", L(1, 1, 1, [-1], [1], [1], [2]), ["S", "1", "int"]]},
            {"tree": ["fb", "-1", "func-sign", ["A", 2, 2, ["1", "2", "3", "4"], "float"], g22]},
            # <<< bdalg
        ]

    # ---- execution ----------------------------------------------------------
    def line(self, case):
        how, rl, ro = rus_of(case)
        return "ss " + flatten(case["tree"], rl, ro)

    def impl(self, case):
        """first evaluation of the tree, and - on the SAME operand objects - a second one; the
        second result is recorded (`again`) only when it is not identical to the first"""
        leaves = {}
        # (rus) the configuration history of the case: the operands are built first (with the
        # option on for the scopes "all" / "leaves": keyword or configuration), the operators run
        # under the configuration of the scopes "ops" / "all"; the configuration is restored
        how, rl, ro = rus_of(case)
        if how is not None:
            with rus_config(how if rl and how != "kw" else None):
                for lf in sys_leaves(case["tree"]):
                    leaves.setdefault(key(lf), build_leaf(lf, kw=(how == "kw")))

        def once():
            try:
                with rus_config(how if ro else None):
                    r = run_tree(case["tree"], leaves, {})
            except Exception as e:  # noqa
                return {"err": classify_exc(e), "exc": "%s: %s" % (type(e).__name__, str(e)[:200])}
            try:
                return canon_result(r)
            except ValueError:
                return {"ok": {"type": "nonfinite"}}
        first = once()
        if "err" not in first:
            second = once()
            if second != first:
                first["again"] = second
        return first

    def parse_model(self, case, out):
        if out.startswith("err "):
            return {"err": out.split()[1]}
        tk = Tokens(out)
        assert tk.next() == "ok"
        bits = int(tk.next().split("=")[1])
        kind = tk.next()
        if kind == "ss":
            n, p, m, dt = tk.nat(), tk.nat(), tk.nat(), tk.next()
            o = {"type": "ss", "n": n, "p": p, "m": m, "dt": dt}
            for nm in "ABCD":
                r, c = tk.nat(), tk.nat()
                o[nm] = [tk.next() for _ in range(r * c)]
            return {"ok": o, "bits": bits}
        if kind == "scalar":
            return {"ok": {"type": "scalar", "v": tk.next()}, "bits": bits}
        if kind == "array":
            p, m = tk.nat(), tk.nat()
            return {"ok": {"type": "array", "p": p, "m": m, "v": [tk.next() for _ in range(p * m)]}, "bits": bits}
        raise ValueError(out)

    def features(self, case, kind, impl):
        feat = {"kind": kind}
        if "err" in impl:
            feat["exc"] = impl["exc"].split(":")[0]
            feat["msg"] = re.sub(r"[0-9]+", "#", impl["exc"].split(":", 1)[1].strip())[:60]
        feat["ops"] = "+".join(sorted(set(ops_in(case["tree"])))) or "leaf"
        cp = const_prefix(case["tree"])          # (bdalg) the fold of an n-ary call starts on constants
        if cp is not None:
            feat["const_prefix"] = cp
        return feat

    def transfer_differs(self, a, b, exact_regime):
        """compare the transfer matrices of two (A,B,C,D) at 2n+1 rational points"""
        Aa, Ba, Ca, Da = mats(a)
        Ab, Bb, Cb, Db = mats(b)
        need = 2 * max(a["n"], b["n"]) + 1
        used = 0
        for s in POINTS:
            Ya = exmat.ss_eval(Aa, Ba, Ca, Da, s, a["p"], a["m"])
            Yb = exmat.ss_eval(Ab, Bb, Cb, Db, s, b["p"], b["m"])
            if Ya is None or Yb is None:
                continue
            used += 1
            if exact_regime:
                if Ya != Yb:
                    return "G(%s): implementation %s, exact %s" % (s, exmat.flat_tokens(Ya), exmat.flat_tokens(Yb))
            elif not exmat.close(Ya, Yb, TOL * 10):
                return "G(%s): implementation %s, exact %s" % (
                    s, [float(x) for r in Ya for x in r], [float(x) for r in Yb for x in r])
            if used >= need:
                break
        return None

    def compare(self, case, impl, model):
        v = self.compare_one(case, impl, model)
        if v.status != AGREE or "again" not in impl:
            return v
        # the operands are values: evaluating the expression once more on the same operand objects
        # must give the same result
        v2 = self.compare_one(case, impl["again"], model)
        if v2.status == AGREE:
            return v2        # (tolerance regime: both evaluations within tolerance of the model)
        feat = dict(v2.features)
        feat["evaluation"] = 2
        return Verdict(v2.status, "second evaluation of the same expression on the same operand "
                       "objects (the first agreed with the model): " + v2.detail, feat)

    def compare_one(self, case, impl, model):
        t = case["tree"]
        if "err" in model:
            if "err" in impl:
                return Verdict(AGREE)
            if model["err"] == "illPosed" and nested_inexact(t) and rank_demand(t) is None:
                return Verdict(AGREE)   # conditioning guard: singularity of a rounded intermediate
            if model["err"] in ("shape", "illPosed", "indexRange", "zeroDen"):
                feat = self.features(case, "returns-" + model["err"], impl)
                if impl["ok"]["type"] == "nonfinite":
                    feat["nonfinite"] = True       # the returned system has inf / nan entries
                    feat.pop("ops")
                return Verdict(VIOLATES, "a system was returned where the result does not exist "
                               "(model: %s)" % model["err"], feat)
            return Verdict(DIFFERS, "model raises %s, implementation returns" % model["err"],
                           self.features(case, "returns-" + model["err"], impl))
        if "err" in impl:
            if nested_inexact(t) and impl["err"] in ("illPosed", "notImplemented"):
                return Verdict(AGREE)   # conditioning guard (see above)
            feat = self.features(case, "raises", impl)
            if one_by_zero(model["ok"]):
                feat["one_by_zero"] = True
            return Verdict(VIOLATES, "implementation raises %s where the result exists" % impl["exc"], feat)
        a, b = impl["ok"], model["ok"]
        if a["type"] != b["type"]:
            return Verdict(VIOLATES, "result type %s vs %s" % (a["type"], b["type"]),
                           self.features(case, "type", impl))
        if a["type"] != "ss":
            return Verdict(AGREE if a == b else DIFFERS, "non-system result differs")
        if (a["p"], a["m"]) != (b["p"], b["m"]):
            feat = self.features(case, "shape", impl)
            if one_by_zero(b):
                feat["one_by_zero"] = True
            return Verdict(VIOLATES, "shape %dx%d vs model %dx%d" % (a["p"], a["m"], b["p"], b["m"]), feat)
        exact_regime = model.get("bits", 0) <= 50 and not inexact(t)
        if case.get("rus"):
            return self.compare_rus(case, impl, model, exact_regime)
        if a["n"] != b["n"]:
            return Verdict(VIOLATES, "state dimension %d, sum of the operands' is %d" % (a["n"], b["n"]),
                           self.features(case, "nstates", impl))
        same = True
        for nm in "ABCD":
            if exact_regime:
                same = same and a[nm] == b[nm]
            else:
                va = [[Fraction(x) for x in a[nm]]]
                vb = [[Fraction(x) for x in b[nm]]]
                same = same and exmat.close(va, vb, TOL)
        if not same:
            d = self.transfer_differs(a, b, exact_regime)
            if d is not None:
                return Verdict(VIOLATES, "transfer matrix differs: " + d, self.features(case, "value", impl))
            return Verdict(DIFFERS, "realisation differs from the model's, transfer matrix equal",
                           self.features(case, "realisation", impl))
        if a["dt"] != b["dt"]:
            return Verdict(DIFFERS, "timebase %s vs model %s (decided by C05)" % (a["dt"], b["dt"]),
                           self.features(case, "dt", impl))
        return Verdict(AGREE)

    # >>> rus
    def compare_rus(self, case, impl, model, exact_regime):
        """results under the option remove_useless_states.  The model's program removes the useless
        states where every node's last constructor call does (exact zero tests); the code also does
        it at the constructor calls inside an operator (SISO promotion, powers, division) and
        tests floats.  So: same realisation -> agree; otherwise the transfer matrices are compared
        (C02.Rus.construct_resp: the option changes no value at s != 0; POINTS are non-zero) and
        the implementation may have FEWER states than the model's program (more passes), or - in
        the tolerance regime only - more (a rounded zero is not a zero)."""
        a, b = impl["ok"], model["ok"]
        same = a["n"] == b["n"]
        if same:
            for nm in "ABCD":
                if exact_regime:
                    same = same and a[nm] == b[nm]
                else:
                    same = same and exmat.close([[Fraction(x) for x in a[nm]]],
                                                [[Fraction(x) for x in b[nm]]], TOL)
        if not same:
            d = self.transfer_differs(a, b, exact_regime)
            if d is not None:
                feat = self.features(case, "value", impl)
                feat["rus"] = case["rus"][1]
                return Verdict(VIOLATES, "transfer matrix differs (option remove_useless_states on: "
                               "%s, %s; %d states, model %d): %s"
                               % (case["rus"][0], case["rus"][1], a["n"], b["n"], d), feat)
            if exact_regime and a["n"] > b["n"]:
                feat = self.features(case, "rus-states", impl)
                return Verdict(DIFFERS, "option remove_useless_states: %d states returned, the model's "
                               "rule leaves %d (transfer matrix equal)" % (a["n"], b["n"]), feat)
        if a["dt"] != b["dt"]:
            return Verdict(DIFFERS, "timebase %s vs model %s (decided by C05)" % (a["dt"], b["dt"]),
                           self.features(case, "dt", impl))
        return Verdict(AGREE)
    # <<< rus

    def nontrivial(self, case, model):
        t = case["tree"]
        if "ok" not in model or model["ok"]["type"] != "ss":
            return False
        if not has_dynamic_leaf(t) or not any(o in BIN or o in ("fb", "lft") or o in NARY for o in ops_in(t)):
            return False
        return model["ok"]["n"] > 0

    def stats(self, case, impl, model):
        t = case["tree"]
        st = {"root": t[0], "size": min(size(t), 12),
              "outcome": ("err:" + model["err"]) if "err" in model else "ok"}
        if "ok" in model and model["ok"]["type"] == "ss":
            st["shape"] = "%dx%d" % (model["ok"]["p"], model["ok"]["m"])
            st["nstates"] = min(model["ok"]["n"], 10)
            st["regime"] = "E" if (model.get("bits", 0) <= 50 and not inexact(t)) else "T"
        if "err" in model and "err" in impl:
            st["errkind_equal"] = impl["err"] == model["err"]
        if model.get("err") == "illPosed" and nested_inexact(t):
            # singular for the intended (non-representable / intermediate) data
            st["illposed_rounded"] = "error-demanded" if rank_demand(t) is not None else "guarded"
        lv = leaf_keys(t)
        st["operand_reused"] = len(lv) != len(set(lv))
        if case.get("rus"):                      # (rus) option on: how, where, and what it did
            st["rus"] = "%s/%s" % tuple(case["rus"])
            if "ok" in model and "ok" in impl and model["ok"]["type"] == "ss" and impl["ok"].get("type") == "ss":
                full = sum(lf[1] for lf in sys_leaves(t))
                st["rus_effect"] = ("dropped" if impl["ok"]["n"] < full else "kept-all") if \
                    not any(o in ("pow", "pow-", "div") or o in NARY for o in ops_in(t)) else "n/a"
                st["rus_states"] = "same" if impl["ok"]["n"] == model["ok"]["n"] else \
                    ("fewer" if impl["ok"]["n"] < model["ok"]["n"] else "more")
        st["structural_A"] = structural(t)
        calls = nary_calls(t)                    # (bdalg) function / operand count of the largest call
        if calls:
            fn, n = max(calls, key=lambda c: c[1])
            st["bdalg"] = "%s/%d" % (fn, min(n, 6))
        return st

    # ---- shrinking / search ----------------------------------------------------
    def shrink(self, case):
        if case.get("rus"):          # (rus) the configuration history stays with the tree
            for c in self.shrink({"tree": case["tree"]}):
                if not (rus_of(case)[2] and const_prefix(c["tree"]) is not None):
                    yield {"tree": c["tree"], "rus": case["rus"]}
            if case["rus"] != ["dict", "ops"] and case["rus"][1] != "leaves":
                yield {"tree": case["tree"], "rus": ["dict", "ops"]}
            return
        t = case["tree"]

        def subtrees(t):
            for i in children(t):
                yield t[i]
                yield from subtrees(t[i])
        for s in subtrees(t):
            if s[0] not in ("S", "A"):
                yield {"tree": s}
        if t[0] in NARY and len(t) > 2:                   # (bdalg) one operand less at the root
            for i in range(1, len(t)):
                yield {"tree": t[:i] + t[i + 1:]}

        def rebuild(t, path, new):
            if not path:
                return new
            t = list(t)
            t[path[0]] = rebuild(t[path[0]], path[1:], new)
            return t

        def paths(t, pre=()):
            for i in children(t):
                yield pre + (i,)
                yield from paths(t[i], pre + (i,))

        def replace_all(t, old, new):
            """a shared operand is ONE object: shrink every occurrence of it together"""
            if t == old:
                return new
            t = list(t)
            for i in children(t):
                t[i] = replace_all(t[i], old, new)
            return t
        seen = set()
        for pth in paths(t):
            sub = t
            for i in pth:
                sub = sub[i]
            if sub[0] == "L":
                if key(sub) in seen:
                    continue
                seen.add(key(sub))
                _, n, p, m, dt, A, B, C, D = sub
                if n > 1:
                    n2 = n - 1
                    A2 = [A[i * n + j] for i in range(n2) for j in range(n2)]
                    B2 = B[:n2 * m]
                    C2 = [C[i * n + j] for i in range(p) for j in range(n2)]
                    yield {"tree": replace_all(t, sub, ["L", n2, p, m, dt, A2, B2, C2, D])}
                if dt != "C":
                    yield {"tree": replace_all(t, sub, ["L", n, p, m, "C", A, B, C, D])}
            elif sub[0] not in ("S", "A"):
                for i in children(sub):
                    yield {"tree": rebuild(t, list(pth), sub[i])}
                if sub[0] in NARY and len(sub) > 2:       # (bdalg) one operand less
                    for i in range(1, len(sub)):
                        yield {"tree": rebuild(t, list(pth), sub[:i] + sub[i + 1:])}

    def search(self, rng, case, tier):
        out = []
        for _ in range(300):
            dt = rng.choice(["C", "N", "T", DT01])
            out.append({"tree": self.gen(rng, 2, self.rshape(rng), dt)})
        return out


FAMILY = C02
