"""C13 — exact root counting for loops given *forwards* (zeros / poles / gain) and the analysis of the
mechanism of a wrong count (sampling, range) used to classify violations.

Part 1 (exact, `fractions.Fraction` only): number of roots of a rational polynomial in the open right
half plane by the Routh table (regular case; a zero in the first column = `None`, the caller rejects
the case), outside a circle by the Moebius substitution `z = rho (1+w)/(1-w)`, and a strip test
(no root with |Re s| < delta, resp. rho_- < |z| < rho_+) by counting on both sides of the strip.
These give `Z` (closed-loop unstable poles) without any root finding for a loop `L = k N(s)/D(s)`
whose numerator and denominator roots are given exactly, and, applied to the binary64 coefficients
taken as exact rationals, the same numbers for the system the implementation actually receives.

Part 2 (binary64, numpy): the true continuous phase of `1 + L = k prod(x - c_i) / prod(x - p_i)`
along the contour the implementation used (turning angle of every factor between consecutive contour
points) and its closure error at the end of the *documented* default frequency range.  A wrong count
whose contour is sampled without aliasing and whose documented range closes the contour is never a
known finding."""
import math
from fractions import Fraction as F

import numpy as np


# ----------------------------------------------------------------------------
# Part 1: exact root counting.  Polynomials: lists of Fraction, highest power first.
# ----------------------------------------------------------------------------
def strip_lead(p):
    p = list(p)
    while p and p[0] == 0:
        p.pop(0)
    return p


def padd(p, q):
    n = max(len(p), len(q))
    p = [F(0)] * (n - len(p)) + list(p)
    q = [F(0)] * (n - len(q)) + list(q)
    return [a + b for a, b in zip(p, q)]


def pmul(p, q):
    out = [F(0)] * (len(p) + len(q) - 1)
    for i, a in enumerate(p):
        for j, b in enumerate(q):
            out[i + j] += a * b
    return out


def ppow(p, n):
    out = [F(1)]
    for _ in range(n):
        out = pmul(out, p)
    return out


def rhp_count(p):
    """number of roots with Re > 0 of the polynomial p (exact), by the Routh table; None when the table is
    not regular (a zero in the first column: roots on the imaginary axis or symmetric about it, or an
    accidental zero) or the polynomial is zero.  A constant has no roots."""
    p = strip_lead(p)
    if not p:
        return None
    n = len(p) - 1
    if n == 0:
        return 0
    r0 = [F(x) for x in p[0::2]]
    r1 = [F(x) for x in p[1::2]]
    col = [r0[0]]
    for _ in range(n):
        if not r1 or r1[0] == 0:
            return None
        col.append(r1[0])
        m = max(len(r0) - 1, 0)
        nxt = []
        for i in range(m):
            b = r1[i + 1] if i + 1 < len(r1) else F(0)
            nxt.append((r1[0] * r0[i + 1] - r0[0] * b) / r1[0])
        r0, r1 = r1, nxt
    if len(col) != n + 1 or any(c == 0 for c in col):
        return None
    return sum(1 for a, b in zip(col, col[1:]) if (a > 0) != (b > 0))


def shift(p, d):
    """q(s) = p(s + d)"""
    out = []
    for c in p:                      # Horner in the polynomial ring
        out = padd(pmul(out, [F(1), F(d)]), [F(c)]) if out else [F(c)]
    return out


def outside_count(p, rho=1):
    """number of roots with |z| > rho (exact); None when undetermined (a root on the circle, or an irregular table)"""
    p = strip_lead(p)
    if not p:
        return None
    n = len(p) - 1
    rho = F(rho)
    q = [F(0)]
    for k, c in enumerate(p):        # coefficient of z^(n-k); z = rho (1+w)/(1-w)
        e = n - k
        term = pmul(ppow([F(1), F(1)], e), ppow([F(-1), F(1)], n - e))
        q = padd(q, [c * rho ** e * t for t in term])
    q = strip_lead(q)
    if len(q) - 1 != n:              # a root at z = -rho went to w = infinity
        return None
    return rhp_count(q)


def unstable_count(p, disc):
    return outside_count(p) if disc else rhp_count(p)


def strip_clear(p, disc, delta):
    """True iff provably no root of p lies within `delta` of the stability boundary
    (continuous: |Re s| < delta; discrete: 1 - delta < |z| < 1 + delta); None when undetermined"""
    if disc:
        a, b = outside_count(p, 1 - F(delta)), outside_count(p, 1 + F(delta))
    else:
        a, b = rhp_count(shift(p, -F(delta))), rhp_count(shift(p, F(delta)))
        # p(s - delta): roots moved right by delta;  p(s + delta): roots moved left
    if a is None or b is None:
        return None
    return a == b


# ----------------------------------------------------------------------------
# Part 2: mechanism of a wrong count
# ----------------------------------------------------------------------------
ALIAS_TOL = 1e-6


def refine_circle(con, max_dtheta=1e-3):
    """discrete-time contour (z-plane): insert points on the unit circle into every step whose arc is longer
    than `max_dtheta`, so that chords follow the arc (sagitta <= max_dtheta^2 / 8).  Returns the refined
    points and, for every original step, the slice of refined steps it consists of."""
    con = np.asarray(con, dtype=complex)
    th = np.angle(con)
    pts = [con[:1]]
    owner = []
    for i in range(len(con) - 1):
        d = th[i + 1] - th[i]
        m = int(math.ceil(abs(d) / max_dtheta)) if abs(d) > max_dtheta else 1
        if m > 1:
            sub = np.exp(1j * (th[i] + d * np.arange(1, m) / m))
            pts.append(sub)
        pts.append(con[i + 1:i + 2])
        owner.append(m)
    return np.concatenate(pts), np.asarray(owner, dtype=int)


def phase_steps(con, cs, ps, disc):
    """true change of arg(1 + L) over every step of the contour `con` (native plane), 1 + L = k prod(x-c)/prod(x-p);
    every factor turns by the principal angle of (x2 - a)/(x1 - a) over a straight step (exact: a segment is seen
    from a point off it under less than pi); arcs of the unit circle are refined into short chords first"""
    con = np.asarray(con, dtype=complex)
    if len(con) < 2:
        return np.zeros(0)
    if disc:
        pts, owner = refine_circle(con)
    else:
        pts, owner = con, np.ones(len(con) - 1, dtype=int)
    tot = np.zeros(len(pts) - 1)
    with np.errstate(all="ignore"):
        for a in cs:
            tot += np.angle((pts[1:] - a) / (pts[:-1] - a))
        for a in ps:
            tot -= np.angle((pts[1:] - a) / (pts[:-1] - a))
    starts = np.concatenate(([0], np.cumsum(owner)[:-1]))
    return np.add.reduceat(tot, starts)


def dev_at(a, w):
    """arg(jw - a) - pi/2 on the continuous branch that tends to 0 as w -> +infinity (Re a != 0, or a = 0 and w > 0)"""
    if a.real == 0:
        if w > a.imag:
            return 0.0
        return math.pi if w < a.imag else math.nan
    if a.real < 0:
        return math.atan((w - a.imag) / (-a.real)) - math.pi / 2
    return math.pi / 2 - math.atan((w - a.imag) / a.real)


def closure_error(cs, ps, w):
    """| Phi(w) - Phi(+infinity) | for equal numbers of closed- and open-loop roots (continuous time)"""
    return abs(sum(dev_at(c, w) for c in cs) - sum(dev_at(p, w) for p in ps))


def spec_range_end(features, decades=2):
    """the documented end of the default frequency range of a continuous-time system: one power of ten,
    10 ** rint(log10(largest feature) + decades); both candidates when the rounding is a near tie"""
    f = [x for x in features if x > 0 and not np.isclose(x, 0.0)]
    if not f:
        f = [1.0]
    x = math.log10(max(f)) + decades
    lo = math.floor(x)
    fracp = x - lo
    if abs(fracp - 0.5) < 1e-6:
        return [10.0 ** lo, 10.0 ** (lo + 1)]
    return [10.0 ** float(np.rint(x))]


def mechanism(cs, ps, con, disc, dt, features, range_ends=None):
    """-> dict of features describing why the sampled count can differ from Z - P:
    sampling: 'ok' | 'aliased' (some step of the contour turns 1+L by pi or more: unwrap cannot follow)
    aliased_at: 'interior' | 'nyquist-gap' (only the final step of a discrete-time contour, from the end of the
                logarithmic grid to the Nyquist frequency, and that step spans >= 5 % of the half circle) | 'none'
    spec_range: 'closes' | 'open' (continuous time: at the end of the documented default range the phase is still
                pi/2 or more away from its limit) | 'n/a' (discrete time: the contour ends on z = -1)"""
    out = {"sampling": "n/a", "aliased_at": "none", "spec_range": "n/a"}
    cs = [complex(c) for c in cs]
    ps = [complex(p) for p in ps]
    try:
        st = np.abs(phase_steps(con, cs, ps, disc))
    except Exception:  # noqa
        return out
    if len(st) and np.all(np.isfinite(st)):
        bad = np.nonzero(st >= math.pi - ALIAS_TOL)[0]
        if len(bad) == 0:
            out["sampling"] = "ok"
        else:
            out["sampling"] = "aliased"
            out["aliased_at"] = "interior"
            if disc and len(bad) == 1 and bad[0] == len(st) - 1:
                th = np.angle(np.asarray(con[-2:], dtype=complex))
                if abs(th[1] - th[0]) >= 0.05 * math.pi:
                    out["aliased_at"] = "nyquist-gap"
        out["max_step_over_pi"] = round(float(np.max(st)) / math.pi, 3)
    if not disc and len(cs) == len(ps):
        errs = []
        for w in (range_ends if range_ends else spec_range_end(features)):
            if any(a.real == 0 and a.imag >= w for a in cs + ps):
                errs.append(math.inf)
            else:
                errs.append(closure_error(cs, ps, w))
        worst = max(errs)
        out["spec_range"] = "open" if not worst < math.pi / 2 - 1e-3 else "closes"
    return out


# ----------------------------------------------------------------------------
def _selftest(seed=0, n=3000):
    import random
    rng = random.Random(seed)
    nchk = 0
    for _ in range(n):
        deg = rng.randint(1, 7)
        p = [F(rng.randint(-9, 9), rng.randint(1, 4)) for _ in range(deg + 1)]
        if p[0] == 0:
            continue
        r = np.roots([float(x) for x in p])
        c = rhp_count(p)
        if c is not None and np.min(np.abs(r.real)) > 1e-6:
            assert c == int((r.real > 0).sum()), (p, c, r)
            nchk += 1
        c = outside_count(p)
        if c is not None and np.min(np.abs(np.abs(r) - 1)) > 1e-6:
            assert c == int((np.abs(r) > 1).sum()), (p, c, r)
            nchk += 1
        s = strip_clear(p, False, F(1, 100))
        if s is not None and np.min(np.abs(np.abs(r.real) - 0.01)) > 1e-6:
            assert s == bool(np.min(np.abs(r.real)) > 0.01), (p, s, r)
            nchk += 1
        s = strip_clear(p, True, F(1, 100))
        if s is not None and np.min(np.abs(np.abs(np.abs(r) - 1) - 0.01)) > 1e-6:
            assert s == bool(np.min(np.abs(np.abs(r) - 1)) > 0.01), (p, s, r)
            nchk += 1
    return nchk


if __name__ == "__main__":
    print("selftest ok,", _selftest(), "comparisons")
