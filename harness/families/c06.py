"""C06 — linear time responses: correspondence between forced_response / step_response /
impulse_response / initial_response (control/timeresp.py) and the Lean model
`CtrlVerif.Model.TimeResp` (driver family `tr`).

Discrete-time systems: the model runs the dlsim recursion itself (incl. input interpolation and
decimation for grids that are multiples of the sampling time); integer / dyadic data are compared
for exact equality (regime E), everything else to 1e-9 relative (regime T).
Continuous-time systems: the values of scipy.linalg.expm (of the same matrices the code builds)
are handed to the model as parameters, the model cuts the blocks and replays the loop; for
nilpotent A the exponentials are instead computed exactly (finite rational sums) by the harness.
The matrix the code hands to expm is recorded by wrapping scipy.linalg.expm and compared with the
matrix the model builds."""
import re
import warnings
from fractions import Fraction

import numpy as np
import scipy
import scipy.linalg
import control as ct

from core.runner import Family, Verdict, AGREE, VIOLATES, DIFFERS
from core import exact, exmat
from core.exact import fr, tok, Tokens

TOL = Fraction(1, 10 ** 9)
TOL_M = Fraction(1, 10 ** 12)
F = Fraction

# signal scales of the "scaled" stream (strengthening after seeded change C06-m1): decimal factors
# (the float product is what both sides get) and powers of two (float arithmetic commutes exactly
# with them, so the exact regime carries over).  Small ones straddle the absolute tolerances that
# numpy's closeness tests use (1e-8), machine epsilon and the smallest normal numbers' neighbourhood;
# large ones the other end.
DEC_SMALL = ["1e-9", "1e-9", "1e-9", "2e-9", "5e-9", "1e-8", "1e-10", "1e-12", "1e-15", "1e-17",
             "1e-20", "1e-30", "1e-100", "3e-8", "1e-7", "1e-6", "1e-4"]
DEC_LARGE = ["1e3", "1e6", "1e9", "1e12"]
POW_SMALL = [-27, -27, -30, -30, -34, -40, -40, -50, -53, -60, -100, -24, -20, -10]
POW_LARGE = [10, 20, 30, 40]


TIGHT = 4   # mixed-scale cases: tolerance = TIGHT x noise_floor (observed worst error 1.2e-3 x noise_floor)


def rat_bits(q):
    q = F(q)
    return max(abs(q.numerator).bit_length(), q.denominator.bit_length())


# ----------------------------------------------------------------------------
# case encoding (JSON-able)
#   sys : {"n","p","m","dt","A","B","C","D"}   rational tokens, row major
#   T   : None | {"vals": [tok...], "form": "exact"|"mult"|"linspace"|"int"|"array"}
#   U,X0: ["S", tok, kind] | ["V", [tok...], dtype] | ["M", r, c, [tok...], dtype]
#   op  : forced | step | impulse | initial ;  "input", "output": -1 | index
#   "exactexp": True -> exponentials computed exactly by the harness (nilpotent A)
# ----------------------------------------------------------------------------

def dt_value(tokn):
    if tokn == "N":
        return None
    if tokn == "T":
        return True
    if tokn == "C":
        return 0
    return float(F(tokn[1:]))


def num_value(q, kind):
    q = F(q)
    if kind == "int" and q.denominator == 1:
        return int(q)
    if kind == "npint" and q.denominator == 1:
        return np.int64(int(q))
    if kind == "npfloat":
        return np.float64(float(q))
    return float(q)


def arr_value(a):
    k = a[0]
    if k == "S":
        return num_value(a[1], a[2])
    if k == "V":
        vals = [F(x) for x in a[1]]
        if a[2] == "int" and all(v.denominator == 1 for v in vals):
            return np.array([int(v) for v in vals], dtype=int)
        if a[2] == "list":
            return [float(v) for v in vals]
        return np.array([float(v) for v in vals], dtype=float)
    if k == "M":
        vals = [F(x) for x in a[3]]
        if a[4] == "int" and all(v.denominator == 1 for v in vals):
            return np.array([int(v) for v in vals], dtype=int).reshape(a[1], a[2])
        if a[4] == "list":
            return np.array([float(v) for v in vals], dtype=float).reshape(a[1], a[2]).tolist()
        return np.array([float(v) for v in vals], dtype=float).reshape(a[1], a[2])
    raise ValueError(k)


def arr_tokens(a):
    k = a[0]
    if k == "S":
        return "S " + a[1]
    if k == "V":
        return "V %d %s" % (len(a[1]), " ".join(a[1])) if a[1] else "V 0"
    return ("M %d %d %s" % (a[1], a[2], " ".join(a[3]))).rstrip()


def arr_vals(a):
    return [F(a[1])] if a[0] == "S" else [F(x) for x in (a[1] if a[0] == "V" else a[3])]


def time_value(T):
    """the time argument handed to the implementation"""
    if T is None:
        return None
    vals = [F(x) for x in T["vals"]]
    form = T["form"]
    if form == "int" and all(v.denominator == 1 for v in vals):
        return [int(v) for v in vals]
    if form == "mult" and len(vals) >= 2:
        t0, h = float(vals[0]), float(vals[1] - vals[0])
        return np.array([t0 + i * h for i in range(len(vals))])
    if form == "linspace" and len(vals) >= 2:
        return np.linspace(float(vals[0]), float(vals[-1]), len(vals))
    if form == "array":
        return np.array([float(v) for v in vals])
    return [float(v) for v in vals]


def build_sys(s):
    n, p, m = s["n"], s["p"], s["m"]
    f = lambda v, r, c: np.array([float(F(x)) for x in v], dtype=float).reshape(r, c)
    return ct.StateSpace(f(s["A"], n, n), f(s["B"], n, m), f(s["C"], p, n), f(s["D"], p, m),
                         dt_value(s["dt"]))


def sys_tokens(s):
    return ("%d %d %d %s %s" % (s["n"], s["p"], s["m"], s["dt"],
                                " ".join(s["A"] + s["B"] + s["C"] + s["D"]))).rstrip()


def classify_exc(e):
    if isinstance(e, IndexError):
        return "indexRange"
    if isinstance(e, (ValueError, TypeError, AttributeError)):
        return "badArg"
    return type(e).__name__


def is_dyadic(q):
    d = F(q).denominator
    return d & (d - 1) == 0


def frac_expm(M, terms=40):
    """exact exponential of a nilpotent Fraction matrix (finite sum); None if not nilpotent"""
    n = len(M)
    S = exmat.eye(n)
    P = exmat.eye(n)
    fact = F(1)
    for k in range(1, n + 2):
        P = exmat.mul(P, M) if n else P
        fact *= k
        if all(x == 0 for r in P for x in r):
            return S
        S = exmat.add(S, exmat.scale(1 / fact, P))
    return None


class ExpmSpy:
    """records the arguments python-control passes to scipy.linalg.expm"""

    def __init__(self):
        self.args = []
        self.orig = None

    def __enter__(self):
        self.orig = scipy.linalg.expm
        spy = self

        def wrapped(a, *k, **kw):
            spy.args.append(np.array(a, dtype=float, copy=True))
            return spy.orig(a, *k, **kw)
        scipy.linalg.expm = wrapped
        return self

    def __exit__(self, *a):
        scipy.linalg.expm = self.orig


def mat_tokens(a):
    return [tok(fr(x)) for x in np.asarray(a, dtype=float).flatten()]


def time_major(a2):
    """2-D array (signal, time) -> list over time of token lists"""
    a2 = np.asarray(a2, dtype=float)
    return [[tok(fr(x)) for x in a2[:, j]] for j in range(a2.shape[1])]


class C06(Family):
    prop = "C06"
    extra_modules = ["CtrlVerif.Props.C06Real",      # realisations, long division, step/impulse
                     "CtrlVerif.Props.C06Exp",       # continuous time over R: exp, ODE, FOH sampling
                     # source-text tie (notes/NOTES-py2lean-timeresp.md): Generated/TimeResp*.lean are rewritten
                     # from the text of forced_response (control/timeresp.py) of the tree under check on every
                     # run and proved equal to the model; one small file per block
                     "CtrlVerif.Props.C06GenFoh", "CtrlVerif.Props.C06GenFree", "CtrlVerif.Props.C06GenCont",
                     "CtrlVerif.Props.C06GenDisc", "CtrlVerif.Props.C06GenGrid", "CtrlVerif.Props.C06Gen",
                     # source-text tie of _check_convert_array (harness/core/py2lean_cca.py): the whole function,
                     # proved equal to Model/CheckConvert; the validation primitive of the C20 model is an instance
                     "CtrlVerif.Props.C06GenCCA", "CtrlVerif.Props.C06GenCCAUses"]

    def pre_build(self):
        import os
        from core import py2lean_tr, leanproj
        problems, self.gen_info = py2lean_tr.regenerate(os.environ.get("VERIF_REPO") or "/repo", leanproj.LEAN)
        from core import py2lean_cca
        p2, info2 = py2lean_cca.regenerate(os.environ.get("VERIF_REPO") or "/repo", leanproj.LEAN)
        self.gen_info.update(info2)
        return problems + p2
    externals = ["scipy.linalg.expm (its values are parameters of the continuous-time model; for "
                 "nilpotent A they are replaced by exact finite sums)",
                 "scipy.signal.dlsim / scipy.interpolate.make_interp_spline(k=1) (the model contains "
                 "the recursion and the linear interpolation; agreement is part of the check)"]
    assumptions = [
        "IEEE arithmetic is exact on the generated integer / dyadic data of discrete-time cases whose "
        "largest model value is below 2^50 (exact equality required there); all other cases are "
        "compared to 1e-9 relative to the largest value of the array",
        "signals scaled uniformly by a power of two: IEEE arithmetic commutes exactly with the scaling "
        "(no overflow / underflow at 2^-100 ... 2^40), so the exact regime is decided on the unscaled "
        "values; signals scaled uniformly otherwise: 1e-9 relative to max(signal scale, largest value of "
        "the array); an ordinary signal mixed with a tiny / huge one: the tolerance is the rounding-error "
        "estimate of the larger part (4 x 10^3 x steps x growth x scale x 2^-52; observed worst error "
        "3e-4 of it in 16 500 cases), so a dropped contribution of the smaller signal is visible",
        "scipy.linalg.expm returns the matrix exponential (contract, not a theorem); GIVEN that, the "
        "first-order-hold recursion returns the samples of the solution of x'=Ax+Bu for piecewise "
        "linear input (Props/C06Exp.lean, over the reals); for nilpotent A nothing is assumed",
        "np.allclose / np.isclose in the grid checks are modelled as exact tests: grids are generated "
        "exactly equally spaced (as rationals) or clearly not, spacings exact multiples of the "
        "sampling time or clearly not",
        "shape / squeeze conventions of the returned object are C18 (squeeze=False, raw arrays here); "
        "tf -> ss conversion is C03; default time vectors, interpolate=True, transpose=True are not modelled"]
    rule = ("random StateSpace systems (0..3 states, 1..3 inputs/outputs, integer or half-integer "
            "matrices, stable or not) on timebases 0, True, None, dt; equally spaced grids with 2..9 "
            "points, non-zero start, spacing = 1,2,3,4 x sampling time; inputs as scalar / 1-D / 2-D, "
            "int / float; initial states as scalar / 1-D / column; the four response functions with and "
            "without input/output selection; a malformed stream (wrong shapes, unequal spacing, spacing "
            "not a multiple). Appended streams: signals (input and/or initial state) scaled by 1e-9 ... "
            "1e-100, 2^-10 ... 2^-100, 1e3 ... 1e12, 2^10 ... 2^40, uniformly or mixed with ordinary ones; "
            "sparse / cancelling inputs (one non-zero sample, zero head, zero first sample, one active "
            "channel, zero-sum channels, channels cancelling each other), from rest; the same dynamics in "
            "other time units (grid and sampling time x 2^-40 ... 2^20, 1e-12 ... 1e6, 1/3, 1/7, 7/10 ..., "
            "continuous A and B divided accordingly). Non-trivial: >= 3 time points and a non-zero input or "
            "initial state and a system with states; distinct = distinct canonical serialisation")

    def __init__(self):
        self._line_cache = {}

    # ---- generation ---------------------------------------------------------
    def rsys(self, rng, dt, n=None, p=None, m=None, nilpotent=False, half=None):
        n = rng.choice([0, 1, 1, 2, 2, 2, 3]) if n is None else n
        p = rng.choice([1, 1, 2, 2, 3]) if p is None else p
        m = rng.choice([1, 1, 2, 2, 3]) if m is None else m
        ri = lambda: rng.randint(-3, 3)
        A = [ri() for _ in range(n * n)]
        if nilpotent:
            A = [A[i * n + j] if j > i else 0 for i in range(n) for j in range(n)]
        B = [ri() for _ in range(n * m)]
        C = [ri() for _ in range(p * n)]
        D = [0] * (p * m) if rng.random() < 0.3 else [ri() for _ in range(p * m)]
        half = rng.random() < 0.2 if half is None else half
        if half:
            A = [F(x, 2) for x in A]
            B = [F(x, 2) for x in B]
        s = lambda v: [tok(F(x)) for x in v]
        return {"n": n, "p": p, "m": m, "dt": dt, "A": s(A), "B": s(B), "C": s(C), "D": s(D)}

    def rgrid(self, rng, h, k=None, t0=None):
        k = rng.choice([2, 3, 3, 4, 4, 5, 6, 7, 8, 9]) if k is None else k
        if t0 is None:
            t0 = rng.choice([0, 0, 0, 0, 1, 2, F(-1, 2), F(3, 4), 5 * h, -2 * h])
        vals = [F(t0) + i * F(h) for i in range(k)]
        form = rng.choice(["exact", "exact", "mult", "linspace", "int", "array"])
        return {"vals": [tok(v) for v in vals], "form": form}

    def rU(self, rng, m, k, zero_ok=True):
        r = rng.random()
        rv = lambda: rng.randint(-3, 3)
        dtype = rng.choice(["int", "float", "float", "list"])
        if r < 0.08 and zero_ok:
            return ["S", "0", rng.choice(["int", "float"])]
        if r < 0.16:
            return ["S", tok(F(rng.choice([-2, -1, 1, 2, 3]), rng.choice([1, 1, 2]))),
                    rng.choice(["int", "float", "npfloat"])]
        half = rng.random() < 0.15
        den = 2 if half else 1
        if m == 1 and r < 0.6:
            return ["V", [tok(F(rv(), den)) for _ in range(k)], dtype]
        if r > 0.95 and zero_ok:
            return ["M", m, k, ["0"] * (m * k), dtype]
        return ["M", m, k, [tok(F(rv(), den)) for _ in range(m * k)], dtype]

    def rX0(self, rng, n):
        r = rng.random()
        rv = lambda: rng.randint(-3, 3)
        if r < 0.25:
            return ["S", "0", "float"]
        if r < 0.35:
            return ["S", str(rng.choice([-2, -1, 1, 2])), rng.choice(["int", "float"])]
        if r < 0.8:
            return ["V", [str(rv()) for _ in range(n)], rng.choice(["int", "float", "list"])]
        return ["M", n, 1, [str(rv()) for _ in range(n)], rng.choice(["int", "float"])]

    def rdt(self, rng):
        return rng.choice(["T", "T", "N", "D1", "D1/2", "D1/4", "D2", "D1/10", "D1/5", "D3/10"])

    def gen_disc_forced(self, rng):
        dt = self.rdt(rng)
        s = self.rsys(rng, dt)
        if dt in ("T", "N"):
            h = rng.choice([1, 1, 1, F(1, 2), 2, F(1, 10), 3])
        else:
            inc = rng.choice([1, 1, 1, 2, 2, 2, 3, 4])
            h = F(dt[1:]) * inc
        if rng.random() < 0.12:
            # T = None: time vector built from the input
            k = rng.choice([2, 3, 4, 6])
            U = self.rU(rng, s["m"], k, zero_ok=False)
            if U[0] == "S" and rng.random() < 0.7:
                U = ["M", s["m"], k, [str(rng.randint(-3, 3)) for _ in range(s["m"] * k)], "float"]
            return {"op": "forced", "sys": s, "T": None, "U": U, "X0": self.rX0(rng, s["n"])}
        T = self.rgrid(rng, h)
        k = len(T["vals"])
        return {"op": "forced", "sys": s, "T": T, "U": self.rU(rng, s["m"], k), "X0": self.rX0(rng, s["n"])}

    def gen_cont_forced(self, rng):
        nil = rng.random() < 0.3
        s = self.rsys(rng, "C", nilpotent=nil)
        h = rng.choice([F(1, 10), F(1, 4), F(1, 2), 1, F(1, 5), F(1, 8)])
        T = self.rgrid(rng, h)
        k = len(T["vals"])
        c = {"op": "forced", "sys": s, "T": T, "U": self.rU(rng, s["m"], k), "X0": self.rX0(rng, s["n"])}
        if nil:
            c["exactexp"] = True
        return c

    def gen_derived(self, rng):
        op = rng.choice(["step", "step", "impulse", "impulse", "initial"])
        cont = rng.random() < 0.4
        if cont:
            nil = rng.random() < 0.3
            s = self.rsys(rng, "C", nilpotent=nil)
            h = rng.choice([F(1, 10), F(1, 4), F(1, 2), 1])
        else:
            nil = False
            dt = self.rdt(rng)
            s = self.rsys(rng, dt)
            if dt in ("T", "N"):
                h = rng.choice([1, 1, F(1, 2), 2])
            else:
                h = F(dt[1:]) * rng.choice([1, 1, 1, 2, 2, 4, 3])
        T = self.rgrid(rng, h)
        c = {"op": op, "sys": s, "T": T,
             "input": rng.choice([-1, -1, rng.randrange(s["m"])]),
             "output": rng.choice([-1, -1, rng.randrange(s["p"])])}
        if op in ("step", "initial"):
            c["X0"] = self.rX0(rng, s["n"])
            if op == "initial" and c["X0"][0] == "S" and c["X0"][1] == "0" and s["n"] > 0:
                c["X0"] = ["V", [str(rng.choice([-2, -1, 1, 2])) for _ in range(s["n"])], "float"]
        if op == "initial":
            c["input"] = -1
        if nil:
            c["exactexp"] = True
        return c

    def gen_malformed(self, rng):
        c = self.gen_disc_forced(rng) if rng.random() < 0.6 else self.gen_cont_forced(rng)
        s = c["sys"]
        kind = rng.choice(["ushape", "ushape", "xshape", "xshape", "unequal", "nonmult", "short"])
        k = len(c["T"]["vals"]) if c["T"] else 3
        if kind == "ushape":
            m = s["m"]
            bad = rng.choice([(m, k + 1), (m + 1, k), (k, m) if k != m else (m, k + 2), (m, k - 1)])
            if rng.random() < 0.4:
                c["U"] = ["V", ["1"] * (k + rng.choice([-1, 1, 2])), "float"]
                if m == 1 and c["T"] is None:
                    c["T"] = self.rgrid(rng, 1, k=k, t0=0)
            else:
                c["U"] = ["M", bad[0], bad[1], ["1"] * (bad[0] * bad[1]), "float"]
            if c["T"] is None:
                c["T"] = self.rgrid(rng, F(s["dt"][1:]) if s["dt"][0] == "D" else 1, k=k, t0=0)
        elif kind == "xshape":
            n = s["n"]
            alt = rng.choice([["V", ["1"] * (n + 1), "float"], ["M", 1, n + 1, ["1"] * (n + 1), "float"],
                              ["M", n + 1, 1, ["1"] * (n + 1), "float"], ["M", n, 2, ["1"] * (2 * n), "float"]])
            if alt[0] == "M" and alt[1] * alt[2] == 0:
                alt = ["V", ["1"] * (n + 1), "float"]
            c["X0"] = alt
        elif kind == "unequal":
            if c["T"] is None or len(c["T"]["vals"]) < 3:
                return self.gen_malformed(rng)
            v = [F(x) for x in c["T"]["vals"]]
            j = rng.randrange(1, len(v))
            d = (v[1] - v[0]) * rng.choice([F(1, 2), F(1, 4), F(-1, 4)])
            v[j] += d
            c["T"] = {"vals": [tok(x) for x in v], "form": "exact"}
        elif kind == "nonmult":
            if s["dt"][0] != "D" or c["T"] is None:
                return self.gen_malformed(rng)
            h = F(s["dt"][1:]) * rng.choice([F(1, 2), F(3, 2), F(5, 2), F(1, 4), F(4, 3)])
            k = len(c["T"]["vals"])
            c["T"] = {"vals": [tok(i * h) for i in range(k)], "form": "exact"}
        else:   # a single time point, discrete time (continuous time accepts it: not generated)
            if s["dt"] == "C" or c["T"] is None:
                return self.gen_malformed(rng)
            c["T"] = {"vals": c["T"]["vals"][:1], "form": "exact"}
            c["U"] = ["M", s["m"], 1, ["1"] * s["m"], "float"]
        c["malformed"] = kind
        return c

    # ---- signals of unusual magnitude / sparsity (added after seeded change C06-m1) ----
    def scale_arr(self, a, dec=None, k=None):
        """the array argument with every value multiplied by float(dec) (float product: the token
        is the exact value of the float the implementation receives) or by 2^k (exact)."""
        def sv(x):
            q = F(x)
            if k is not None:
                return tok(q * F(2) ** k)
            return tok(fr(float(q) * float(dec)))
        if a[0] == "S":
            return ["S", sv(a[1]), "npfloat" if a[2] == "npfloat" else "float"]
        dtype = "list" if a[-1] == "list" else "float"
        if a[0] == "V":
            return ["V", [sv(x) for x in a[1]], dtype]
        return ["M", a[1], a[2], [sv(x) for x in a[3]], dtype]

    def nonzero_arr(self, rng, a):
        if any(v != 0 for v in arr_vals(a)) or not arr_vals(a):
            return a
        a = [x if not isinstance(x, list) else list(x) for x in a]
        if a[0] == "S":
            a[1] = str(rng.choice([-2, -1, 1, 2]))
        else:
            vals = a[1] if a[0] == "V" else a[3]
            vals[rng.randrange(len(vals))] = str(rng.choice([-2, -1, 1, 2]))
        return a

    def base_case(self, rng, cont, op="forced"):
        """an ordinary well-formed case with a given time grid and a non-zero input"""
        if cont:
            c = self.gen_cont_forced(rng)
        else:
            c = self.gen_disc_forced(rng)
        if op == "initial":
            while c["T"] is None:
                c = self.gen_disc_forced(rng)
            n = c["sys"]["n"]
            d = {"op": "initial", "sys": c["sys"], "T": c["T"],
                 "X0": ["V", [str(rng.randint(-3, 3)) for _ in range(n)], rng.choice(["float", "list"])],
                 "input": -1, "output": rng.choice([-1, -1, rng.randrange(c["sys"]["p"])])}
            if c.get("exactexp"):
                d["exactexp"] = True
            d["X0"] = self.nonzero_arr(rng, d["X0"])
            return d
        c["U"] = self.nonzero_arr(rng, c["U"])
        return c

    def gen_scaled(self, rng):
        """signals (input and/or initial state) of unusual magnitude: nano-units and below, or
        very large; uniformly scaled (the response scales with them: tolerance relative to the
        signal scale, exact for powers of two) or mixed with ordinary ones (tolerance = the
        rounding-error estimate of the ordinary part, so that a dropped tiny contribution shows)."""
        cont = rng.random() < 0.6
        op = "initial" if rng.random() < 0.12 else "forced"
        c = self.base_case(rng, cont, op)
        small = rng.random() < 0.8
        if rng.random() < 0.45:
            k, dec = rng.choice(POW_SMALL if small else POW_LARGE), None
        else:
            k, dec = None, rng.choice(DEC_SMALL if small else DEC_LARGE)
        info = {"kind": "pow2" if dec is None else "dec", "by": k if dec is None else dec}
        if op == "initial":
            c["X0"] = self.scale_arr(c["X0"], dec, k)
            info["mode"] = "x0"
        else:
            r = rng.random()
            n = c["sys"]["n"]
            if r < 0.45 or n == 0:
                c["U"] = self.scale_arr(c["U"], dec, k)
                c["X0"] = ["S", "0", "float"] if rng.random() < 0.7 else ["V", ["0"] * n, "float"]
                info["mode"] = "u"
            elif r < 0.75:
                c["U"] = self.scale_arr(c["U"], dec, k)
                c["X0"] = self.scale_arr(self.nonzero_arr(rng, c["X0"]), dec, k)
                info["mode"] = "both"
            elif r < 0.92:
                c["U"] = self.scale_arr(c["U"], dec, k)
                c["X0"] = self.nonzero_arr(rng, c["X0"])
                info["mode"] = "mixed-u"
            else:
                c["X0"] = self.scale_arr(self.nonzero_arr(rng, c["X0"]), dec, k)
                info["mode"] = "mixed-x0"
        c["scale"] = info
        return c

    def gen_sparse(self, rng):
        """inputs that are zero almost everywhere / cancel: one non-zero sample (possibly the
        last, possibly tiny), zero head, zero first sample, one active channel, zero-sum channels,
        channels that cancel each other.  From rest most of the time, so that the whole response
        comes from the few non-zero samples."""
        cont = rng.random() < 0.6
        c = self.base_case(rng, cont)
        s = c["sys"]
        m = s["m"]
        if c["T"] is not None:
            k = len(c["T"]["vals"])
        else:
            k = len(c["U"][1]) if c["U"][0] == "V" else (c["U"][2] if c["U"][0] == "M" else rng.choice([2, 3, 4, 6]))
        nz = lambda: rng.choice([-3, -2, -1, 1, 2, 3])
        U = [[0] * k for _ in range(m)]
        pat = rng.choice(["single", "single", "last", "head", "first0", "channel", "zerosum", "cancel"])
        if pat == "single":
            U[rng.randrange(m)][rng.randrange(k)] = nz()
        elif pat == "last":
            U[rng.randrange(m)][k - 1] = nz()
        elif pat == "head":
            j0 = rng.randrange(1, k)
            for i in range(m):
                for j in range(j0, k):
                    U[i][j] = rng.randint(-3, 3)
            U[rng.randrange(m)][rng.randrange(j0, k)] = nz()
        elif pat == "first0":
            for i in range(m):
                for j in range(1, k):
                    U[i][j] = nz()
        elif pat == "channel":
            i = m - 1 if rng.random() < 0.6 else rng.randrange(m)
            for j in range(k):
                U[i][j] = rng.randint(-3, 3)
            U[i][rng.randrange(k)] = nz()
        elif pat == "zerosum":
            for i in range(m):
                j1, j2 = rng.sample(range(k), 2)
                v = nz()
                U[i][j1], U[i][j2] = v, -v
        else:   # channels cancel each other at every sample (needs two inputs; else alternating)
            for j in range(k):
                v = rng.randint(-3, 3)
                if m >= 2:
                    U[0][j], U[m - 1][j] = v, -v
                else:
                    U[0][j] = v * (1 if j % 2 == 0 else -1)
            if not any(x for r in U for x in r):
                U[0][0] = 1
                if m >= 2:
                    U[m - 1][0] = -1
        flat = [str(x) for r in U for x in r]
        if m == 1 and rng.random() < 0.5:
            c["U"] = ["V", flat, rng.choice(["int", "float", "list"])]
        else:
            c["U"] = ["M", m, k, flat, rng.choice(["int", "float", "list"])]
        n = s["n"]
        if rng.random() < 0.7:
            c["X0"] = ["S", "0", "float"]
        c["sparse"] = pat
        if rng.random() < 0.3:
            small = rng.random() < 0.85
            if rng.random() < 0.5:
                k2, dec = rng.choice(POW_SMALL if small else POW_LARGE), None
            else:
                k2, dec = None, rng.choice(DEC_SMALL if small else DEC_LARGE)
            c["U"] = self.scale_arr(c["U"], dec, k2)
            if any(v != 0 for v in arr_vals(c["X0"])):
                c["X0"] = self.scale_arr(c["X0"], dec, k2)
                mode = "both"
            else:
                mode = "u"
            c["scale"] = {"kind": "pow2" if dec is None else "dec", "by": k2 if dec is None else dec,
                          "mode": mode}
        return c

    def gen_timescaled(self, rng):
        """the same dynamics in other time units (ms, us, ns, 2^-k s, ks): the time grid and the
        sampling time multiplied by s, continuous-time A and B divided by s.  Well-formed grids
        only (the closeness tests of the grid checks are modelled as exact)."""
        cont = rng.random() < 0.5
        c = self.base_case(rng, cont)
        while c["T"] is None:
            c = self.base_case(rng, cont)
        r = rng.random()
        if r < 0.4:
            k = rng.choice([-10, -20, -20, -30, -30, -40, 10, 20])
            s, info = F(2) ** k, {"kind": "pow2", "by": k}
        elif r < 0.55:
            # ordinary size, but not a binary fraction: steps of a third, a seventh, ...
            d = rng.choice(["1/3", "1/3", "1/7", "7/10", "3/7", "1/9", "11/3"])
            s, info = F(d), {"kind": "rat", "by": d}
        else:
            d = rng.choice(["1e-3", "1e-6", "1e-6", "1e-9", "1e-9", "1e-12", "1e3", "1e6"])
            s, info = F(d), {"kind": "dec", "by": d}
        sy = dict(c["sys"])
        c["T"] = {"vals": [tok(F(v) * s) for v in c["T"]["vals"]], "form": c["T"]["form"]}
        if sy["dt"][0] == "D":
            sy["dt"] = "D" + tok(F(sy["dt"][1:]) * s)
        elif sy["dt"] == "C":
            sy["A"] = [tok(F(x) / s) for x in sy["A"]]
            sy["B"] = [tok(F(x) / s) for x in sy["B"]]
        c["sys"] = sy
        c["tscale"] = info
        return c

    def generate(self, rng, tier):
        out = self.generate_base(rng, tier)
        # appended (the streams above are unchanged for a given seed)
        n2 = 170 if tier == "quick" else 4000
        for i in range(n2):
            out.append(self.gen_scaled(rng) if i % 5 < 3 else self.gen_sparse(rng))
        for i in range(40 if tier == "quick" else 1000):
            out.append(self.gen_timescaled(rng))
        return out

    def generate_base(self, rng, tier):
        n = 500 if tier == "quick" else 15000
        out = []
        for i in range(n):
            r = i % 10
            if r in (0, 1, 2, 3):
                out.append(self.gen_disc_forced(rng))
            elif r in (4, 5):
                out.append(self.gen_cont_forced(rng))
            elif r in (6, 7, 8):
                out.append(self.gen_derived(rng))
            else:
                out.append(self.gen_malformed(rng))
        return out

    def corpus(self):
        s1 = {"n": 1, "p": 1, "m": 1, "dt": "D1/10", "A": ["1/2"], "B": ["1"], "C": ["1"], "D": ["0"]}
        grid = lambda h, k: {"vals": [tok(F(h) * i) for i in range(k)], "form": "exact"}
        s2 = dict(s1, dt="T")
        return [
            # time units scaled by 1e6: integral (dyadic) data, grid spacing no power of two -> the input
            # interpolation rounds; must be judged with the tolerance (false alarm of thorough seed 21)
            {"op": "forced", "sys": {"n": 1, "p": 3, "m": 1, "dt": "D100000", "A": ["0"], "B": ["-1"],
                                     "C": ["0", "0", "0"], "D": ["1", "2", "1"]},
             "T": {"vals": ["0", "400000"], "form": "int"}, "U": ["V", ["1", "3"], "list"],
             "X0": ["S", "0", "float"], "tscale": {"kind": "dec", "by": "1e6"}},
            # the dlsim sample count once more, for dt=True / None (the system is run at the spacing
            # of the grid): 8 points, spacing 1/3 -> (T[-1]-T[0]) / ((T[-1]-T[0])/7) < 7 in floats
            # (np.arange(8) * (1/3), np.arange(32) * 0.3)
            {"op": "forced", "sys": s2, "T": dict(grid(F(1, 3), 8), form="mult"), "U": ["V", ["1"] * 8, "float"],
             "X0": ["S", "0", "float"]},
            {"op": "forced", "sys": dict(s1, dt="N"), "T": dict(grid(F(3, 10), 32), form="mult"),
             "U": ["V", ["1"] * 32, "float"], "X0": ["S", "0", "float"]},
            {"op": "step", "sys": s2, "T": dict(grid(F(1, 3), 8), form="mult"), "X0": ["S", "0", "float"],
             "input": -1, "output": -1},
            # DESIGN 6.2: decimated grid on a non-dyadic sampling time
            {"op": "forced", "sys": s1, "T": grid(F(1, 5), 4), "U": ["V", ["1"] * 4, "float"], "X0": ["S", "0", "float"]},
            {"op": "forced", "sys": s1, "T": grid(F(1, 5), 3), "U": ["V", ["1"] * 3, "float"], "X0": ["S", "0", "float"]},
            {"op": "forced", "sys": s1, "T": grid(F(3, 10), 5), "U": ["V", ["1", "2", "0", "-1", "1"], "float"],
             "X0": ["S", "1", "float"]},
            # the same rounding problem without decimation: grid starting at 2 (2.3 - 2 < 3 * 0.1)
            {"op": "forced", "sys": s1, "T": {"vals": ["2", "21/10", "11/5", "23/10"], "form": "exact"},
             "U": ["V", ["1"] * 4, "float"], "X0": ["S", "0", "float"]},
            {"op": "step", "sys": s1, "T": grid(F(1, 5), 7), "X0": ["S", "0", "float"], "input": -1, "output": -1},
            # impulse_response of a system with unspecified timebase (dt=None) is simulated in discrete time
            {"op": "impulse", "sys": {"n": 1, "p": 1, "m": 1, "dt": "N", "A": ["1/2"], "B": ["1"], "C": ["1"], "D": ["3"]},
             "T": grid(1, 4), "input": -1, "output": -1},
        ]

    # ---- execution ------------------------------------------------------------
    def expm_params(self, case):
        """' X0' or ' X1 expA expM' for the driver line"""
        s = case["sys"]
        if s["dt"] != "C" or case["T"] is None or len(case["T"]["vals"]) < 2:
            return " X0"
        n, m = s["n"], s["m"]
        A = exmat.from_flat(s["A"], n, n)
        B = exmat.from_flat(s["B"], n, m)
        N = n + 2 * m
        if case.get("exactexp"):
            v = [F(x) for x in case["T"]["vals"]]
            dt = (v[-1] - v[0]) / (len(v) - 1)
            Adt = exmat.scale(dt, A) if n else []
            M = exmat.zeros(N, N)
            for i in range(n):
                for j in range(n):
                    M[i][j] = A[i][j] * dt
                for j in range(m):
                    M[i][n + j] = B[i][j] * dt
            for j in range(m):
                M[n + j][n + m + j] = F(1)
            eA = frac_expm(Adt) if n else []
            eM = frac_expm(M)
            if eM is None or eA is None:
                raise ValueError("exactexp on a non-nilpotent matrix")
            ta = [tok(x) for r in eA for x in r]
            tm = [tok(x) for r in eM for x in r]
        else:
            Tf = np.asarray(time_value(case["T"]), dtype=float)
            dt = (Tf[-1] - Tf[0]) / (len(Tf) - 1)
            Af = np.array([[float(x) for x in r] for r in A], dtype=float).reshape(n, n)
            Bf = np.array([[float(x) for x in r] for r in B], dtype=float).reshape(n, m)
            M = np.block([[Af * dt, Bf * dt, np.zeros((n, m))],
                          [np.zeros((m, n + m)), np.identity(m)],
                          [np.zeros((m, n + 2 * m))]])
            ta = mat_tokens(scipy.linalg.expm(Af * dt)) if n else []
            tm = mat_tokens(scipy.linalg.expm(M))
        return (" X1 " + " ".join(ta + tm)).rstrip()

    def line(self, case):
        key = id(case)
        hit = self._line_cache.get(key)
        if hit is not None and hit[0] is case:
            return hit[1]
        ln = self._line(case)
        if len(self._line_cache) > 20000:
            self._line_cache.clear()
        self._line_cache[key] = (case, ln)
        return ln

    def _line(self, case):
        op = case["op"]
        T = case["T"]
        tt = "TN" if T is None else ("T %d %s" % (len(T["vals"]), " ".join(T["vals"]))).rstrip()
        head = "tr %s %s %s" % (op, sys_tokens(case["sys"]), tt)
        ex = self.expm_params(case)
        if op == "forced":
            return "%s %s %s%s" % (head, arr_tokens(case["U"]), arr_tokens(case["X0"]), ex)
        if op == "step":
            return "%s %s %d %d%s" % (head, arr_tokens(case["X0"]), case["input"], case["output"], ex)
        if op == "impulse":
            return "%s %d %d%s" % (head, case["input"], case["output"], ex)
        if op == "initial":
            return "%s %s %d%s" % (head, arr_tokens(case["X0"]), case["output"], ex)
        raise ValueError(op)

    def impl(self, case):
        op = case["op"]
        try:
            with warnings.catch_warnings(), ExpmSpy() as spy:
                warnings.simplefilter("ignore")
                sys = build_sys(case["sys"])
                T = time_value(case["T"])
                Tin = None if T is None else [tok(fr(x)) for x in np.asarray(T, dtype=float).reshape(-1)]
                sel = lambda v: None if v < 0 else v
                if op == "forced":
                    r = ct.forced_response(sys, T, arr_value(case["U"]), arr_value(case["X0"]), squeeze=False)
                elif op == "step":
                    r = ct.step_response(sys, T, arr_value(case["X0"]), input=sel(case["input"]),
                                         output=sel(case["output"]), squeeze=False)
                elif op == "impulse":
                    r = ct.impulse_response(sys, T, input=sel(case["input"]), output=sel(case["output"]),
                                            squeeze=False)
                else:
                    r = ct.initial_response(sys, T, arr_value(case["X0"]), output=sel(case["output"]),
                                            squeeze=False)
                res = self.canon_result(op, r)
                res["Tin"] = Tin
                res["expm_args"] = [[list(a.shape), mat_tokens(a)] for a in spy.args[:1]] + \
                                   [[list(a.shape), mat_tokens(a)] for a in spy.args[1:]
                                    if a.shape != spy.args[0].shape][:1]
                return res
        except Exception as e:  # noqa
            return {"err": classify_exc(e), "exc": "%s: %s" % (type(e).__name__, str(e)[:200])}

    def canon_result(self, op, r):
        t = [tok(fr(x)) for x in np.asarray(r.time, dtype=float).reshape(-1)]
        k = len(t)
        y = np.asarray(r.outputs, dtype=float)
        x = np.asarray(r.states, dtype=float)
        u = None if r.inputs is None else np.asarray(np.asarray(r.inputs).tolist(), dtype=float)
        traces = []
        if op == "forced" or op == "initial":
            if y.ndim != 2 or x.ndim != 2 or (u is not None and u.ndim != 2):
                return {"ok": {"t": t, "badshape": [list(y.shape), list(x.shape)]}}
            traces.append({"x": time_major(x), "y": time_major(y),
                           "u": None if u is None else time_major(u)})
        else:
            if y.ndim != 3 or x.ndim != 3 or u.ndim != 3:
                return {"ok": {"t": t, "badshape": [list(y.shape), list(x.shape)]}}
            for j in range(y.shape[1]):
                traces.append({"x": time_major(x[:, j, :]), "y": time_major(y[:, j, :]),
                               "u": time_major(u[:, j, :])})
        return {"ok": {"t": t, "traces": traces}}

    def parse_model(self, case, out):
        if out.startswith("err "):
            return {"err": out.split()[1]}
        tk = Tokens(out)
        assert tk.next() == "ok"
        bits = int(tk.next().split("=")[1])
        assert tk.next() == "T"
        t = [tk.next() for _ in range(tk.nat())]

        def block(tag):
            assert tk.next() == tag
            w, k = tk.nat(), tk.nat()
            return [[tk.next() for _ in range(w)] for _ in range(k)]
        traces = []
        fm = None
        if case["op"] == "forced":
            x, y, u = block("X"), block("Y"), block("U")
            traces.append({"x": x, "y": y, "u": u})
            if not tk.done():
                assert tk.next() == "FM"
                r, c = tk.nat(), tk.nat()
                fm = [[r, c], [tk.next() for _ in range(r * c)]]
        else:
            assert tk.next() == "NTR"
            for _ in range(tk.nat()):
                x, y, u = block("X"), block("Y"), block("U")
                traces.append({"x": x, "y": y, "u": u if case["op"] != "initial" else None})
        return {"ok": {"t": t, "traces": traces}, "bits": bits, "fm": fm}

    # ---- comparison -------------------------------------------------------------
    def timebase(self, case):
        d = case["sys"]["dt"]
        return {"C": "cont", "T": "true", "N": "none"}.get(d, "disc")

    def inc_of(self, case):
        s, T = case["sys"], case["T"]
        if s["dt"][0] != "D" or s["dt"] == "D" or T is None or len(T["vals"]) < 2:
            return F(1)
        v = [F(x) for x in T["vals"]]
        return (v[-1] - v[0]) / (len(v) - 1) / F(s["dt"][1:])

    def regime(self, case, model):
        """E: exact equality required"""
        s = case["sys"]
        if s["dt"] == "C" or "ok" not in model:
            return "T"
        sc = case.get("scale")
        unit = F(1)
        if sc:
            # signals scaled by a power of two, uniformly: IEEE arithmetic commutes exactly with the
            # scaling (no overflow / underflow at these sizes), so the case is exact iff the
            # unscaled one is; judge the unscaled values.  Everything else scaled: regime T.
            if sc["kind"] != "pow2" or sc["mode"].startswith("mixed"):
                return "T"
            unit = F(2) ** (-sc["by"])
            bits = max([0] + [rat_bits(F(v) * unit) for tr in model["ok"]["traces"]
                              for nm in ("x", "y", "u") if tr.get(nm) for row in tr[nm] for v in row])
            sig = [v * unit for key in ("U", "X0") if key in case for v in arr_vals(case[key])]
            if bits > 50 or any(abs(v) > 8 or v.denominator > 2 for v in sig):
                return "T"
        elif model.get("bits", 99) > 50:
            return "T"
        vals = [F(x) for k in "ABCD" for x in s[k]]
        for key in ("U", "X0"):
            if key in case:
                vals += [v * unit for v in arr_vals(case[key])]
        if case["T"] is not None:
            vals += [F(x) for x in case["T"]["vals"]]
        if s["dt"][0] == "D":
            vals.append(F(s["dt"][1:]))
        if not all(is_dyadic(v) for v in vals):
            return "T"
        ts = case.get("tscale")
        if ts and ts["kind"] != "pow2":
            # time units scaled by 1e6, 1/3, ...: the grid values may all be integers (hence dyadic) while
            # the grid *spacing* is no power of two, so the slopes / weights of the input interpolation are
            # rounded (false alarm of thorough seed 21: dt = 1e5, T = [0, 4e5], one ulp in a state)
            return "T"
        inc = self.inc_of(case)
        if inc.denominator != 1 or inc < 1 or (int(inc) & (int(inc) - 1)) != 0:
            return "T"
        return "E"

    def signal_class(self, case):
        sc = case.get("scale")
        ts = case.get("tscale")
        if ts:
            big = (ts["by"] > 0) if ts["kind"] == "pow2" else (float(F(ts["by"])) > 1)
            return "time-units-" + ("large" if big else "small")
        if not sc:
            return "sparse" if case.get("sparse") else "ordinary"
        big = (sc["by"] > 0) if sc["kind"] == "pow2" else (float(sc["by"]) > 1)
        cls = ("mixed-" if sc["mode"].startswith("mixed") else "") + ("large" if big else "tiny")
        return cls + ("-sparse" if case.get("sparse") else "")

    def signal_scales(self, case):
        """(largest |value| of U, of X0), None where the argument is absent or identically zero"""
        out = []
        for key in ("U", "X0"):
            v = [abs(x) for x in arr_vals(case[key])] if key in case else []
            out.append(max(v) if v and max(v) != 0 else None)
        return out

    def floor_scale(self, case):
        """the magnitude below which differences are not resolved, relative to which TOL applies:
        1 for ordinary cases (as before); for cases of the scaled stream the scale of the signals
        (uniform scaling), resp. of the *smaller* signal (mixed: ordinary initial state and tiny
        input or vice versa - there the tolerance is in effect the rounding-error estimate
        `noise_floor` of the ordinary part).  Returns (scale, tight)."""
        sc = case.get("scale")
        if not sc:
            return F(1), False
        su, sx = self.signal_scales(case)
        have = [v for v in (su, sx) if v is not None]
        if not have:
            return F(1), False
        if sc["mode"].startswith("mixed") and len(have) == 2:
            return min(have), True
        return max(have), False

    def features(self, case, kind, impl=None):
        inc = self.inc_of(case)
        feat = {"kind": kind, "op": case["op"], "timebase": self.timebase(case),
                "inc": "1" if inc == 1 else (">1" if inc.denominator == 1 and inc > 1 else "non-integer")}
        sig = self.signal_class(case)
        if sig != "ordinary":
            feat["signal"] = sig
        if impl is not None and "err" in impl:
            feat["exc"] = impl["exc"].split(":")[0]
            feat["msg"] = re.sub(r"[0-9]+", "#", impl["exc"].split(":", 1)[1].strip())[:60]
        return feat

    def noise_floor(self, case):
        """conditioning guard for regime T: 10^3 x an estimate of the rounding error of the
        floating-point recursion, (steps) x (growth of the recursion) x (input scale) x 2^-52.
        The tolerance is never below this (it only matters when an unstable system is driven
        along a trajectory that stays small, so that errors grow but the values do not)."""
        s, T = case["sys"], case["T"]
        n, m = s["n"], s["m"]
        if n == 0:
            return F(0)
        A = np.array([float(F(x)) for x in s["A"]], dtype=float).reshape(n, n)
        B = np.array([float(F(x)) for x in s["B"]], dtype=float).reshape(n, m)
        k = len(T["vals"]) if T is not None else (len(case["U"][1]) if case["U"][0] == "V" else case["U"][2])
        if k < 2:
            return F(0)
        if s["dt"] == "C":
            v = [F(x) for x in T["vals"]]
            h = float((v[-1] - v[0]) / (len(v) - 1))
            Ad = scipy.linalg.expm(A * h)
            steps = k - 1
            g = max(1.0, np.abs(Ad).sum(axis=1).max()) ** steps
            # (B enters as the integral of exp(A s) B over a step: ~ |B| h; h is replaced by 1 when
            # smaller, except for systems in other time units, where |B| ~ 1/h)
            hh = abs(h) if case.get("tscale") else max(1.0, abs(h))
            bsc = max(1.0, np.abs(B).sum(axis=1).max() * hh * max(1.0, np.abs(Ad).sum(axis=1).max()))
        else:
            inc = self.inc_of(case)
            steps = (k - 1) * (int(inc) if inc.denominator == 1 and inc >= 1 else 1)
            g = max(1.0, np.abs(A).sum(axis=1).max()) ** steps
            bsc = max(1.0, np.abs(B).sum(axis=1).max())
        sin = 0.0 if case.get("scale") else 1.0
        for key in ("U", "X0"):
            if key in case:
                sin = max([sin] + [abs(float(x)) for x in arr_vals(case[key])])
        if sin == 0.0:
            sin = 1.0
        if case["op"] == "impulse":
            sin = max(sin, 10.0)
        est = 1000.0 * steps * g * sin * bsc * 2.0 ** -52
        if not np.isfinite(est) or est > 1e300:
            est = 1e300
        return F(est)

    def arrays_differ(self, a, b, exact_regime, floor=F(0), fs=F(1), tight=False):
        """a, b: lists over time of token lists.  Returns a description or None."""
        if a is None or b is None:
            return None if a is None and b is None else "one side has no array"
        if len(a) != len(b) or any(len(r) != len(s) for r, s in zip(a, b)):
            return "shape: %dx%d vs %dx%d" % (len(a), len(a[0]) if a else 0, len(b), len(b[0]) if b else 0)
        if exact_regime:
            for j, (r, s) in enumerate(zip(a, b)):
                if r != s:
                    return "time index %d: implementation %s, exact %s" % (j, r, s)
            return None
        fb = [[F(x) for x in s] for s in b]
        sc = fs if tight else max([fs] + [abs(x) for s in fb for x in s])
        for j, (r, s) in enumerate(zip(a, fb)):
            for xa, xb in zip(r, s):
                if abs(F(xa) - xb) > max(TOL * sc, floor):
                    return "time index %d: implementation %s, exact %s" % (
                        j, [float(F(x)) for x in r], [float(x) for x in s])
        return None

    def compare(self, case, impl, model):
        if "err" in model:
            if "err" in impl:
                return Verdict(AGREE)
            return Verdict(DIFFERS, "model rejects the arguments (%s), implementation returns" % model["err"],
                           self.features(case, "returns-" + model["err"], impl))
        if "err" in impl:
            return Verdict(VIOLATES, "implementation raises %s where the response exists" % impl["exc"],
                           self.features(case, "raises", impl))
        a, b = impl["ok"], model["ok"]
        if "badshape" in a:
            return Verdict(DIFFERS, "array ranks %s" % a["badshape"], self.features(case, "rank", impl))
        # the response is returned at exactly the requested times
        if case["T"] is not None:
            if a["t"] != impl["Tin"]:
                return Verdict(VIOLATES, "returned times %s differ from the requested %s" % (a["t"], impl["Tin"]),
                               self.features(case, "time", impl))
        fst = F(1)
        if case.get("tscale"):
            fst = max([abs(F(x)) for x in b["t"]] + [F(0)]) or F(1)
        d = self.arrays_differ([a["t"]], [b["t"]], False, F(0), min(fst, F(1)))
        if d is not None:
            return Verdict(VIOLATES, "time vector: " + d, self.features(case, "time", impl))
        if len(a["traces"]) != len(b["traces"]):
            return Verdict(VIOLATES, "%d traces, expected %d" % (len(a["traces"]), len(b["traces"])),
                           self.features(case, "traces", impl))
        ex = self.regime(case, model) == "E"
        floor = F(0) if ex else self.noise_floor(case)
        fs, tight = self.floor_scale(case)
        if tight and floor == 0:
            tight = False
        if tight:
            floor = floor * TIGHT     # the floor is the whole tolerance here: keep >= 10^3 margin
        csc = max([1.0] + [abs(float(F(x))) for x in case["sys"]["C"]]) * max(1, case["sys"]["n"])
        for i, (ta, tb) in enumerate(zip(a["traces"], b["traces"])):
            for nm, what in (("x", "states"), ("y", "outputs"), ("u", "inputs")):
                fl = floor if nm == "x" else (floor * F(csc) if nm == "y" else F(0))
                d = self.arrays_differ(ta[nm], tb[nm], ex, fl, fs, tight and nm != "u")
                if d is not None:
                    kind = "shape" if d.startswith("shape") else "value-" + what
                    return Verdict(VIOLATES, "%s of trace %d: %s" % (what, i, d), self.features(case, kind, impl))
        # the matrix handed to expm is the one the model builds
        if model.get("fm") and impl.get("expm_args"):
            shp, vals = model["fm"]
            cand = [e for e in impl["expm_args"] if e[0] == shp]
            if cand:
                va = [F(x) for x in cand[0][1]]
                vb = [F(x) for x in vals]
                sc = max([F(1)] + [abs(x) for x in vb])
                if any(abs(x - y) > TOL_M * sc for x, y in zip(va, vb)):
                    return Verdict(DIFFERS, "matrix handed to expm differs from the model's",
                                   self.features(case, "expm-arg", impl))
        return Verdict(AGREE)

    def nontrivial(self, case, model):
        if "ok" not in model or case["sys"]["n"] == 0:
            return False
        if len(model["ok"]["t"]) < 3:
            return False
        for tr in model["ok"]["traces"]:
            if any(F(v) != 0 for row in tr["x"] for v in row):
                return True
        return False

    def stats(self, case, impl, model):
        s = case["sys"]
        st = {"op": case["op"], "timebase": self.timebase(case), "nstates": s["n"],
              "io": "%dx%d" % (s["p"], s["m"]),
              "outcome": ("err:" + model["err"]) if "err" in model else "ok"}
        inc = self.inc_of(case)
        st["inc"] = str(inc) if inc.denominator == 1 else "non-integer"
        if "ok" in model:
            st["regime"] = self.regime(case, model)
            st["steps"] = min(len(model["ok"]["t"]), 10)
        if "ok" in model and st.get("regime") == "T":
            try:
                big = max([F(1)] + [abs(F(v)) for tr in model["ok"]["traces"] for row in tr["x"] for v in row])
                fs, tight = self.floor_scale(case)
                if case.get("scale"):
                    big = fs if tight else max([fs] + [abs(F(v)) for tr in model["ok"]["traces"]
                                                       for row in tr["x"] for v in row])
                st["tolerance"] = "1e-9" if self.noise_floor(case) <= TOL * big else "conditioning-floor"
            except Exception:
                pass
        if case.get("exactexp"):
            st["exp"] = "exact-nilpotent"
        if case["T"] is None:
            st["T"] = "None"
        if "U" in case:
            st["Uform"] = case["U"][0]
        if "X0" in case:
            st["X0form"] = case["X0"][0]
        if case.get("malformed"):
            st["malformed"] = case["malformed"]
        st["signal"] = self.signal_class(case)
        if case.get("scale"):
            st["scale"] = "%s:%s:%s" % (case["scale"]["kind"], case["scale"]["by"], case["scale"]["mode"])
        if case.get("sparse"):
            st["sparse"] = case["sparse"]
        if case.get("tscale"):
            st["tscale"] = "%s:%s" % (case["tscale"]["kind"], case["tscale"]["by"])
        if "err" in model and "err" in impl:
            st["errkind_equal"] = impl["err"] == model["err"]
        return st

    # ---- shrinking / search ---------------------------------------------------------
    def shrink(self, case):
        import copy
        T = case["T"]
        # fewer time points
        if T is not None and len(T["vals"]) > 2:
            c = copy.deepcopy(case)
            k = len(T["vals"])
            c["T"]["vals"] = T["vals"][:-1]
            if "U" in c:
                U = c["U"]
                if U[0] == "V" and len(U[1]) == k:
                    U[1] = U[1][:-1]
                elif U[0] == "M" and U[2] == k:
                    U[3] = [U[3][i * k + j] for i in range(U[1]) for j in range(k - 1)]
                    U[2] = k - 1
            yield c
        # start at 0
        if T is not None and F(T["vals"][0]) != 0:
            c = copy.deepcopy(case)
            t0 = F(T["vals"][0])
            c["T"]["vals"] = [tok(F(x) - t0) for x in T["vals"]]
            yield c
        if T is not None and T["form"] != "exact":
            c = copy.deepcopy(case)
            c["T"]["form"] = "exact"
            yield c
        # fewer states
        s = case["sys"]
        n, p, m = s["n"], s["p"], s["m"]
        if n > 1 and not (case.get("X0") and case["X0"][0] != "S"):
            c = copy.deepcopy(case)
            n2 = n - 1
            c["sys"].update({"n": n2, "A": [s["A"][i * n + j] for i in range(n2) for j in range(n2)],
                             "B": s["B"][:n2 * m], "C": [s["C"][i * n + j] for i in range(p) for j in range(n2)]})
            yield c
        if "X0" in case and case["X0"][0] != "S":
            c = copy.deepcopy(case)
            c["X0"] = ["S", "0", "float"]
            yield c
        if "U" in case and case["U"][0] != "S":
            c = copy.deepcopy(case)
            c["U"] = ["S", "1", "float"]
            yield c
        for key in "ABCD":
            if any(F(x) != 0 for x in s[key]) and key != "A":
                c = copy.deepcopy(case)
                c["sys"][key] = ["0"] * len(s[key])
                yield c

    def search(self, rng, case, tier):
        out = []
        for _ in range(200):
            out.append(self.gen_disc_forced(rng) if rng.random() < 0.5 else self.gen_derived(rng))
        return out


from families.c06_tf import with_tf  # noqa: E402  (transfer-function stream, families/c06_tf.py)
from families import select_streams as _sel      # direct stream for _check_convert_array
FAMILY = _sel.extend(with_tf(C06), _sel.CCAStream())
