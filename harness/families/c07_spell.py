"""C07, spelling-pair stream: two calls of `interconnect` that are related by a generator of the
relation `IC.SpecEquiv` (lean/CtrlVerif/Lemmas/C07Spell.lean) which the base family
(families/c07.py) does not exercise in pairs, run on the real code and on the model; both must
match the model and the model must give the same result for the two spellings (theorem
`C07Spell.spelling_equiv`), so two spellings of one wiring give identical maps in /repo.

`with_spelling(Base)` extends the C07 family:

* tag `spell` — pairs for the generators
    - signal-name-only strings in an *explicit* `inplist` / `outlist` (`IOListEq.bare`): a base
      name `'cmd'` / slice `'cmd[0:2]'` / `'cmd[:]'` carried by several subsystems (one external
      signal per index, the subsystems summed), a scalar name `'meas'` / `'-meas'` carried by
      several subsystems, vs the explicit lists of index tuples;
    - the order inside a list that sums (`IOListEq.listPerm`, and for the sources of a
      connection `ConnsEq.split` + `perm`);
    - a spec naming several signals inside a list that sums vs the enumerated signals
      (`IOListEq.listExpand`);
    - `inputs=` / `outputs=` given vs omitted (`IOArgEq.count`).
* tag `sjpair` — `summing_junction` block vs summed lists (`C07Spell.junction_elim_flow`,
  `junction_elim_resp`): the first call wires a `ct.summing_junction` block into the diagram, the
  second one leaves the block out of the system list and feeds every input the block fed by the
  block's own sources, each with gain (gain of the connection) x (sign of the junction input).
  The system lists differ, so the maps do; compared: each call against the model as usual, and the
  A, B, C, D of the two interconnections against each other (the block has no states: equal
  matrices, not just equal transfer functions).

Everything else (tokenisation, driver line, running the real code, comparison of one call) is the
base family's."""
import sys as _sys
from fractions import Fraction

from core.runner import Verdict, AGREE, DIFFERS


def with_spelling(Base):
    B = _sys.modules[Base.__module__]
    enc = B.enc

    def proper_system(rng, name, inl, outl):
        n = rng.choice([1, 1, 2, 2, 3])
        nin, nout = len(inl), len(outl)
        return {"name": name, "in": inl, "out": outl, "n": n,
                "A": B.rand_mat(rng, n, n), "B": B.rand_mat(rng, n, nin, zero=0.15),
                "C": B.rand_mat(rng, nout, n, zero=0.15),
                "D": [["0"] * nin for _ in range(nout)]}

    def gmul(*gs):
        x = Fraction(1)
        for g in gs:
            x *= Fraction(g)
        return int(x) if x.denominator == 1 else float(x)

    # ------------------------------------------------------------------ tag `spell`
    def gen_spell(rng):
        ns = rng.choice([2, 3, 3])
        names = rng.sample(B.NAMES, ns)
        sh_in = [rng.random() < 0.6 for _ in range(ns)]
        sh_out = [rng.random() < 0.6 for _ in range(ns)]
        sh_in[rng.randrange(ns)] = True
        sh_out[rng.randrange(ns)] = True
        nown = [rng.choice([1, 2, 2]) for _ in range(ns)]
        systems = []
        for k in range(ns):
            inl = (["cmd[0]", "cmd[1]"] if sh_in[k] else []) + ["in%d" % k]
            outl = (["meas"] if sh_out[k] else []) + ["o%d[%d]" % (k, i) for i in range(nown[k])]
            systems.append(proper_system(rng, names[k], inl, outl))
        nm = lambda k: systems[k]["name"]
        own0 = lambda k: 1 if sh_out[k] else 0          # index of o<k>[0]
        # connections: in<k> <- sum of sources; the variant lists the sources in another order
        conns0, conns1 = [], []
        for k in range(ns):
            if rng.random() < 0.75:
                j = len(systems[k]["in"]) - 1
                srcs = []
                for _ in range(rng.choice([1, 2, 2, 3])):
                    a = rng.randrange(ns)
                    srcs.append((a, rng.randrange(len(systems[a]["out"])), rng.choice(B.GAINS)))
                perm = list(srcs)
                rng.shuffle(perm)
                conns0.append([(k, j)] + srcs)
                conns1.append([rng.choice([(k, j), "%s.in%d" % (nm(k), k)])] + perm)
        # inplist: the shared base name `cmd` (two external inputs, summed over the sharers)
        sharers = [k for k in range(ns) if sh_in[k]]
        kx = rng.randrange(ns)
        jx = len(systems[kx]["in"]) - 1
        inp0 = [[(k, 0) for k in sharers], [(k, 1) for k in sharers], [(kx, jx)]]
        inp1 = [rng.choice(["cmd", "cmd[:]", "cmd[0:2]", "cmd[0:]", "cmd[:2]"]),
                rng.choice([(kx, jx), "%s.in%d" % (nm(kx), kx), [(kx, jx)]])]
        if rng.random() < 0.3:
            # one index of the range only
            inp0 = [inp0[1], inp0[2]]
            inp1 = [rng.choice(["cmd[1:]", "cmd[1:2]"]), inp1[1]]
        # outlist: the shared scalar name `meas` / `-meas`; a sum with a two-signal spec, permuted
        osh = [k for k in range(ns) if sh_out[k]]
        g = rng.choice([1, 1, -1])
        out0 = [[(k, 0, g) for k in osh]]
        out1 = ["-meas" if g == -1 else "meas"]
        two = [k for k in range(ns) if nown[k] == 2]
        if two:
            a = rng.choice(two)
            b = rng.randrange(ns)
            ib = rng.randrange(len(systems[b]["out"]))
            g2 = rng.choice([1, -1, 2, 0.5])
            o = own0(a)
            out0.append([(a, o, g2), (a, o + 1, g2), (b, ib, 1)])
            forms = [(a, [o, o + 1], g2), (nm(a), "o%d" % a, g2), (nm(a), "o%d[0:2]" % a, g2),
                     (a, ["o%d[0]" % a, "o%d[1]" % a], g2)]
            if g2 == 1:
                forms += ["%s.o%d" % (nm(a), a), "%s.o%d[:]" % (nm(a), a)]
            if g2 == -1:
                forms += ["-%s.o%d" % (nm(a), a), (nm(a), "-o%d[0:2]" % a)]
            lst = [rng.choice(forms), rng.choice([(b, ib), (b, ib, 1), "%s.%s" % (nm(b), systems[b]["out"][ib])])]
            if rng.random() < 0.6:
                lst.reverse()
            out1.append(lst)
        c0 = {"connections": enc(conns0) if conns0 else False, "inplist": enc(inp0), "outlist": enc(out0)}
        c1 = {"connections": enc(conns1) if conns1 else False, "inplist": enc(inp1), "outlist": enc(out1)}
        r = rng.random()
        if r < 0.35:
            c1["inputs"] = ["w%d" % i for i in range(len(inp0))]
        elif r < 0.5:
            c0["outputs"] = ["z%d" % i for i in range(len(out0))]
        return {"tag": "spell", "sys": systems, "calls": [c0, c1]}

    # ------------------------------------------------------------------ tag `sjpair`
    def gen_sjpair(rng):
        m = rng.choice([1, 2, 2, 3])
        names = rng.sample(B.NAMES, m)
        G = []
        for k in range(m):
            low = names[k].lower().replace("_", "")
            nin, nout = rng.choice([1, 2, 2, 3]), rng.choice([1, 2, 2])
            G.append(proper_system(rng, names[k], ["%si%d" % (low, i) for i in range(nin)],
                                   ["%so%d" % (low, i) for i in range(nout)]))
        nj = rng.choice([2, 2, 3])
        signs = [rng.choice([1, 1, -1]) for _ in range(nj)]
        jin = ["s%d" % j for j in range(nj)]
        J = {"name": "sumJ", "sj": {"inputs": [("-" if signs[j] < 0 else "") + jin[j] for j in range(nj)],
                                    "output": "esum"}}
        free = [(b, p) for b in range(m) for p in range(len(G[b]["in"]))]
        rng.shuffle(free)
        # what feeds the junction inputs
        jsrc, jext = {}, []
        for j in range(nj):
            if signs[j] > 0 and rng.random() < 0.3:
                jext.append(j)
                jsrc[j] = []
            else:
                srcs = []
                for _ in range(rng.choice([1, 1, 2])):
                    a = rng.randrange(m)
                    srcs.append((a, rng.randrange(len(G[a]["out"])), rng.choice(B.GAINS)))
                jsrc[j] = srcs
        # which subsystem inputs the junction feeds (gain 1 when an external input enters it)
        fed = []
        for _ in range(rng.choice([1, 1, 2])):
            if free:
                (b, p) = free.pop()
                k = 1 if jext else rng.choice([1, 1, -1, 2, 0.5])
                extra = []
                if rng.random() < 0.3:
                    a = rng.randrange(m)
                    extra.append((a, rng.randrange(len(G[a]["out"])), rng.choice(B.GAINS)))
                fed.append((b, p, k, extra))
        other = []
        for _ in range(rng.choice([0, 1, 2])):
            if free:
                (b, p) = free.pop()
                a = rng.randrange(m)
                other.append([(b, p), (a, rng.randrange(len(G[a]["out"])), rng.choice(B.GAINS))])
        ext_free = [free.pop() for _ in range(min(len(free), rng.choice([0, 1, 1])))]
        outl = []
        for _ in range(rng.choice([1, 2])):
            a = rng.randrange(m)
            outl.append([(a, rng.randrange(len(G[a]["out"])), rng.choice(B.GAINS))])
        # call 0: with the block (index m)
        conns_full = [[(m, j)] + jsrc[j] for j in range(nj) if jsrc[j]]
        conns_full += [[(b, p), (m, 0, k)] + extra for (b, p, k, extra) in fed]
        conns_full += other
        inp_full = [[(m, j)] for j in jext] + [[bp] for bp in ext_free]
        # call 1: the block written out as summed lists
        conns_red = []
        for (b, p, k, extra) in fed:
            srcs = [(a, i, gmul(k, signs[j], g)) for j in range(nj) for (a, i, g) in jsrc[j]] + extra
            if srcs:
                conns_red.append([(b, p)] + srcs)
        conns_red += other
        inp_red = [[(b, p) for (b, p, k, extra) in fed] for j in jext] + [[bp] for bp in ext_free]
        if not inp_full or not fed:
            return None
        rng.shuffle(conns_red)
        c0 = {"connections": enc(conns_full), "inplist": enc(inp_full), "outlist": enc(outl)}
        c1 = {"connections": enc(conns_red) if conns_red else False, "inplist": enc(inp_red),
              "outlist": enc(outl), "sys": G}
        return {"tag": "sjpair", "sys": G + [J], "calls": [c0, c1]}

    class C07WithSpelling(Base):
        extra_modules = list(getattr(Base, "extra_modules", []) or []) + ["CtrlVerif.Props.C07Spell"]
        rule = Base.rule + (
            "; spelling-pair stream (families/c07_spell.py): signal-name-only strings (base names, "
            "slices, scalar names carried by several subsystems, '-name') in an explicit inplist / "
            "outlist vs the explicit index tuples, permuted sums, multi-signal specs inside sums vs "
            "the enumerated signals, inputs=/outputs= given vs omitted; summing_junction block vs the "
            "same diagram without the block and with summed lists (A, B, C, D of the two compared)")

        def generate(self, rng, tier):
            out = Base.generate(self, rng, tier)
            n = 60 if tier == "quick" else 600
            extra = []
            while len(extra) < n:
                c = gen_spell(rng) if rng.random() < 0.55 else gen_sjpair(rng)
                if c is None:
                    continue
                try:
                    self.line(c)
                except B.Untokenisable:
                    continue
                extra.append(c)
            return out + extra

        def sys_of(self, case, call):
            return call.get("sys") or case["sys"]

        def line(self, case):
            return [B.call_line(self.sys_of(case, c), c) for c in case["calls"]]

        def impl(self, case):
            return [B.canon_unused(B.run_call(self.sys_of(case, c), c), case.get("base"))
                    for c in case["calls"]]

        def compare(self, case, impl, model):
            if case.get("tag") != "sjpair":
                return Base.compare(self, case, impl, model)
            for k, c in enumerate(case["calls"]):
                v = self.compare_one(dict(case, sys=self.sys_of(case, c)), k, impl[k], model[k])
                if v is not None:
                    return v
            m0, m1 = model
            if ("err" in m0) != ("err" in m1):
                return Verdict(DIFFERS, "junction pair: one side raises in the model: %s vs %s" % (m0, m1),
                               {"kind": "generator", "tag": "sjpair"})
            if "err" not in m0:
                same = (m0["nin"], m0["nout"]) == (m1["nin"], m1["nout"]) and \
                    m0.get("lin") is not None and m0.get("lin") == m1.get("lin")
                if not same:
                    return Verdict(DIFFERS, "junction pair differs in the model: %s vs %s"
                                   % (m0.get("lin"), m1.get("lin")), {"kind": "generator", "tag": "sjpair"})
                # the implementation's two interconnections against each other (both already agree
                # with the model within TOL; this is the direct statement of the pair)
                i0, i1 = impl
                for key in ("A", "B", "C", "D"):
                    a, b = B.F(i0["lin"][key]), B.F(i1["lin"][key])
                    if [len(r) for r in a] != [len(r) for r in b] or not B.exmat.close(a, b, 2 * B.TOL):
                        from core.runner import VIOLATES
                        return Verdict(VIOLATES, "summing-junction block vs summed lists: %s differs: %s vs %s"
                                       % (key, i0["lin"][key], i1["lin"][key]),
                                       {"kind": "sjpair", "which": key, "tag": "sjpair"})
            return Verdict(AGREE)

    C07WithSpelling.__name__ = Base.__name__
    return C07WithSpelling
