"""C18 — shape / squeeze / transpose conventions of TimeResponseData and FrequencyResponseData:
correspondence between the real response objects and the Lean model `CtrlVerif.Model.Shape`
/ `Model.Response` (driver family `c18`).

The model is polymorphic in the element type and only selects / moves entries, so the driver
runs it on *positions* (y: 0.., x: 1000000.., u: 2000000.., time: 3000000..); the harness
applies the returned positions to the implementation's own raw arrays (`resp.y/x/u/t`,
`F.frdata`, `sys(x, squeeze=False)`) and compares shape and every entry exactly.  Raw arrays are
compared exactly with a reference call that uses no squeeze/transpose setting (values are
independent of the settings).

Besides single calls the family covers two *call-form / usage classes*: (a) the response
functions called with a list or tuple of systems (`trdlist`, `frlist`: every element of the
returned list is compared with the model of the list call, `timeResponseList` /
`freqResponseList`, which is proved to be the single-system call element by element), the method
forms `sys.step_response(...)`; (b) multi-step *histories* on response objects (`hist`, `histf`):
reads of every property / tuple unpacking / indexing interleaved with changes of the squeeze
setting by the three routes (copy `resp(squeeze=...)`, attribute assignment, package default)
and of transpose / return_x / return_magphase; every read is compared with the model's reading
for the settings in force at that read (`HState.run`); (c) *evaluation-point classes* (`frdevalw`,
and the `pp` / `om` variants of `lti` / `ltifr`): an FRD (built from data with a sorted, unsorted
or duplicate-carrying frequency list, from `frd(sys, omega)`, or interpolating) evaluated by
`F.eval` / `F(x)` / `evalfr` at points given as *values*: repeated, descending, permuted, empty,
missing, 2-D, off-axis, as array / list / tuple / scalar / 0-d array; `sys(x)` of tf / ss at
repeated and non-ascending points; `frequency_response` with an unsorted / repeated frequency
list.  The model (`RespFRD.evalAt`) looks every requested value up in the stored list; the
frequency axis of the result must follow the requested points."""
import itertools
import math
import re
from fractions import Fraction

import numpy as np
import control as ct

from core.runner import Family, Verdict, AGREE, VIOLATES, DIFFERS
from core.exact import fr, tok

OFF = 1000000
SRC = {0: "y", 1: "x", 2: "u", 3: "t"}
SQV = {"N": None, "T": True, "F": False, "X": "x"}
CFG_KEYS = ("control.squeeze_time_response", "control.squeeze_frequency_response",
            "forced_response.return_x")


# ----------------------------------------------------------------------------------------
# canonical forms
# ----------------------------------------------------------------------------------------
def ctok(z):
    z = complex(z)
    return tok(fr(z.real)) + "," + tok(fr(z.imag))


def vtok(v):
    if isinstance(v, (complex, np.complexfloating)):
        return ctok(v)
    return tok(fr(v))


def arr_canon(a):
    """shape + flat C-order data (exact tokens) of an ndarray / NamedSignal"""
    if a is None:
        return None
    a = np.asarray(a)
    flat = a.reshape(-1) if a.flags["C_CONTIGUOUS"] else np.ascontiguousarray(a).reshape(-1)
    return {"shape": [int(d) for d in a.shape], "data": [vtok(v) for v in flat.tolist()]}


def classify_exc(e):
    msg = str(e)
    if isinstance(e, ValueError) and not isinstance(e, IndexError):
        low = msg.lower()
        if "unknown squeeze value" in low or "can't determine" in low or "does not match data" in low \
                or "input list must be 1d" in low or "purely imaginary frequencies" in low \
                or "real-valued frequencies" in low:
            return "badArg"
        if "unknown signal name" in low:
            return "unknownName"
        if "not all frequencies" in low:
            return "missing"
        return "shape"
    if isinstance(e, IndexError):
        return "indexRange"
    if isinstance(e, TypeError) and "frequency data constructor needs" in msg:
        return "shape"
    if isinstance(e, AttributeError) and "'NoneType' object has no attribute 'index'" in msg:
        return "badArg"
    return type(e).__name__


def err_of(e):
    return {"err": classify_exc(e), "exc": "%s: %s" % (type(e).__name__, str(e)[:160])}


def guarded(f):
    try:
        return f()
    except Exception as e:  # noqa
        return err_of(e)


class Config:
    """set the three defaults for the duration of a case; always restored"""

    def __init__(self, **kv):
        self.kv = kv

    def __enter__(self):
        self.old = {k: ct.config.defaults[k] for k in CFG_KEYS}
        for k, v in self.kv.items():
            ct.config.defaults[k] = v

    def __exit__(self, *a):
        for k, v in self.old.items():
            ct.config.defaults[k] = v


# ----------------------------------------------------------------------------------------
# systems (integer-valued, discrete time: every simulated value is an exact integer)
# ----------------------------------------------------------------------------------------
def make_ss(p, m, n, dt=1):
    A = np.array([[1 if j >= i else 0 for j in range(n)] for i in range(n)], dtype=float).reshape(n, n)
    B = np.array([[1 + i + 2 * j for j in range(m)] for i in range(n)], dtype=float).reshape(n, m)
    C = np.array([[1 + 2 * i + j for j in range(n)] for i in range(p)], dtype=float).reshape(p, n)
    D = np.array([[3 + i + 3 * j for j in range(m)] for i in range(p)], dtype=float).reshape(p, m)
    return ct.ss(A, B, C, D, dt)


def make_tf(p, m, dt=1):
    num = [[[1.0 + i + 2 * j, 2.0 + j] for j in range(m)] for i in range(p)]
    den = [[[1.0, 2.0 + i + j, 1.0] for j in range(m)] for i in range(p)]
    return ct.tf(num, den, dt)


_SYS = {}


def get_sys(form, p, m, n, dt=1):
    key = (form, p, m, n, dt)
    if key not in _SYS:
        _SYS[key] = make_tf(p, m, dt) if form == "tf" else make_ss(p, m, n, dt)
    return _SYS[key]


def u_signal(m, T, u1d):
    U = np.array([[1 + 2 * j + (k * (j + 1)) % 5 for k in range(T)] for j in range(m)], dtype=float)
    if m == 1 and u1d:
        return U[0]
    return U


# ----------------------------------------------------------------------------------------
# time responses
# ----------------------------------------------------------------------------------------
def call_time(c, sq, tr, rx):
    """call the real response function of case c with the given keyword values"""
    fn, T = c["fn"], c["T"]
    if "sysl" in c:
        # a list / tuple of systems: the shared arguments (U, X0) are built for the first one
        # (the generator gives all systems of a forced / io / initial list the same number of
        # inputs and states)
        syss = [get_sys(f_, p_, m_, n_) for (f_, p_, m_, n_) in c["sysl"]]
        sysd = tuple(syss) if c.get("cont") == "tuple" else list(syss)
        form, p, m, n = c["sysl"][0]
        first = syss[0]
    else:
        p, m, n, form = c["p"], c["m"], c["n"], c.get("form", "ss")
        sysd = first = get_sys(form, p, m, n)
    tv = np.arange(T, dtype=float)
    if c.get("via") == "method" and "sysl" not in c and fn != "io":
        # sys.step_response(T, ...) etc.: thin wrappers that hand every keyword on
        fns = {"forced": sysd.forced_response, "initial": sysd.initial_response,
               "step": sysd.step_response, "impulse": sysd.impulse_response}
        wrap = lambda f: (lambda s_, *a, **k: f(*a, **k))
        F = {k: wrap(v) for k, v in fns.items()}
    else:
        F = {"forced": ct.forced_response, "initial": ct.initial_response,
             "step": ct.step_response, "impulse": ct.impulse_response}
    kw = {}
    if sq != "N":
        kw["squeeze"] = SQV[sq]
    if tr:
        kw["transpose"] = True
    if rx is not None:
        kw[c.get("rxname", "return_x")] = bool(rx)
    nst = first.nstates if first.nstates is not None else 2
    if fn == "forced":
        U = u_signal(m, T, c["u1d"])
        if tr:
            U = np.transpose(U)
        X0 = np.arange(1, nst + 1, dtype=float)
        if form == "tf":
            return F["forced"](sysd, tv, U, **kw)
        return F["forced"](sysd, tv, U, X0, **kw)
    if fn == "io":
        U = u_signal(m, T, False)
        X0 = np.arange(1, nst + 1, dtype=float)
        return ct.input_output_response(sysd, tv, U, X0, **kw)
    if fn == "initial":
        X0 = np.arange(1, nst + 1, dtype=float)
        if c["out"] is not None:
            kw["output"] = c["out"]
        return F["initial"](sysd, tv, X0, **kw)
    if c["inp"] is not None:
        kw["input"] = c["inp"]
    if c["out"] is not None:
        kw["output"] = c["out"]
    if fn == "step":
        return F["step"](sysd, tv, **kw)
    if fn == "impulse":
        return F["impulse"](sysd, tv, **kw)
    raise ValueError(fn)


def elem_case(c, i):
    """the single-system case that element i of a list call stands for"""
    form, p, m, n = c["sysl"][i]
    d = {k: c[k] for k in ("fn", "T", "inp", "out", "u1d", "sq", "tr", "rx", "cfgsq", "cfgrx", "call")}
    d.update({"kind": "trd", "form": form, "p": p, "m": m, "n": n})
    if "rxname" in c:
        d["rxname"] = c["rxname"]
    return d


def trd_observe(r, names=True):
    """every observable of a TimeResponseData object, canonical"""
    def it():
        return [arr_canon(v) for v in tuple(r)]

    obs = {
        "meta": [int(bool(r.issiso)), r.ninputs, r.noutputs, r.nstates, r.ntraces],
        "raw": {"y": arr_canon(r.y), "x": arr_canon(r.x), "u": arr_canon(r.u), "t": arr_canon(r.t)},
        "time": guarded(lambda: arr_canon(r.time)),
        "outputs": guarded(lambda: arr_canon(r.outputs)),
        "states": guarded(lambda: arr_canon(r.states)),
        "inputs": guarded(lambda: arr_canon(r.inputs)),
        "iter": guarded(it),
        "len": guarded(lambda: len(r)),
    }
    for i in range(4):
        obs["get%d" % i] = guarded(lambda i=i: arr_canon(r[i]))
    return obs


_REF = {}


def time_reference(c):
    """raw arrays of the same call with no squeeze / transpose / return_x setting"""
    key = (c["fn"], c.get("form", "ss"), c["p"], c["m"], c["n"], c["T"], c["inp"], c["out"], c["u1d"])
    if key not in _REF:
        with Config(**{k: v for k, v in zip(CFG_KEYS, (None, None, False))}):
            r = call_time(c, "F", False, None)
        _REF[key] = {"y": arr_canon(r.y), "x": arr_canon(r.x), "u": arr_canon(r.u), "t": arr_canon(r.t)}
    return _REF[key]


def apply_call(r, call):
    if call is None:
        return r
    kw = {}
    if call.get("sq") is not None:
        kw["squeeze"] = SQV[call["sq"]]
    if call.get("tr") is not None:
        kw["transpose"] = bool(call["tr"])
    if call.get("rx") is not None:
        kw["return_x"] = bool(call["rx"])
    return r(**kw)


TOBS = ("time", "outputs", "states", "inputs", "iter", "len", "get0", "get1", "get2", "get3")
FOBS = ("magnitude", "phase", "complex", "iter", "frdata")
# python-side names that read the same thing through another (deprecated) name
FOBS_ALIAS = {"response": "complex", "fresp": "frdata"}


def read_tobs(r, o):
    """one read of a TimeResponseData object"""
    if o == "iter":
        return guarded(lambda: [arr_canon(v) for v in tuple(r)])
    if o == "len":
        return guarded(lambda: len(r))
    if o.startswith("get"):
        return guarded(lambda: arr_canon(r[int(o[3:])]))
    return guarded(lambda: arr_canon(getattr(r, o)))


def read_fobs(F, o):
    """one read of a FrequencyResponseData object"""
    if o == "iter":
        return guarded(lambda: [arr_canon(v) for v in tuple(F)])
    return guarded(lambda: arr_canon(getattr(F, o)))


def set_cfg(key, v, via):
    if via == "set":
        mod, name = key.split(".", 1)
        ct.set_defaults(mod, **{name: v})
    else:
        ct.config.defaults[key] = v


def run_history(obj0, steps, cfgkey, reader):
    """apply the steps to the list of objects [obj0]; returns (readings, objects).  The caller
    holds a Config context, which restores the package defaults."""
    objs, reads = [obj0], []
    for st in steps:
        op = st[0]
        if op == "R":
            for o in st[2]:
                reads.append(reader(objs[st[1]], o))
        elif op == "C":
            kw = {}
            if cfgkey == CFG_KEYS[0]:
                if st[2] is not None:
                    kw["squeeze"] = SQV[st[2]]
                if st[3] is not None:
                    kw["transpose"] = bool(st[3])
                if st[4] is not None:
                    kw["return_x"] = bool(st[4])
            else:
                if st[2] != "-":                      # "-": keyword not given; "N": squeeze=None
                    kw["squeeze"] = SQV[st[2]]
                if st[3] is not None:
                    kw["return_magphase"] = bool(st[3])
            objs.append(objs[st[1]](**kw))
        elif op == "S":
            objs[st[1]].squeeze = SQV[st[2]]
        elif op == "ST":
            objs[st[1]].transpose = bool(st[2])
        elif op == "SR":
            objs[st[1]].return_x = bool(st[2])
        elif op == "SM":
            objs[st[1]].return_magphase = bool(st[2])
        elif op == "G":
            set_cfg(cfgkey, SQV[st[1]], st[2])
        else:
            raise ValueError(op)
    return reads, objs


def expand_reads(steps):
    """(object, observable, kind of the last change before the read) of every single read"""
    out, after = [], "none"
    for st in steps:
        if st[0] == "R":
            out += [(st[1], o, after) for o in st[2]]
        else:
            after = {"C": "copy", "G": "cfg"}.get(st[0], "set")
    return out


def step_tokens(steps, freq):
    toks, n = [], 0
    o = lambda v: "-" if v is None else str(v)
    for st in steps:
        op = st[0]
        if op == "R":
            for ob in st[2]:
                toks.append("R %d %s" % (st[1], FOBS_ALIAS.get(ob, ob) if freq else ob))
                n += 1
            continue
        n += 1
        if op == "C" and not freq:
            toks.append("C %d %s %s %s" % (st[1], o(st[2]), o(st[3]), o(st[4])))
        elif op == "C":
            toks.append("C %d %s %s" % (st[1], "N" if st[2] == "-" else st[2], o(st[3])))
        elif op == "G":
            toks.append("G %s" % st[1])
        else:
            toks.append("%s %d %s" % (op, st[1], st[2]))
    return "H %d %s" % (n, " ".join(toks))


def synth(shape, off):
    if shape is None:
        return None
    n = int(np.prod(shape)) if len(shape) else 1
    return (np.arange(n, dtype=float) * 2 + 1 + off).reshape(shape)


# ----------------------------------------------------------------------------------------
# frequency responses
# ----------------------------------------------------------------------------------------
def fsynth(shape):
    n = int(np.prod(shape)) if len(shape) else 1
    k = np.arange(n, dtype=float)
    return ((k + 1) + 1j * (2 * k * k - 3 * k + 1)).reshape(shape)


def fsys(form, p, m):
    key = ("f", form, p, m)
    if key not in _SYS:
        if form == "tf":
            num = [[[1.0 + i + 2 * j, 2.0 + j] for j in range(m)] for i in range(p)]
            den = [[[1.0, 2.0 + i + j, 3.0] for j in range(m)] for i in range(p)]
            _SYS[key] = ct.tf(num, den)
        elif form == "ss":
            A = np.array([[-1.0, 1.0], [0.0, -2.0]])
            B = np.array([[1.0 + i + 2 * j for j in range(m)] for i in range(2)])
            C = np.array([[1.0 + 2 * i + j for j in range(2)] for i in range(p)])
            D = np.array([[3.0 + i + 3 * j for j in range(m)] for i in range(p)])
            _SYS[key] = ct.ss(A, B, C, D)
        else:   # frd with 3 stored frequencies
            _SYS[key] = ct.frd(fsynth((p, m, 3)), [0.5, 1.0, 2.0])
    return _SYS[key]


FREQS = {1: [1.0], 2: [0.5, 2.0], 3: [0.5, 1.0, 2.0]}
# frequency values by id (distinct, exactly representable; ids 0..2 are the stored frequencies of
# fsys("frd", ...)): the model compares ids, the implementation the values
FV = [0.5, 1.0, 2.0, 4.0, 0.25, 8.0, 3.0, 16.0]


def freqs_of(c):
    """the frequency list handed to frequency_response: FREQS[N], or the values of the ids
    c["om"] in the order given (unsorted / repeated lists)"""
    if c.get("om") is not None:
        return [FV[i] for i in c["om"]]
    return FREQS[c["N"]]


def pointwise_ok(sysd, pts, full, tol=1e-9):
    """full[:, :, k] is the scalar evaluation sysd(pts[k]) for every k (the frequency axis follows
    the points, in the order given, repeats included); 1e-9 relative: the two are the same
    arithmetic up to vectorisation"""
    full = np.asarray(full)
    if full.ndim != 3 or full.shape[2] != len(pts):
        return False
    for k, x in enumerate(pts):
        v = np.asarray(sysd(complex(x), squeeze=False))
        if v.shape != full.shape[:2]:
            return False
        if not np.all(np.abs(v - full[:, :, k]) <= tol * np.maximum(1.0, np.abs(v))):
            return False
    return True


def evalw_stored(c):
    """ids of the stored frequency list of the FRD of an `frdevalw` case, as the object holds
    them: frd(sys, omega) sorts, so does the generator for an interpolating FRD"""
    if c["src"] == "data":
        return list(c["stored"])
    return sorted(c["stored"], key=lambda i: FV[i])


def evalw_frd(c):
    key = ("w", c["src"], c["p"], c["m"], tuple(c["stored"]))
    if key not in _SYS:
        vals = [FV[i] for i in c["stored"]]
        if c["src"] in ("ss", "tf"):
            _SYS[key] = ct.frd(fsys(c["src"], c["p"], c["m"]), vals)
        else:
            vals = [FV[i] for i in evalw_stored(c)]
            _SYS[key] = ct.frd(fsynth((c["p"], c["m"], len(vals))), vals, smooth=(c["src"] == "smooth"))
    return _SYS[key]


def evalw_arg(c):
    """the `omega` (F.eval) resp. `x` (F(x), evalfr) argument of an `frdevalw` case"""
    vals = [FV[i] for i in c["req"]]
    off, last = c.get("off", 0), len(vals) - 1
    if c["via"] == "eval":
        pts = [complex(v, 1.0) if (off and k == last) else v for k, v in enumerate(vals)]
        dtype = complex if off else float
    else:
        pts = [complex(0.5 if (off and k == last) else 0.0, v) for k, v in enumerate(vals)]
        dtype = complex
    osh, cont = c["oshape"], c["cont"]
    if osh == []:
        if cont == "np":
            return np.float64(pts[0]) if dtype is float else np.complex128(pts[0])
        if cont == "0d":
            return np.array(pts[0])
        return pts[0]
    if len(osh) == 1:
        if cont == "list":
            return list(pts)
        if cont == "tuple":
            return tuple(pts)
        return np.array(pts, dtype=dtype)
    a = np.array(pts, dtype=dtype).reshape(osh)
    return a.tolist() if cont == "list" else a


def req_class(c):
    st, req = evalw_stored(c), c["req"]
    if len(c["oshape"]) > 1:
        return "2d"
    if c.get("off"):
        return "offaxis"
    if any(i not in st for i in req):
        return "missing"
    if c["oshape"] == []:
        return "scalar"
    if not req:
        return "empty"
    pos = [st.index(i) for i in req]
    if len(set(req)) < len(req):
        return "repeated"
    if pos != sorted(pos):
        return "unsorted"
    return "sorted-unique"


def frd_observe(F):
    def it():
        out = []
        for v in tuple(F):
            out.append(arr_canon(v))
        return out
    return {
        "raw": arr_canon(F.frdata), "omega": arr_canon(F.omega),
        "magnitude": guarded(lambda: arr_canon(F.magnitude)),
        "phase": guarded(lambda: arr_canon(F.phase)),
        "complex": guarded(lambda: arr_canon(F.complex)),
        "iter": guarded(it),
    }


# ----------------------------------------------------------------------------------------
# model output parsing
# ----------------------------------------------------------------------------------------
class Tk:
    def __init__(self, s):
        self.t = s.split()
        self.i = 0

    def next(self):
        v = self.t[self.i]
        self.i += 1
        return v

    def peek(self):
        return self.t[self.i] if self.i < len(self.t) else None

    def nat(self):
        return int(self.next())

    def expect(self, w):
        v = self.next()
        if v != w:
            raise ValueError("expected %s got %s" % (w, v))

    def arr(self):
        """A ndim dims n data | - | E err"""
        k = self.next()
        if k == "-":
            return None
        if k == "E":
            return {"err": self.next()}
        if k != "A":
            raise ValueError("array token " + k)
        nd = self.nat()
        shape = [self.nat() for _ in range(nd)]
        n = self.nat()
        return {"shape": shape, "pos": [self.nat() for _ in range(n)]}

    def shape(self):
        if self.peek() == "-":
            self.next()
            return None
        nd = self.nat()
        return [self.nat() for _ in range(nd)]

    def arrlist(self):
        if self.peek() == "E":
            self.next()
            return {"err": self.next()}
        n = self.nat()
        return [self.arr() for _ in range(n)]


def parse_trd(out):
    if out.startswith("err "):
        return {"err": out.split()[1]}
    tk = Tk(out)
    tk.expect("ok")
    tk.expect("meta")
    res = {"meta": [tk.nat() for _ in range(5)]}
    tk.expect("raw")
    res["rawshape"] = {"y": tk.shape(), "x": tk.shape(), "u": tk.shape()}
    for name in ("time", "outputs", "states", "inputs", "legacy"):
        tk.expect(name)
        res[name] = tk.arr()
    tk.expect("iter")
    res["iter"] = tk.arrlist()
    tk.expect("len")
    res["len"] = tk.nat()
    for i in range(4):
        tk.expect("get%d" % i)
        res["get%d" % i] = tk.arr()
    return res


def parse_fitem(tk):
    k = tk.next()
    if k == "E":
        return {"err": tk.next()}
    if k == "omega":
        return {"kind": "omega"}
    a = tk.arr()
    a["kind"] = k
    return a


def parse_frd(out):
    if out.startswith("err "):
        return {"err": out.split()[1]}
    tk = Tk(out)
    tk.expect("ok")
    tk.expect("raw")
    res = {"rawshape": tk.shape()}
    tk.expect("nomega")
    res["nomega"] = tk.nat()
    tk.expect("siso")
    res["siso"] = tk.nat()
    for name in ("magnitude", "phase", "complex"):
        tk.expect(name)
        res[name] = parse_fitem(tk)
    tk.expect("iter")
    if tk.peek() == "E":
        tk.next()
        res["iter"] = {"err": tk.next()}
    else:
        n = tk.nat()
        res["iter"] = [parse_fitem(tk) for _ in range(n)]
    return res


def split_bar(out):
    """'ok n | seg | seg ...' -> list of segments (or {"err"})"""
    if out.startswith("err "):
        return {"err": out.split()[1]}
    parts = out.split(" | ")
    head = parts[0].split()
    if head[0] != "ok" or int(head[1]) != len(parts) - 1:
        raise ValueError("bad list output: " + out[:80])
    return parts[1:]


def parse_treading(seg):
    tk = Tk(seg)
    k = tk.next()
    if k == "arr":
        return tk.arr()
    if k == "tuple":
        return tk.arrlist()
    if k == "nat":
        return tk.nat()
    raise ValueError("reading " + k)


def parse_freading(seg):
    tk = Tk(seg)
    k = tk.next()
    if k == "item":
        return parse_fitem(tk)
    if k == "tuple":
        if tk.peek() == "E":
            tk.next()
            return {"err": tk.next()}
        n = tk.nat()
        return [parse_fitem(tk) for _ in range(n)]
    if k == "raw":
        a = tk.arr()
        a["kind"] = "raw"
        return a
    raise ValueError("reading " + k)


def parse_arr_line(out):
    if out.startswith("err "):
        return {"err": out.split()[1]}
    tk = Tk(out)
    tk.expect("ok")
    return tk.arr()


# ----------------------------------------------------------------------------------------
# comparison helpers
# ----------------------------------------------------------------------------------------
def close_tok(a, b, tol=Fraction(1, 10 ** 11)):
    x, y = Fraction(a), Fraction(b)
    return abs(x - y) <= tol * max(1, abs(x), abs(y))


class Mismatch(Exception):
    def __init__(self, kind, obs, detail, status=VIOLATES):
        self.kind, self.obs, self.detail, self.status = kind, obs, detail, status


def cmp_arr(obs, impl, model, lookup, fmap=None, approx=False):
    """impl: canonical array | None | {"err"}; model: {"shape","pos"} | None | {"err"};
    lookup(pos) -> expected token"""
    if isinstance(model, dict) and "err" in model:
        if isinstance(impl, dict) and "err" in impl:
            if impl["err"] != model["err"]:
                raise Mismatch("errkind", obs, "implementation %s, model %s" % (impl["exc"], model["err"]), DIFFERS)
            return
        raise Mismatch("returns", obs, "model raises %s, implementation returns" % model["err"], DIFFERS)
    if isinstance(impl, dict) and "err" in impl:
        raise Mismatch("raises", obs, "implementation raises %s" % impl["exc"])
    if model is None or impl is None:
        if model is None and impl is None:
            return
        raise Mismatch("none", obs, "implementation %s, model %s" % (
            "None" if impl is None else "array", "None" if model is None else "array"))
    if impl["shape"] != model["shape"]:
        raise Mismatch("shape", obs, "shape %s, expected %s" % (impl["shape"], model["shape"]))
    exp = [lookup(p) for p in model["pos"]]
    if fmap is not None:
        exp = [fmap(e) for e in exp]
    if approx:
        ok = len(exp) == len(impl["data"]) and all(close_tok(a, b) for a, b in zip(impl["data"], exp))
    else:
        ok = impl["data"] == exp
    if not ok:
        raise Mismatch("data", obs, "entries %s, expected %s" % (impl["data"][:12], exp[:12]))


def cplx_of(t):
    re_, im_ = t.split(",")
    return complex(float(Fraction(re_)), float(Fraction(im_)))


def mag_tok(t):
    return tok(fr(abs(cplx_of(t))))


def phase_tok(t):
    z = cplx_of(t)
    return tok(fr(math.atan2(z.imag, z.real)))


# ----------------------------------------------------------------------------------------
class C18(Family):
    prop = "C18"
    # source-text tie (DESIGN 10.3): Generated/ProcessResponse.lean is rewritten from /repo's
    # control/timeresp.py:_process_time_response and control/lti.py:_process_frequency_response on
    # every run and proved equal to the models processTime / processFreq
    extra_modules = ["CtrlVerif.Props.C18Gen", "CtrlVerif.Props.C18Perm"]
    # second part of the tie (tag py2lean-getitem): the data properties of TimeResponseData (control/timeresp.py)
    # and FrequencyResponseData (control/frdata.py) are regenerated as Generated/ResponseTime|ResponseFreq.lean
    # and proved equal to the models TRD.outputs/states/inputs/iter/len, RespFRD.magnitude/... in Props/C18GenProps.lean
    extra_modules += ["CtrlVerif.Props.C18GenProps"]

    def pre_build(self):
        import os
        from core import py2lean, py2lean_getitem, leanproj
        repo = os.environ.get("VERIF_REPO") or "/repo"
        problems, self.gen_info = py2lean.regenerate_arrays(repo, leanproj.LEAN)
        p2, i2 = py2lean_getitem.regenerate_c18(repo, leanproj.LEAN)
        self.gen_info.update(i2)
        return problems + p2

    exhaustive = True
    externals = ["numpy squeeze/transpose/indexing semantics (modelled on (shape, flat data), validated "
                 "entry by entry on every case)",
                 "the simulated / evaluated raw values (forced_response, horner: C06, C04) — only their "
                 "placement is checked here"]
    assumptions = [
        "systems with 1..2 inputs/outputs and 0..2 states stand for the classes '1' and '>1' of the "
        "rule table (the theorems are for arbitrary shapes)",
        "labels are the default ones; list (fancy) keys and slices of NamedSignal are not modelled",
        "magnitude/phase are compared with np.abs/np.angle of the raw data to 1e-11 relative"]
    rule = ("cross product {forced, input_output, initial, step, impulse response} x (p,m) in {1,2}^2 x "
            "nstates in {0,1,2} x squeeze in {None,True,False} by argument / attribute (__call__) / "
            "configuration default (and overriding combinations) x transpose x return_x (argument, "
            "attribute, forced_response.return_x) x input/output selection; direct TimeResponseData "
            "constructor calls with all 1-3-D shape classes incl. length-one time axes and invalid "
            "shapes; FrequencyResponseData constructor, sys.frequency_response / ct.frequency_response, "
            "sys(x) / evalfr / F.eval / F(x) with scalar, 1-element, n-element and 2-D points, for tf, ss, "
            "frd; name / integer / pair keys on every NamedSignal; the five time-response functions and "
            "ct.frequency_response called with a list / tuple of 1-3 systems of different sizes (every "
            "element compared with the model of the list call), method forms sys.step_response(...); "
            "histories on one response object (structured: read all, change squeeze by copy / attribute "
            "/ package default, read all on copy and original, change back, read; random: 4-12 steps of "
            "single / subset / full reads, copies, attribute assignments of squeeze, transpose, return_x, "
            "return_magphase, package default changes) for time and frequency responses; evaluation-point "
            "classes: FRDs (data with sorted / unsorted / duplicate-carrying frequency lists, frd(sys, "
            "omega), interpolating) evaluated by F.eval / F(x) / evalfr at points given as values - "
            "scalar, ascending, repeated, descending, permuted, random with repeats (from rng), empty, "
            "not stored, 2-D, off the axis; as array / list / tuple / scalar / 0-d array - the model looks "
            "every value up in the stored list; sys(x) of tf / ss at repeated / non-ascending points and "
            "frequency_response with unsorted / repeated frequency lists, each also compared point by "
            "point with scalar evaluations.  Every case is "
            "non-trivial when some array has more than one entry; distinct = distinct canonical case")

    # ---- generation ------------------------------------------------------------------
    def sq_routes(self, full):
        """(arg, cfg, call_sq) triples"""
        out = []
        for s in "NTF":
            out.append((s, "N", None))        # argument
            out.append(("N", s, None))        # configuration default
            out.append(("N", "N", s))         # attribute via __call__
        out = [x for i, x in enumerate(out) if x not in out[:i]]
        if full:
            for a, c, k in itertools.product("NTF", "NTF", [None, "N", "T", "F"]):
                if (a, c, k) not in out:
                    out.append((a, c, k))
        return out

    def gen_time(self, rng, tier):
        full = tier == "thorough"
        cases = []
        routes = self.sq_routes(False)
        allroutes = self.sq_routes(True)
        for fn in ("forced", "io", "initial", "step", "impulse"):
            for p, m in itertools.product((1, 2), (1, 2)):
                ns = (0, 1, 2) if fn in ("forced", "io") else (1, 2)
                for n in ns:
                    sels = [(None, None)]
                    if fn in ("step", "impulse"):
                        sels += [(m - 1, None), (None, p - 1), (m - 1, p - 1), (0, 0)]
                    if fn == "initial":
                        sels += [(None, p - 1)]
                    for inp, out in sels:
                        for T in ((3, 2) if full else (3,)):
                            base = {"kind": "trd", "fn": fn, "p": p, "m": m, "n": n, "T": T,
                                    "inp": inp, "out": out, "u1d": 0, "form": "ss"}
                            rts = allroutes if (full and T == 3) else routes
                            for (a, cf, k) in rts:
                                for tr in (0, 1):
                                    # return_x: not given / argument / attribute / config default
                                    rxs = [(None, 0, None), (1, 0, None), (None, 0, 1)]
                                    if fn == "forced":
                                        rxs += [(None, 1, None), (0, 1, None)]
                                    for (rx, cfgrx, callrx) in rxs:
                                        c = dict(base)
                                        call = None
                                        if k is not None or callrx is not None:
                                            call = {"sq": k, "tr": None, "rx": callrx}
                                        c.update({"sq": a, "tr": tr, "rx": rx, "cfgsq": cf, "cfgrx": cfgrx,
                                                  "call": call})
                                        cases.append(c)
        # variants: 1-D input to forced_response, transfer functions, transpose by attribute,
        # legacy keyword name, a configured value that is no squeeze value
        extra = []
        for c in cases:
            if c["fn"] == "forced" and c["m"] == 1 and c["n"] == 1:
                d = dict(c); d["u1d"] = 1; extra.append(d)
            if c["fn"] in ("forced", "step", "impulse") and c["n"] == 2 and c["inp"] is None and \
                    c["out"] is None and c["rx"] is None and (c["p"], c["m"]) == (1, 1):
                d = dict(c); d["form"] = "tf"; extra.append(d)
            if c["tr"] == 0 and c["call"] is None and c["rx"] is None and c["cfgrx"] == 0:
                d = dict(c); d["call"] = {"sq": None, "tr": 1, "rx": None}; extra.append(d)
            if c["rx"] == 1 and c["tr"] == 0 and c["call"] is None and c["fn"] != "io":
                d = dict(c); d["rxname"] = "return_states"; extra.append(d)
            if c["fn"] != "io" and c["call"] is None and c["cfgrx"] == 0 and c["n"] == 2:
                d = dict(c); d["via"] = "method"; extra.append(d)       # sys.step_response(T, ...)
        for fn in ("forced", "step", "initial"):
            extra.append({"kind": "trd", "fn": fn, "p": 1, "m": 1, "n": 1, "T": 3, "inp": None, "out": None,
                          "u1d": 0, "form": "ss", "sq": "N", "tr": 0, "rx": None, "cfgsq": "X", "cfgrx": 0,
                          "call": None})
        cases += extra
        if not full:
            keep = [c for i, c in enumerate(cases) if c["cfgsq"] == "X"]
            rest = [c for c in cases if c["cfgsq"] != "X"]
            rng.shuffle(rest)
            cases = keep + rest[: len(rest) // 2]
        return cases

    def gen_ctor(self, rng, tier):
        """direct constructor calls: every shape class of outputs / states / inputs"""
        cases = []
        specs = []
        for T in (3, 1):
            for p, m, n, k in itertools.product((1, 2), (1, 2), (1, 2), (1, 2)):
                # single trace
                specs.append(([T], [p, T], [n, T], [m, T], False))
                specs.append(([T], [p, T], None, [m, T], False))
                # multi trace (k traces)
                specs.append(([T], [p, k, T], [n, k, T], [m, k, T], False))
                if p == 1 and m == 1:
                    specs.append(([T], [T], [n, T], [T], False))          # 1-D data
                    specs.append(([T], [k, T], [n, k, T], [k, T], True))  # 2-D multi-trace
        specs += [([3], [2, 3], [2, 3], None, False),          # no inputs: SISO cannot be resolved
                  ([3], [2, 3], [2, 4], [1, 3], False),        # state / time mismatch
                  ([3], [2, 4], None, [1, 3], False),          # output / time mismatch
                  ([3], [2, 3], [2, 3], [1, 4], False),        # input / time mismatch
                  ([3], [2, 2, 3], [2, 3], [2, 2, 3], False),  # states not multi-trace
                  ([3], [2, 2, 3], [2, 1, 3], [2, 2, 3], False),
                  ([3], [2, 3], [2, 1, 3], [1, 3], False),
                  ([3], [2, 2, 3], None, [1, 3, 3], False),
                  ([3], [2, 2, 3], None, [3, 3], False),
                  ([3], [3], None, [3], True),
                  ([3], [1, 1, 1, 3], None, [3], False),
                  ([1, 3], [3], None, [3], False),
                  ([], [1, 1], None, [1, 1], False),
                  ([3], [2, 3], None, [1, 2, 3], False)]
        seen = set()
        uniq = []
        for s in specs:
            key = repr(s)
            if key not in seen:
                seen.add(key)
                uniq.append(s)
        for (ts, ys, xs, us, multi) in uniq:
            for siso in (None, 1, 0):
                for sq, cf in (("N", "N"), ("T", "N"), ("F", "N"), ("N", "T"), ("N", "F")):
                    for tr in (0, 1):
                        for rx in (0, 1):
                            cases.append({"kind": "ctor", "ts": ts, "ys": ys, "xs": xs, "us": us,
                                          "multi": int(multi), "siso": siso, "sq": sq, "tr": tr, "rx": rx,
                                          "cfgsq": cf, "cfgrx": 0, "call": None})
        cases.append({"kind": "ctor", "ts": [3], "ys": [1, 3], "xs": None, "us": [1, 3], "multi": 0, "siso": None,
                      "sq": "X", "tr": 0, "rx": 0, "cfgsq": "N", "cfgrx": 0, "call": None})
        if tier != "thorough":
            rng.shuffle(cases)
            cases = cases[: len(cases) // 4]
        return cases

    def gen_freq(self, rng, tier):
        cases = []
        sqroutes = [("N", "N", None), ("T", "N", None), ("F", "N", None), ("N", "T", None), ("N", "F", None),
                    ("N", "N", "T"), ("N", "N", "F"), ("T", "F", None), ("F", "T", None), ("T", "N", "F"),
                    ("F", "N", "T"), ("N", "T", "F"), ("N", "F", "T"), ("T", "N", "N")]
        # FRD constructor
        shapes = []
        for N in (3, 1):
            shapes.append(([N], [N]))
            for p, m in itertools.product((1, 2), (1, 2)):
                shapes.append(([p, m, N], [N]))
        shapes += [([], []), ([2, 3], [3]), ([2, 1, 3], [2]), ([3], [1, 3]), ([1, 1, 1, 3], [3]), ([3], [])]
        for rs, os_ in shapes:
            for (a, cf, k) in sqroutes:
                for rm in (0, 1):
                    call = None if k is None else {"sq": k, "rm": None}
                    cases.append({"kind": "frd", "rs": rs, "os": os_, "sq": a, "rm": rm, "cfgsq": cf, "call": call})
            cases.append({"kind": "frd", "rs": rs, "os": os_, "sq": "N", "rm": 0, "cfgsq": "N",
                          "call": {"sq": "N", "rm": 1}})
        cases.append({"kind": "frd", "rs": [2, 1, 3], "os": [3], "sq": "X", "rm": 0, "cfgsq": "N", "call": None})
        cases.append({"kind": "frd", "rs": [2, 1, 3], "os": [3], "sq": "N", "rm": 0, "cfgsq": "X", "call": None})
        # sys.frequency_response / ct.frequency_response
        for form in ("tf", "ss", "frd"):
            for p, m in itertools.product((1, 2), (1, 2)):
                for N in (3, 2, 1):
                    for (a, cf, k) in sqroutes:
                        for via in ("method", "func"):
                            call = None if k is None else {"sq": k, "rm": None}
                            cases.append({"kind": "ltifr", "form": form, "p": p, "m": m, "N": N, "sq": a,
                                          "cfgsq": cf, "call": call, "via": via})
        # sys(x) / evalfr
        for form in ("tf", "ss"):
            for p, m in itertools.product((1, 2), (1, 2)):
                for xs in ([], [1], [2], [3], [1, 2], [0]):
                    for (a, cf) in (("N", "N"), ("T", "N"), ("F", "N"), ("N", "T"), ("N", "F"), ("T", "F"),
                                    ("F", "T"), ("N", "X")):
                        for via in ("call", "evalfr"):
                            cases.append({"kind": "lti", "form": form, "p": p, "m": m, "xs": xs, "sq": a,
                                          "cfgsq": cf, "via": via})
        # F.eval / F(x)
        for p, m in itertools.product((1, 2), (1, 2)):
            for ks, scalar in (([1], 1), ([1], 0), ([0, 2], 0), ([0, 1, 2], 0), ([2], 1)):
                for (a, cf) in (("N", "N"), ("T", "N"), ("F", "N"), ("N", "T"), ("N", "F")):
                    for via in ("eval", "call"):
                        cases.append({"kind": "frdeval", "p": p, "m": m, "ks": ks, "scalar": scalar, "sq": a,
                                      "cfgsq": cf, "via": via})
        if tier != "thorough":
            rng.shuffle(cases)
            cases = cases[: len(cases) // 3]
        return cases

    def gen_keys(self, rng, tier):
        cases = []
        for fn in ("forced", "initial", "step", "impulse", "io"):
            for p, m in itertools.product((1, 2), (1, 2)):
                sels = [(None, None)]
                if fn in ("step", "impulse"):
                    sels.append((0, 0))
                for inp, out in sels:
                    for sq in "NTF":
                        for tr in (0, 1):
                            base = {"kind": "trd", "fn": fn, "p": p, "m": m, "n": 2, "T": 3, "inp": inp,
                                    "out": out, "u1d": 0, "form": "ss", "sq": sq, "tr": tr, "rx": None,
                                    "cfgsq": "N", "cfgrx": 0, "call": None}
                            for obs in ("outputs", "states", "inputs"):
                                keys = [["N", 0], ["I", 0], ["N", 1], ["I", 1], ["N", "zz"], ["I", 5],
                                        ["P", ["N", 0], ["N", 0]], ["P", ["I", 0], ["I", 0]],
                                        ["P", ["N", 1], ["N", 1]], ["P", ["I", 1], ["I", 1]],
                                        ["P", ["N", 1], ["I", 0]], ["P", ["I", 0], ["N", 1]],
                                        ["P", ["N", 0], ["N", "zz"]]]
                                for key in keys:
                                    cases.append({"kind": "key", "base": base, "obs": obs, "key": key})
        for form in ("tf",):
            for p, m in itertools.product((1, 2), (1, 2)):
                for sq in "NTF":
                    base = {"kind": "ltifr", "form": form, "p": p, "m": m, "N": 3, "sq": sq, "cfgsq": "N",
                            "call": None, "via": "method"}
                    for obs in ("magnitude", "complex"):
                        for key in (["N", 0], ["I", 0], ["N", 1], ["I", 1], ["P", ["N", 0], ["N", 0]],
                                    ["P", ["I", 0], ["I", 0]], ["P", ["N", 1], ["N", 1]],
                                    ["P", ["I", 1], ["I", 1]], ["N", "zz"]):
                            cases.append({"kind": "key", "base": base, "obs": obs, "key": key})
        if tier != "thorough":
            rng.shuffle(cases)
            cases = cases[: len(cases) // 4]
        return cases

    # ---- lists / tuples of systems --------------------------------------------------------
    def gen_lists(self, rng, tier):
        full = tier == "thorough"
        cases = []
        free = [[["ss", 1, 1, 1], ["ss", 2, 1, 2]],
                [["ss", 1, 1, 2], ["ss", 1, 2, 1], ["ss", 2, 2, 2]],
                [["ss", 2, 1, 1]],
                [["tf", 1, 1, 2], ["ss", 1, 2, 2]]]
        tied = [[["ss", 1, 1, 2], ["ss", 2, 1, 2]],          # same inputs / states: shared U, X0
                [["ss", 1, 2, 1], ["ss", 2, 2, 1]],
                [["ss", 1, 1, 1]],
                [["ss", 2, 1, 2], ["ss", 1, 1, 2], ["ss", 1, 1, 2]]]
        routes = self.sq_routes(full)
        for fn in ("forced", "io", "initial", "step", "impulse"):
            lists = free if fn in ("step", "impulse") else tied
            if fn in ("forced", "io"):
                lists = lists + [[["ss", 1, 1, 0], ["ss", 2, 1, 0]]]
            for li, sysl in enumerate(lists):
                sels = [(None, None)]
                if fn in ("step", "impulse"):
                    sels += [(0, 0), (None, 0), (0, None), (1, None)]   # input 1: IndexError for m = 1
                if fn == "initial":
                    sels += [(None, 0), (None, 1)]
                for inp, out in sels:
                    for (a, cf, k) in routes:
                        for tr in (0, 1):
                            rxs = [(None, 0, None), (1, 0, None), (None, 0, 1)]
                            if fn == "forced":
                                rxs += [(None, 1, None), (0, 1, None)]
                            for (rx, cfgrx, callrx) in rxs:
                                if (inp, out) != (None, None) and (rx, cfgrx, callrx) != (None, 0, None):
                                    continue
                                call = None
                                if k is not None or callrx is not None:
                                    call = {"sq": k, "tr": None, "rx": callrx}
                                c = {"kind": "trdlist", "fn": fn, "sysl": sysl, "T": 3, "inp": inp,
                                     "out": out, "u1d": 0, "sq": a, "tr": tr, "rx": rx, "cfgsq": cf,
                                     "cfgrx": cfgrx, "call": call,
                                     "cont": "tuple" if (li + tr + len(cases)) % 3 == 0 else "list"}
                                cases.append(c)
                                if rx == 1 and tr == 0 and call is None and fn != "io":
                                    d = dict(c); d["rxname"] = "return_states"; cases.append(d)
        # frequency responses of a list of systems
        fl = [[["tf", 1, 1], ["ss", 2, 1]], [["ss", 1, 2], ["tf", 2, 2], ["ss", 1, 1]], [["tf", 2, 1]],
              [["frd", 1, 1], ["frd", 2, 2]]]
        sqroutes = [("N", "N", None), ("T", "N", None), ("F", "N", None), ("N", "T", None), ("N", "F", None),
                    ("N", "N", "T"), ("N", "N", "F"), ("T", "F", None), ("F", "T", None), ("T", "N", "F")]
        for li, sysl in enumerate(fl):
            for N in (3, 1):
                for (a, cf, k) in sqroutes:
                    call = None if k is None else {"sq": k, "rm": None}
                    cases.append({"kind": "frlist", "sysl": sysl, "N": N, "sq": a, "cfgsq": cf, "call": call,
                                  "cont": "tuple" if (li + N) % 2 else "list"})
        if not full:
            rng.shuffle(cases)
            cases = cases[: len(cases) // 2]
        return cases

    # ---- histories -----------------------------------------------------------------------
    def change(self, rng, route, v, j, nobj, freq):
        """the step that brings squeeze value v into force by the given route; returns
        (steps, object to read afterwards, new number of objects)"""
        if route == "copy":
            if freq:
                return [["C", j, "-" if v == "N" and rng.random() < 0.5 else v, None]], nobj, nobj + 1
            return [["C", j, v, None, None]], nobj, nobj + 1
        if route == "set":
            return [["S", j, v]], j, nobj
        return [["G", v, "set" if rng.random() < 0.5 else "dict"]], j, nobj

    def structured_hist(self, rng, freq):
        """read everything, change the setting, read everything again (on the copy and on the
        original), change back / further by another route, read again"""
        allobs = list(FOBS if freq else TOBS)
        extra = ["response", "fresp"] if freq else []
        out = []
        for route in ("copy", "set", "cfg"):
            for v in ("T", "F"):
                for route2 in ("copy", "set", "cfg"):
                    first = list(allobs)
                    if rng.random() < 0.5:
                        rng.shuffle(first)
                    steps = [["R", 0, first + (extra if rng.random() < 0.3 else [])]]
                    ch, j, nobj = self.change(rng, route, v, 0, 1, freq)
                    steps += ch
                    steps.append(["R", j, list(allobs)])
                    if j != 0:
                        steps.append(["R", 0, list(allobs)])
                    # a cfg value only shows on an object whose attribute is unset
                    v2 = rng.choice(["N", "T", "F"])
                    if route == "cfg" and route2 != "cfg":
                        v2 = rng.choice(["T", "F"])
                    ch2, j2, nobj = self.change(rng, route2, v2, j, nobj, freq)
                    steps += ch2
                    second = list(allobs)
                    rng.shuffle(second)
                    steps.append(["R", j2, second])
                    if j2 != j:
                        steps.append(["R", j, [rng.choice(allobs), rng.choice(allobs)]])
                    out.append(steps)
        return out

    def random_hist(self, rng, freq):
        allobs = list(FOBS if freq else TOBS) + (["response", "fresp"] if freq else [])
        nobj, steps = 1, []
        for _ in range(rng.randint(4, 12)):
            x = rng.random()
            j = rng.randrange(nobj)
            if x < 0.45:
                y = rng.random()
                if y < 0.5:
                    obs = [rng.choice(allobs)]
                elif y < 0.75:
                    obs = rng.sample(allobs, rng.randint(2, 4))
                else:
                    obs = list(allobs[: len(FOBS if freq else TOBS)])
                steps.append(["R", j, obs])
            elif x < 0.60 and nobj < 4:
                if freq:
                    steps.append(["C", j, rng.choice(["-", "N", "T", "F", "T", "F"]),
                                  rng.choice([None, None, 0, 1])])
                else:
                    steps.append(["C", j, rng.choice([None, "N", "T", "F", "T", "F"]),
                                  rng.choice([None, None, 0, 1]), rng.choice([None, None, 0, 1])])
                nobj += 1
            elif x < 0.75:
                steps.append(["S", j, rng.choice(["N", "T", "F", "T", "F", "N", "T", "F", "X"])])
            elif x < 0.85:
                if freq:
                    steps.append(["SM", j, rng.randint(0, 1)])
                else:
                    steps.append([rng.choice(["ST", "SR"]), j, rng.randint(0, 1)])
            else:
                steps.append(["G", rng.choice(["N", "T", "F", "T", "F", "N", "T", "F", "X"]),
                              rng.choice(["set", "dict"])])
        steps.append(["R", rng.randrange(nobj), list(allobs[: len(FOBS if freq else TOBS)])])
        return steps

    def gen_hist(self, rng, tier):
        full = tier == "thorough"
        cases = []
        # time responses: objects from the response functions and from the constructor
        tb = []
        for fn in ("forced", "io", "initial", "step", "impulse"):
            for p, m in itertools.product((1, 2), (1, 2)):
                for tr in (0, 1):
                    tb.append({"kind": "trd", "fn": fn, "p": p, "m": m, "n": 2, "T": 3, "inp": None, "out": None,
                               "u1d": 0, "form": "ss", "sq": "N", "tr": tr, "rx": None, "cfgsq": "N", "cfgrx": 0,
                               "call": None})
        tb.append(dict(tb[0], fn="io", n=0, p=1, m=1, tr=0))
        tb.append(dict(tb[0], fn="step", form="tf", p=1, m=1, tr=0))
        tb.append(dict(tb[0], fn="step", p=2, m=2, inp=0, out=1, tr=0))
        tb.append(dict(tb[0], fn="forced", p=1, m=1, n=1, u1d=1, tr=0, rx=1))
        for (ts, ys, xs, us, multi) in (([3], [2, 2, 3], [2, 2, 3], [1, 2, 3], 0), ([3], [3], [2, 3], [3], 0),
                                        ([3], [2, 3], [1, 2, 3], [2, 3], 1), ([1], [1, 1], None, [1, 1], 0)):
            tb.append({"kind": "ctor", "ts": ts, "ys": ys, "xs": xs, "us": us, "multi": multi, "siso": None,
                       "sq": "N", "tr": 0, "rx": 0, "cfgsq": "N", "cfgrx": 0, "call": None})
        fb = []
        for form in ("tf", "ss", "frd"):
            for p, m in itertools.product((1, 2), (1, 2)):
                for N in (3, 1):
                    fb.append({"kind": "ltifr", "form": form, "p": p, "m": m, "N": N, "sq": "N", "cfgsq": "N",
                               "call": None, "via": "func" if (p + m + N) % 2 else "method"})
        for rs, os_ in (([3], [3]), ([1, 1, 3], [3]), ([2, 1, 3], [3]), ([1, 2, 1], [1]), ([], [])):
            fb.append({"kind": "frd", "rs": rs, "os": os_, "sq": "N", "rm": 0, "cfgsq": "N", "call": None})
        for freq, bases, kind in ((False, tb, "hist"), (True, fb, "histf")):
            for b in bases:
                st = self.structured_hist(rng, freq)
                nrand = 6 if full else 2
                if not full:
                    st = rng.sample(st, 3)
                for steps in st:
                    cases.append({"kind": kind, "base": b, "steps": steps})
                for _ in range(nrand):
                    b2 = dict(b)
                    # start from a non-default setting now and then
                    if rng.random() < 0.4:
                        b2["sq"] = rng.choice(["T", "F"])
                    if rng.random() < 0.25:
                        b2["cfgsq"] = rng.choice(["T", "F"])
                    cases.append({"kind": kind, "base": b2, "steps": self.random_hist(rng, freq)})
        return cases

    # ---- evaluation points: repeated / non-ascending / missing / empty / 2-D ----------------------
    def gen_evalpts(self, rng, tier):
        """F.eval / F(x) / evalfr(F, x) at points given as values, and the same point classes for
        sys(x) of tf / ss (`lti` with "pp") and for frequency_response (`ltifr` with "om")"""
        full = tier == "thorough"
        cases = []
        sqs = [("N", "N"), ("T", "N"), ("F", "N"), ("N", "T"), ("N", "F"), ("T", "F"), ("F", "T")]
        stored = [("data", [0, 1, 2]), ("data", [2, 0, 1]), ("data", [1, 1, 3]), ("data", [3, 0, 3, 1]),
                  ("data", [0, 1, 2, 3]), ("data", [5]), ("data", [4, 0]),
                  ("ss", [0, 1, 2]), ("tf", [0, 1, 2, 3]), ("ss", [2, 0, 1]), ("tf", [1, 1, 0]),
                  ("smooth", [0, 1, 2]), ("smooth", [4, 0, 1, 2, 3]), ("smooth", [1, 3])]

        def requests(src, st):
            """(oshape, req, off, container) of every point class for the stored ids st"""
            uniq = [i for k, i in enumerate(st) if i not in st[:k]]
            asc = sorted(uniq, key=lambda i: FV[i])
            other = [i for i in range(len(FV)) if i not in st]
            out = []
            for i in (uniq[0], uniq[-1]):
                out.append(([], [i], 0, rng.choice(["py", "np", "0d"])))              # scalar
            cont = lambda: rng.choice(["array", "array", "list", "tuple"])
            out.append(([len(asc)], list(asc), 0, cont()))                             # all, ascending
            out.append(([1], [rng.choice(uniq)], 0, cont()))                           # one-element list
            a, b = asc[0], asc[-1]
            out.append(([3], [a, a, b], 0, cont()))                                    # repeated
            out.append(([2], [b, b], 0, cont()))
            out.append(([len(asc)], list(reversed(asc)), 0, cont()))                   # descending
            for _ in range(3 if full else 2):                                          # any order, repeats
                k = rng.randint(2, len(uniq) + 2)
                out.append(([k], [rng.choice(uniq) for _ in range(k)], 0, cont()))
            if len(uniq) > 2:
                q = list(asc)
                rng.shuffle(q)
                out.append(([len(q)], q, 0, cont()))                                   # permutation
            out.append(([0], [], 0, cont()))                                           # no point
            if src != "smooth":                                                        # not stored
                out.append(([], [other[0]], 0, "py"))
                out.append(([3], [a, other[1], a], 0, cont()))
            out.append(([2, 2], [a, b, b, a], 0, rng.choice(["array", "list"])))       # 2-D
            out.append(([1, 2], [a, b], 0, "array"))
            out.append(([2], [b, a], 1, cont()))                                       # off the axis
            out.append(([], [a], 1, "py"))
            return out

        for src, st in stored:
            for (osh, req, off, cont) in requests(src, st):
                for via in ("eval", "call", "evalfr"):
                    pms = list(itertools.product((1, 2), (1, 2)))
                    if full:
                        combos = [(pm, sq) for pm in pms for sq in sqs]
                        if src != "data" or len(osh) != 1 or off:
                            combos = rng.sample(combos, 6)
                    else:
                        combos = [(rng.choice(pms), rng.choice(sqs))]
                        if len(osh) == 1 and not off and src != "smooth":
                            combos.append(((1, 1), rng.choice(sqs[:3])))
                    for (p, m), (a, cf) in combos:
                        cases.append({"kind": "frdevalw", "src": src, "p": p, "m": m, "stored": st,
                                      "oshape": osh, "req": req, "off": off, "cont": cont, "via": via,
                                      "sq": a, "cfgsq": cf})
        cases.append({"kind": "frdevalw", "src": "data", "p": 2, "m": 1, "stored": [0, 1, 2], "oshape": [3],
                      "req": [1, 1, 0], "off": 0, "cont": "array", "via": "eval", "sq": "N", "cfgsq": "X"})
        # sys(x) of tf / ss at repeated / non-ascending points
        for form in ("tf", "ss"):
            for p, m in itertools.product((1, 2), (1, 2)):
                for pp in ([0, 0], [1, 0], [2, 0, 2, 1], [0, 1, 1], [3, 2, 1, 0]):
                    for (a, cf) in (sqs if full else rng.sample(sqs, 2)):
                        cases.append({"kind": "lti", "form": form, "p": p, "m": m, "xs": [len(pp)], "pp": pp,
                                      "sq": a, "cfgsq": cf, "via": rng.choice(["call", "evalfr"])})
        # frequency_response with an unsorted / repeated frequency list (the result is sorted)
        for form in ("tf", "ss", "frd"):
            for p, m in itertools.product((1, 2), (1, 2)):
                for om in ([1, 0], [2, 1, 0], [1, 1], [0, 2, 2], [2, 0, 1, 0]):
                    routes = [("N", "N", None), ("T", "N", None), ("F", "N", None), ("N", "T", None),
                              ("N", "N", "F")]
                    for (a, cf, k) in (routes if full else rng.sample(routes, 2)):
                        call = None if k is None else {"sq": k, "rm": None}
                        cases.append({"kind": "ltifr", "form": form, "p": p, "m": m, "N": len(om), "om": om,
                                      "sq": a, "cfgsq": cf, "call": call,
                                      "via": rng.choice(["method", "func"])})
        return cases

    def generate(self, rng, tier):
        return (self.gen_time(rng, tier) + self.gen_ctor(rng, tier) + self.gen_freq(rng, tier)
                + self.gen_keys(rng, tier) + self.gen_lists(rng, tier) + self.gen_hist(rng, tier)
                + self.gen_evalpts(rng, tier))

    def corpus(self):
        t = lambda **kw: dict({"kind": "trd", "fn": "step", "p": 1, "m": 1, "n": 2, "T": 3, "inp": None,
                               "out": None, "u1d": 0, "form": "ss", "sq": "N", "tr": 0, "rx": None,
                               "cfgsq": "N", "cfgrx": 0, "call": None}, **kw)
        return [
            t(tr=1),                      # states of a transposed SISO step response
            t(cfgsq="F"),                 # squeeze default taken from the configuration
            t(fn="io", n=0),              # no state data
            {"kind": "ltifr", "form": "tf", "p": 2, "m": 1, "N": 2, "sq": "N", "cfgsq": "T", "call": None,
             "via": "method"},            # frequency_response under a configured squeeze default
            # a list of systems with a non-default squeeze (keywords must reach every element)
            {"kind": "trdlist", "fn": "impulse", "sysl": [["ss", 1, 1, 1], ["ss", 2, 1, 2]], "T": 3, "inp": None,
             "out": None, "u1d": 0, "sq": "F", "tr": 0, "rx": None, "cfgsq": "N", "cfgrx": 0, "call": None,
             "cont": "list"},
            {"kind": "trdlist", "fn": "step", "sysl": [["ss", 2, 1, 1]], "T": 3, "inp": None, "out": None,
             "u1d": 0, "sq": "T", "tr": 1, "rx": 1, "cfgsq": "N", "cfgrx": 0, "call": None, "cont": "tuple"},
            # read, change the setting by each route, read again (one object)
            {"kind": "histf", "base": {"kind": "ltifr", "form": "ss", "p": 1, "m": 1, "N": 3, "sq": "N",
                                       "cfgsq": "N", "call": None, "via": "func"},
             "steps": [["R", 0, ["magnitude", "phase", "complex", "iter"]], ["C", 0, "F", None],
                       ["R", 1, ["magnitude", "phase", "complex", "iter"]], ["S", 0, "T"],
                       ["R", 0, ["magnitude", "phase"]], ["S", 0, "N"], ["G", "F", "dict"],
                       ["R", 0, ["magnitude", "phase", "iter"]]]},
            {"kind": "hist", "base": t(p=2, m=1),
             "steps": [["R", 0, list(TOBS)], ["C", 0, "T", None, 1], ["R", 1, list(TOBS)], ["R", 0, ["outputs"]],
                       ["S", 0, "F"], ["R", 0, ["outputs", "states", "inputs", "iter", "get1"]], ["S", 0, "N"],
                       ["G", "T", "set"], ["R", 0, ["outputs", "states", "inputs"]]]},
            # an FRD evaluated at a repeated point / at descending points (frequency axis follows
            # the points requested, not the stored list)
            {"kind": "frdevalw", "src": "data", "p": 1, "m": 1, "stored": [0, 1, 2], "oshape": [3],
             "req": [1, 1, 2], "off": 0, "cont": "array", "via": "call", "sq": "N", "cfgsq": "N"},
            {"kind": "frdevalw", "src": "ss", "p": 2, "m": 1, "stored": [0, 1, 2], "oshape": [2],
             "req": [2, 0], "off": 0, "cont": "list", "via": "eval", "sq": "F", "cfgsq": "N"},
            {"kind": "ltifr", "form": "frd", "p": 1, "m": 1, "N": 2, "om": [1, 1], "sq": "N", "cfgsq": "N",
             "call": None, "via": "method"},
        ]

    # ---- driver lines -------------------------------------------------------------------
    @staticmethod
    def o(v):
        return "-" if v is None else str(v)

    @staticmethod
    def shp(s):
        return "-" if s is None else "%d%s" % (len(s), "".join(" %d" % d for d in s))

    def tail(self, c):
        call = c.get("call")
        if call is None:
            return "%s %d 0 - - -" % (c["cfgsq"], c["cfgrx"])
        return "%s %d 1 %s %s %s" % (c["cfgsq"], c["cfgrx"], self.o(call.get("sq")), self.o(call.get("tr")),
                                     self.o(call.get("rx")))

    def ftail(self, c):
        call = c.get("call")
        if call is None:
            return "0 N -"
        return "1 %s %s" % (call.get("sq") or "N", self.o(call.get("rm")))

    def key_tok(self, key, pre, pre2="u"):
        """names are given by position in the real label lists: <pre><i> / u<j> in the model"""
        def el(k, pr):
            if k[0] == "I":
                return "I %d" % k[1]
            return "N %s" % ((pr + str(k[1])) if isinstance(k[1], int) else k[1])
        if key[0] == "P":
            return "P %s %s" % (el(key[1], pre), el(key[2], pre2))
        return el(key, pre)

    def line(self, c):
        k = c["kind"]
        if k == "trd":
            return "c18 trd %s %d %d %d %d %s %s %d %s %d %s %s" % (
                c["fn"], c["p"], c["m"], c["n"], c["T"], self.o(c["inp"]), self.o(c["out"]), c["u1d"],
                c["sq"], c["tr"], self.o(c["rx"]), self.tail(c))
        if k == "ctor":
            return "c18 ctor %s %s %s %s %s %d %d %s %d %s" % (
                self.shp(c["ts"]), self.shp(c["ys"]), self.shp(c["xs"]), self.shp(c["us"]), self.o(c["siso"]),
                c["tr"], c["rx"], c["sq"], c["multi"], self.tail(c))
        if k == "frd":
            return "c18 frd %s %s %s %d %s %s" % (self.shp(c["rs"]), self.shp(c["os"]), c["sq"], c["rm"],
                                                  c["cfgsq"], self.ftail(c))
        if k == "ltifr":
            return "c18 ltifr %d %d %d %s %s %s" % (c["p"], c["m"], c["N"], c["sq"], c["cfgsq"], self.ftail(c))
        if k == "lti":
            return "c18 lti %d %d %s %s %s" % (c["p"], c["m"], self.shp(c["xs"]), c["sq"], c["cfgsq"])
        if k == "frdeval":
            return "c18 frdeval 3 %d %d 3 1 3 %d %s %d %s %s" % (
                c["p"], c["m"], len(c["ks"]), " ".join(map(str, c["ks"])), c["scalar"], c["sq"], c["cfgsq"])
        if k == "frdevalw":
            st = evalw_stored(c)
            return "c18 frdevalw 3 %d %d %d %s %s %s %d %s %s" % (
                c["p"], c["m"], len(st), self.shp(st), self.shp(c["oshape"]), self.shp(c["req"]),
                c.get("off", 0), c["sq"], c["cfgsq"])
        if k == "trdlist":
            return "c18 trdlist %s %d %s %d %s %s %d %s %d %s %s" % (
                c["fn"], len(c["sysl"]), " ".join("%d %d %d" % (p, m, n) for (_, p, m, n) in c["sysl"]),
                c["T"], self.o(c["inp"]), self.o(c["out"]), c["u1d"], c["sq"], c["tr"], self.o(c["rx"]),
                self.tail(c))
        if k == "frlist":
            return "c18 frlist %d %s %d %s %s %s" % (
                len(c["sysl"]), " ".join("%d %d" % (p, m) for (_, p, m) in c["sysl"]), c["N"], c["sq"],
                c["cfgsq"], self.ftail(c))
        if k == "hist":
            b = c["base"]
            op = "hist" if b["kind"] == "trd" else "histctor"
            return "c18 %s %s %s" % (op, self.line(b)[len("c18 %s " % b["kind"]):], step_tokens(c["steps"], False))
        if k == "histf":
            b = c["base"]
            op = "histfr" if b["kind"] == "ltifr" else "histfrd"
            return "c18 %s %s %s" % (op, self.line(b)[len("c18 %s " % b["kind"]):], step_tokens(c["steps"], True))
        if k == "key":
            b = c["base"]
            pre = {"outputs": "y", "states": "x", "inputs": "u", "magnitude": "y", "complex": "y"}[c["obs"]]
            # no input labels (initial_response): NamedSignal falls back to the signal labels
            kt = self.key_tok(c["key"], pre, pre if b.get("fn") == "initial" else "u")
            if b["kind"] == "trd":
                return "c18 keytrd %s %s %s" % (c["obs"], kt, self.line(b)[len("c18 trd "):])
            return "c18 keyfr %s %s" % (kt, self.line(b)[len("c18 ltifr "):])
        raise ValueError(k)

    # ---- implementation -------------------------------------------------------------------
    def impl(self, c):
        try:
            return self.impl_(c)
        except Exception as e:  # noqa
            return err_of(e)

    def make_trd(self, c):
        with Config(**{CFG_KEYS[0]: SQV[c["cfgsq"]], CFG_KEYS[2]: bool(c["cfgrx"])}):
            r = call_time(c, c["sq"], c["tr"], c["rx"])
            return apply_call(r, c.get("call"))

    def make_fr(self, c):
        sysd = fsys(c["form"], c["p"], c["m"])
        om = freqs_of(c)
        kw = {} if c["sq"] == "N" else {"squeeze": SQV[c["sq"]]}
        if c["via"] == "method":
            F = sysd.frequency_response(om, **kw)
        else:
            F = ct.frequency_response(sysd, np.array(om), **kw)   # (a 2-element *list* means limits)
        call = c.get("call")
        if call is not None:
            kw = {}
            if call.get("sq") not in (None, "N"):
                kw["squeeze"] = SQV[call["sq"]]
            elif call.get("sq") == "N":
                kw["squeeze"] = None
            if call.get("rm") is not None:
                kw["return_magphase"] = bool(call["rm"])
            F = F(**kw)
        return F

    def impl_(self, c):
        k = c["kind"]
        if k == "trd":
            ref = time_reference(c)
            with Config(**{CFG_KEYS[0]: SQV[c["cfgsq"]], CFG_KEYS[2]: bool(c["cfgrx"])}):
                r = call_time(c, c["sq"], c["tr"], c["rx"])
                r = apply_call(r, c.get("call"))
                obs = trd_observe(r)
            obs["ref_equal"] = all(obs["raw"][s] == ref[s] for s in "yxut")
            return {"ok": obs}
        if k == "ctor":
            with Config(**{CFG_KEYS[0]: SQV[c["cfgsq"]]}):
                t = synth(c["ts"], 3 * OFF)
                r = ct.TimeResponseData(
                    t if c["ts"] else float(t), synth(c["ys"], 0), synth(c["xs"], OFF), synth(c["us"], 2 * OFF),
                    issiso=None if c["siso"] is None else bool(c["siso"]),
                    transpose=bool(c["tr"]), return_x=bool(c["rx"]), squeeze=SQV[c["sq"]],
                    multi_trace=bool(c["multi"]))
                r = apply_call(r, c.get("call"))
                obs = trd_observe(r)
            obs["ref_equal"] = True
            return {"ok": obs}
        if k == "frd":
            with Config(**{CFG_KEYS[1]: SQV[c["cfgsq"]]}):
                data = fsynth(c["rs"])
                om = (np.arange(int(np.prod(c["os"])) if c["os"] else 1, dtype=float) + 1).reshape(c["os"])
                kw = {} if c["sq"] == "N" else {"squeeze": SQV[c["sq"]]}
                F = ct.FrequencyResponseData(data if c["rs"] else complex(data), om if c["os"] else float(om),
                                             return_magphase=bool(c["rm"]), **kw)
                call = c.get("call")
                if call is not None:
                    kw = {}
                    if call.get("sq") is not None:
                        kw["squeeze"] = SQV[call["sq"]]
                    if call.get("rm") is not None:
                        kw["return_magphase"] = bool(call["rm"])
                    F = F(**kw)
                obs = frd_observe(F)
            obs["ref"] = [ctok(v) for v in np.asarray(data).reshape(-1).tolist()]
            return {"ok": obs}
        if k == "ltifr":
            sysd = fsys(c["form"], c["p"], c["m"])
            om = np.sort(np.array(freqs_of(c)))         # "omega: ... will be sorted before evaluation"
            with Config(**{CFG_KEYS[1]: SQV[c["cfgsq"]]}):
                F = self.make_fr(c)
                obs = frd_observe(F)
            ref = sysd(1j * om, squeeze=False)
            obs["ref"] = [ctok(v) for v in np.asarray(ref).reshape(-1).tolist()]
            if c.get("om") is not None:
                # an unsorted / repeated list: the stored frequencies are the sorted ones, one per
                # requested frequency, and column k is the response at the k-th of them
                obs["omega_expected"] = [tok(fr(w)) for w in om.tolist()]
                obs["pointwise"] = pointwise_ok(sysd, 1j * om, F.frdata)
            return {"ok": obs}
        if k == "lti":
            sysd = fsys(c["form"], c["p"], c["m"])
            xs = c["xs"]
            n = int(np.prod(xs)) if xs else 1
            pts = (np.arange(n, dtype=float) * 0.5 + 0.5) * 1j + 0.25
            if c.get("pp") is not None:       # repeated / non-ascending points
                pts = ((np.arange(4, dtype=float) * 0.5 + 0.5) * 1j + 0.25)[c["pp"]]
            x = pts.reshape(xs) if xs else complex(pts[0])
            ref, pw = None, True
            if len(xs) <= 1:
                ref = sysd(pts, squeeze=False)
                pw = pointwise_ok(sysd, pts, ref)
            with Config(**{CFG_KEYS[1]: SQV[c["cfgsq"]]}):
                kw = {} if c["sq"] == "N" else {"squeeze": SQV[c["sq"]]}
                v = sysd(x, **kw) if c["via"] == "call" else ct.evalfr(sysd, x, **kw)
            return {"ok": {"val": arr_canon(v), "pointwise": pw,
                           "ref": None if ref is None else [ctok(z) for z in np.asarray(ref).reshape(-1).tolist()]}}
        if k == "frdeval":
            F = fsys("frd", c["p"], c["m"])
            om = [F.omega[i] for i in c["ks"]]
            arg = om[0] if c["scalar"] else np.array(om)
            with Config(**{CFG_KEYS[1]: SQV[c["cfgsq"]]}):
                kw = {} if c["sq"] == "N" else {"squeeze": SQV[c["sq"]]}
                v = F.eval(arg, **kw) if c["via"] == "eval" else F(1j * arg, **kw)
            return {"ok": {"val": arr_canon(v),
                           "ref": [ctok(z) for z in F.frdata.reshape(-1).tolist()]}}
        if k == "frdevalw":
            F = evalw_frd(c)
            arg = evalw_arg(c)
            with Config(**{CFG_KEYS[1]: SQV[c["cfgsq"]]}):
                kw = {} if c["sq"] == "N" else {"squeeze": SQV[c["sq"]]}
                if c["via"] == "eval":
                    v = F.eval(arg, **kw)
                elif c["via"] == "call":
                    v = F(arg, **kw)
                else:
                    v = ct.evalfr(F, arg, **kw)
            return {"ok": {"val": arr_canon(v), "omega": [tok(fr(w)) for w in np.asarray(F.omega).tolist()],
                           "rawshape": [int(d) for d in F.frdata.shape],
                           "ref": [ctok(z) for z in F.frdata.reshape(-1).tolist()]}}
        if k == "trdlist":
            refs = [time_reference(elem_case(c, i)) for i in range(len(c["sysl"]))]
            with Config(**{CFG_KEYS[0]: SQV[c["cfgsq"]], CFG_KEYS[2]: bool(c["cfgrx"])}):
                rl = call_time(c, c["sq"], c["tr"], c["rx"])
                elems = []
                for r in rl:
                    elems.append(trd_observe(apply_call(r, c.get("call"))))
            for i, obs in enumerate(elems):
                obs["ref_equal"] = i < len(refs) and all(obs["raw"][x] == refs[i][x] for x in "yxut")
            return {"ok": {"type": type(rl).__name__, "elems": elems}}
        if k == "frlist":
            syss = [fsys(f_, p_, m_) for (f_, p_, m_) in c["sysl"]]
            om = np.array(FREQS[c["N"]])
            refs = [s_(1j * om, squeeze=False) for s_ in syss]
            with Config(**{CFG_KEYS[1]: SQV[c["cfgsq"]]}):
                kw = {} if c["sq"] == "N" else {"squeeze": SQV[c["sq"]]}
                Fl = ct.frequency_response(tuple(syss) if c.get("cont") == "tuple" else syss, om, **kw)
                elems = []
                for F in Fl:
                    call = c.get("call")
                    if call is not None:
                        kw2 = {}
                        if call.get("sq") is not None:
                            kw2["squeeze"] = SQV[call["sq"]]
                        if call.get("rm") is not None:
                            kw2["return_magphase"] = bool(call["rm"])
                        F = F(**kw2)
                    elems.append(frd_observe(F))
            for i, obs in enumerate(elems):
                obs["ref"] = [ctok(v) for v in np.asarray(refs[i]).reshape(-1).tolist()] if i < len(refs) else []
            return {"ok": {"type": type(Fl).__name__, "elems": elems}}
        if k == "hist":
            b = c["base"]
            ref = time_reference(b) if b["kind"] == "trd" else None
            with Config(**{CFG_KEYS[0]: SQV[b["cfgsq"]], CFG_KEYS[2]: bool(b["cfgrx"])}):
                if b["kind"] == "trd":
                    r = call_time(b, b["sq"], b["tr"], b["rx"])
                else:
                    t = synth(b["ts"], 3 * OFF)
                    r = ct.TimeResponseData(
                        t if b["ts"] else float(t), synth(b["ys"], 0), synth(b["xs"], OFF), synth(b["us"], 2 * OFF),
                        issiso=None if b["siso"] is None else bool(b["siso"]),
                        transpose=bool(b["tr"]), return_x=bool(b["rx"]), squeeze=SQV[b["sq"]],
                        multi_trace=bool(b["multi"]))
                r = apply_call(r, b.get("call"))
                rawof = lambda q: {"y": arr_canon(q.y), "x": arr_canon(q.x), "u": arr_canon(q.u), "t": arr_canon(q.t)}
                raw = rawof(r)
                reads, objs = run_history(r, c["steps"], CFG_KEYS[0], read_tobs)
                same = all(rawof(q) == raw for q in objs)
            return {"ok": {"reads": reads, "raw": raw, "raw_kept": same,
                           "ref_equal": ref is None or all(raw[x] == ref[x] for x in "yxut")}}
        if k == "histf":
            b = c["base"]
            with Config(**{CFG_KEYS[1]: SQV[b["cfgsq"]]}):
                if b["kind"] == "ltifr":
                    sysd = fsys(b["form"], b["p"], b["m"])
                    refv = sysd(1j * np.array(FREQS[b["N"]]), squeeze=False)
                    F = self.make_fr(b)
                else:
                    refv = fsynth(b["rs"])
                    om = (np.arange(int(np.prod(b["os"])) if b["os"] else 1, dtype=float) + 1).reshape(b["os"])
                    kw = {} if b["sq"] == "N" else {"squeeze": SQV[b["sq"]]}
                    F = ct.FrequencyResponseData(refv if b["rs"] else complex(refv), om if b["os"] else float(om),
                                                 return_magphase=bool(b["rm"]), **kw)
                raw = arr_canon(F.frdata)
                omega = arr_canon(F.omega)
                reads, objs = run_history(F, c["steps"], CFG_KEYS[1], read_fobs)
                same = all(arr_canon(q.frdata) == raw and arr_canon(q.omega) == omega for q in objs)
            return {"ok": {"reads": reads, "raw": raw, "omega": omega, "raw_kept": same,
                           "ref": [ctok(v) for v in np.asarray(refv).reshape(-1).tolist()]}}
        if k == "key":
            b = c["base"]
            if b["kind"] == "trd":
                r = self.make_trd(b)
                with Config(**{CFG_KEYS[0]: SQV[b["cfgsq"]]}):
                    sig = getattr(r, c["obs"])
                raw = {"y": arr_canon(r.y), "x": arr_canon(r.x), "u": arr_canon(r.u), "t": arr_canon(r.t)}
            else:
                with Config(**{CFG_KEYS[1]: SQV[b["cfgsq"]]}):
                    F = self.make_fr(b)
                    sig = getattr(F, c["obs"])
                raw = {"y": arr_canon(F.frdata if c["obs"] == "complex" else np.abs(F.frdata))}
            if sig is None:
                return {"ok": {"sig": None, "raw": raw}}
            labels = [sig.signal_labels, sig.trace_labels]

            def real(kk, which):
                if kk[0] == "I":
                    return kk[1]
                if isinstance(kk[1], int):
                    lab = labels[which] if labels[which] is not None else labels[0]
                    return lab[kk[1]] if lab is not None and kk[1] < len(lab) else "nosuch%d" % kk[1]
                return kk[1]
            key = c["key"]
            pykey = (real(key[1], 0), real(key[2], 1)) if key[0] == "P" else real(key, 0)
            res = guarded(lambda: arr_canon(sig[pykey]))
            return {"ok": {"sig": arr_canon(sig), "res": res, "raw": raw}}
        raise ValueError(k)

    # ---- model ------------------------------------------------------------------------------
    def parse_model(self, c, out):
        k = c["kind"]
        if k in ("trd", "ctor"):
            return parse_trd(out)
        if k in ("frd", "ltifr"):
            return parse_frd(out)
        if k in ("lti", "frdeval", "frdevalw"):
            return parse_arr_line(out)
        if k in ("trdlist", "frlist"):
            segs = split_bar(out)
            if isinstance(segs, dict):
                return segs
            return {"elems": [(parse_trd if k == "trdlist" else parse_frd)("ok " + g) for g in segs]}
        if k in ("hist", "histf"):
            segs = split_bar(out)
            if isinstance(segs, dict):
                return segs
            return {"reads": [(parse_treading if k == "hist" else parse_freading)(g) for g in segs]}
        if k == "key":
            if out.startswith("err "):
                return {"err": out.split()[1]}
            tk = Tk(out)
            tk.expect("ok")
            tk.expect("sig")
            res = {"sig": tk.arr()}
            if tk.peek() == "res":
                tk.next()
                res["res"] = tk.arr()
            return res
        raise ValueError(k)

    # ---- comparison ---------------------------------------------------------------------------
    def feat(self, c, m):
        f = {"kind": m.kind, "obs": m.obs, "case": c["kind"]}
        b = c.get("base", c)
        if m.kind == "raises":
            f["exc"] = re.sub(r"[0-9]+", "#", m.detail.replace("implementation raises ", ""))[:70]
            for key in ("fn", "via"):
                if key in b:
                    f[key] = b[key]
        if c["kind"] in ("hist", "histf"):
            cur = getattr(self, "_cur", None) or {}
            f["after"] = cur.get("after", "none")      # kind of the last change before the failing read
            f["obj"] = cur.get("obj", "orig")
            f["base"] = b["kind"]
            if "fn" in b:
                f["fn"] = b["fn"]
            return f
        if c["kind"] == "trdlist":
            f["fn"] = c["fn"]
        if c["kind"] in ("trd", "ctor", "trdlist"):
            f["route"] = ("cfg" if c["cfgsq"] != "N" else "") + ("arg" if c["sq"] != "N" else "") + \
                ("attr" if (c.get("call") or {}).get("sq") else "") or "default"
            f["tr"] = c["tr"] or int(bool((c.get("call") or {}).get("tr")))
        if c["kind"] == "frdevalw":
            f.update({"pts": req_class(c), "via": c["via"], "src": c["src"]})
        if c["kind"] == "lti" and c.get("pp") is not None:
            f["pts"] = "repeated/unsorted"
        if c["kind"] == "ltifr" and c.get("om") is not None:
            f.update({"pts": "repeated/unsorted", "form": c["form"]})
        if c["kind"] in ("ltifr", "frd", "lti", "frdeval", "frdevalw", "frlist"):
            f["route"] = ("cfg" if c["cfgsq"] != "N" else "") + ("arg" if c["sq"] != "N" else "") + \
                ("attr" if (c.get("call") or {}).get("sq") not in (None, "N") else "") or "default"
        return f

    def compare(self, c, impl, model):
        self._cur = None
        try:
            self.compare_(c, impl, model)
        except Mismatch as m:
            return Verdict(m.status, "%s: %s" % (m.obs, m.detail), self.feat(c, m))
        return Verdict(AGREE)

    def compare_(self, c, impl, model):
        k = c["kind"]
        if "err" in model:
            if "err" in impl:
                if impl["err"] != model["err"]:
                    raise Mismatch("errkind", "call", "implementation %s, model %s" % (impl["exc"], model["err"]),
                                   DIFFERS)
                return
            raise Mismatch("returns", "call", "model raises %s, implementation returns" % model["err"], DIFFERS)
        if "err" in impl:
            raise Mismatch("raises", "call", "implementation raises %s" % impl["exc"])
        o = impl["ok"]
        if k in ("trd", "ctor"):
            self.cmp_trd(o, model)
        elif k in ("frd", "ltifr"):
            self.cmp_frd(o, model)
        elif k in ("lti", "frdeval"):
            ref = o["ref"]
            if ref is None:
                raise Mismatch("returns", "call", "2-D point accepted", DIFFERS)
            if not o.get("pointwise", True):
                raise Mismatch("data", "pointwise", "sys(x, squeeze=False)[:, :, k] is not sys(x[k]) for the "
                               "1-D array of points x")
            cmp_arr("value", o["val"], model, lambda p: ref[p])
        elif k == "frdevalw":
            self.cmp_evalw(c, o, model)
        elif k == "key":
            self.cmp_key(c, o, model)
        elif k in ("trdlist", "frlist"):
            self.cmp_list(c, o, model)
        elif k == "hist":
            self.cmp_hist(c, o, model)
        elif k == "histf":
            self.cmp_histf(c, o, model)

    def cmp_evalw(self, c, o, model):
        st = evalw_stored(c)
        if o["omega"] != [tok(fr(FV[i])) for i in st] or o["rawshape"] != [c["p"], c["m"], len(st)]:
            raise Mismatch("rawshape", "omega", "the FRD stores omega %s, data shape %s; expected the "
                           "frequencies %s" % (o["omega"], o["rawshape"], [FV[i] for i in st]), DIFFERS)
        ref = o["ref"]
        if c["src"] != "smooth" and len(set(st)) == len(st):
            cmp_arr("value", o["val"], model, lambda p: ref[p])
            return
        if c["src"] != "smooth":
            # a stored list that carries a frequency twice: which of the equal-frequency columns is
            # returned is not part of the property (the code and the model take the first); accept
            # any of them, at the place of the requested point
            cmp_arr("value", dict(o["val"], data=[]) if "shape" in o["val"] else o["val"],
                    dict(model, pos=[]) if "shape" in model else model, lambda p: ref[p])
            if "shape" not in model:
                return
            N = len(st)
            for t, p in zip(o["val"]["data"], model["pos"]):
                row, q = divmod(p, N)
                if t not in [ref[row * N + q2] for q2 in range(N) if st[q2] == st[q]]:
                    raise Mismatch("data", "value", "entries %s, expected %s" % (
                        o["val"]["data"][:12], [ref[p] for p in model["pos"]][:12]))
            if len(o["val"]["data"]) != len(model["pos"]):
                raise Mismatch("data", "value", "%d entries, expected %d" % (len(o["val"]["data"]), len(model["pos"])))
            return
        # interpolating FRD: the interpolant passes through the stored points (1e-9 relative)
        cmp_arr("value", dict(o["val"], data=[]) if "shape" in o["val"] else o["val"],
                dict(model, pos=[]) if "shape" in model else model, lambda p: ref[p])
        if "shape" not in model:
            return
        exp = [cplx_of(ref[p]) for p in model["pos"]]
        got = [cplx_of(t) for t in o["val"]["data"]]
        if len(exp) != len(got) or any(abs(a - b) > 1e-9 * max(1.0, abs(b)) for a, b in zip(got, exp)):
            raise Mismatch("data", "value", "entries %s, expected %s" % (got[:8], exp[:8]))

    def cmp_list(self, c, o, model):
        want = "TimeResponseList" if c["kind"] == "trdlist" else "FrequencyResponseList"
        if o["type"] != want:
            raise Mismatch("type", "list", "a %s is returned, expected a %s" % (o["type"], want), DIFFERS)
        if len(o["elems"]) != len(model["elems"]):
            raise Mismatch("arity", "list", "%d responses for %d systems" % (len(o["elems"]), len(model["elems"])))
        for i, (a, b) in enumerate(zip(o["elems"], model["elems"])):
            try:
                if "err" in b:      # (cannot happen: the list call would have raised)
                    raise Mismatch("returns", "call", "model raises %s for system %d" % (b["err"], i), DIFFERS)
                if c["kind"] == "trdlist":
                    self.cmp_trd(a, b)
                else:
                    self.cmp_frd(a, b)
            except Mismatch as m:
                m.detail = "response %d of the list (system %s): %s" % (i, "x".join(map(str, c["sysl"][i][1:3])), m.detail)
                raise

    def cmp_hist(self, c, o, model):
        if not o["ref_equal"]:
            raise Mismatch("values-depend-on-settings", "raw", "raw y/x/u/t differ from the call without "
                           "squeeze/transpose settings")
        if not o["raw_kept"]:
            raise Mismatch("values-depend-on-settings", "raw", "the stored y/x/u/t of some object changed "
                           "during the history")
        raw = o["raw"]

        def lookup(p):
            return raw[SRC[p // OFF]]["data"][p % OFF]
        info = expand_reads(c["steps"])
        if len(info) != len(model["reads"]) or len(info) != len(o["reads"]):
            raise Mismatch("harness", "reads", "read counts differ", DIFFERS)
        for k, ((j, ob, after), a, b) in enumerate(zip(info, o["reads"], model["reads"])):
            self._cur = {"after": after, "obj": "copy" if j else "orig"}
            where = "read %d (%s of object %d, after %s)" % (k, ob, j, after)
            try:
                if ob == "len":
                    if a != b:
                        raise Mismatch("arity", "len", "len %s, expected %s" % (a, b))
                elif ob == "iter":
                    if isinstance(b, dict):
                        cmp_arr("iter", a if isinstance(a, dict) else {"shape": []}, b, lookup)
                    else:
                        if isinstance(a, dict):
                            raise Mismatch("raises", "iter", "implementation raises %s" % a["exc"])
                        if len(a) != len(b):
                            raise Mismatch("arity", "iter", "tuple of %d, expected %d" % (len(a), len(b)))
                        for q, (x, y) in enumerate(zip(a, b)):
                            cmp_arr("iter[%d]" % q, x, y, lookup)
                else:
                    cmp_arr(ob, a, b, lookup)
            except Mismatch as m:
                m.detail = where + ": " + m.detail
                raise
        self._cur = None

    def cmp_histf(self, c, o, model):
        ref = o["ref"]
        if o["raw"] is None or o["raw"]["data"] != ref:
            raise Mismatch("values-depend-on-settings", "frdata", "stored data differ from sys(x, squeeze=False)")
        if not o["raw_kept"]:
            raise Mismatch("values-depend-on-settings", "frdata", "the stored frdata / omega of some object "
                           "changed during the history")
        lookup = lambda p: ref[p]
        info = expand_reads(c["steps"])
        if len(info) != len(model["reads"]) or len(info) != len(o["reads"]):
            raise Mismatch("harness", "reads", "read counts differ", DIFFERS)
        for k, ((j, ob, after), a, b) in enumerate(zip(info, o["reads"], model["reads"])):
            self._cur = {"after": after, "obj": "copy" if j else "orig"}
            where = "read %d (%s of object %d, after %s)" % (k, ob, j, after)
            try:
                if isinstance(b, list):
                    if isinstance(a, dict):
                        raise Mismatch("raises", "iter", "implementation raises %s" % a["exc"])
                    if len(a) != len(b):
                        raise Mismatch("arity", "iter", "tuple of %d, expected %d" % (len(a), len(b)))
                    for q, (x, y) in enumerate(zip(a, b)):
                        self.cmp_fitem("iter[%d]" % q, x, y, lookup, o["omega"])
                elif ob == "iter":
                    cmp_arr("iter", a if isinstance(a, dict) else {"shape": []}, b, lookup)
                else:
                    self.cmp_fitem(ob, a, b, lookup, o["omega"])
            except Mismatch as m:
                m.detail = where + ": " + m.detail
                raise
        self._cur = None

    @staticmethod
    def cmp_fitem(name, a, b, lookup, omega):
        if isinstance(b, dict) and b.get("kind") == "omega":
            if a != omega:
                raise Mismatch("data", name, "expected the frequency vector")
            return
        kind = b.get("kind") if isinstance(b, dict) else None
        if kind == "mag":
            cmp_arr(name, a, b, lookup, mag_tok, approx=True)
        elif kind == "phase":
            cmp_arr(name, a, b, lookup, phase_tok, approx=True)
        else:
            cmp_arr(name, a, b, lookup)

    def cmp_trd(self, o, model):
        if not o["ref_equal"]:
            raise Mismatch("values-depend-on-settings", "raw", "raw y/x/u/t differ from the call without "
                           "squeeze/transpose settings")
        raw = o["raw"]
        for s in "yxu":
            ms = model["rawshape"][s]
            is_ = None if raw[s] is None else raw[s]["shape"]
            if ms != is_:
                raise Mismatch("rawshape", s, "stored %s has shape %s, model %s" % (s, is_, ms), DIFFERS)
        if o["meta"] != model["meta"]:
            raise Mismatch("meta", "issiso/ninputs/noutputs/nstates/ntraces", "%s vs model %s" % (
                o["meta"], model["meta"]), DIFFERS)

        def lookup(p):
            src = SRC[p // OFF]
            return raw[src]["data"][p % OFF]
        for name in ("time", "outputs", "states", "inputs"):
            cmp_arr(name, o[name], model[name], lookup)
        # tuple unpacking, len, integer indexing
        it_i, it_m = o["iter"], model["iter"]
        if isinstance(it_m, dict):
            cmp_arr("iter", it_i if isinstance(it_i, dict) else {"shape": []}, it_m, lookup)
        else:
            if isinstance(it_i, dict):
                raise Mismatch("raises", "iter", "implementation raises %s" % it_i["exc"])
            if len(it_i) != len(it_m):
                raise Mismatch("arity", "iter", "tuple of %d, expected %d" % (len(it_i), len(it_m)))
            for j, (a, b) in enumerate(zip(it_i, it_m)):
                cmp_arr("iter[%d]" % j, a, b, lookup)
        if o["len"] != model["len"]:
            raise Mismatch("arity", "len", "len %s, expected %s" % (o["len"], model["len"]))
        for i in range(4):
            cmp_arr("get%d" % i, o["get%d" % i], model["get%d" % i], lookup)

    def cmp_frd(self, o, model):
        ref = o["ref"]
        if o["raw"] is None or o["raw"]["shape"] != model["rawshape"]:
            raise Mismatch("rawshape", "frdata", "frdata shape %s, model %s" % (
                o["raw"] and o["raw"]["shape"], model["rawshape"]), DIFFERS)
        if o["raw"]["data"] != ref:
            raise Mismatch("values-depend-on-settings", "frdata", "stored data differ from sys(x, squeeze=False)")
        if o["omega"]["shape"] != [model["nomega"]]:
            raise Mismatch("shape", "omega", "omega shape %s" % o["omega"]["shape"])
        if o.get("omega_expected") is not None and o["omega"]["data"] != o["omega_expected"]:
            raise Mismatch("data", "omega", "stored frequencies %s, expected the sorted request %s" % (
                o["omega"]["data"], o["omega_expected"]))
        if not o.get("pointwise", True):
            raise Mismatch("data", "pointwise", "frdata[:, :, k] is not sys(1j * omega[k])")
        lookup = lambda p: ref[p]

        def item(name, a, b):
            if isinstance(b, dict) and b.get("kind") == "omega":
                if a != o["omega"]:
                    raise Mismatch("data", name, "expected the frequency vector")
                return
            kind = b.get("kind") if isinstance(b, dict) else None
            if kind == "mag":
                cmp_arr(name, a, b, lookup, mag_tok, approx=True)
            elif kind == "phase":
                cmp_arr(name, a, b, lookup, phase_tok, approx=True)
            else:
                cmp_arr(name, a, b, lookup)
        for name in ("magnitude", "phase", "complex"):
            item(name, o[name], model[name])
        it_i, it_m = o["iter"], model["iter"]
        if isinstance(it_m, dict):
            cmp_arr("iter", it_i if isinstance(it_i, dict) else {"shape": []}, it_m, lookup)
            return
        if isinstance(it_i, dict):
            raise Mismatch("raises", "iter", "implementation raises %s" % it_i["exc"])
        if len(it_i) != len(it_m):
            raise Mismatch("arity", "iter", "tuple of %d, expected %d" % (len(it_i), len(it_m)))
        for j, (a, b) in enumerate(zip(it_i, it_m)):
            item("iter[%d]" % j, a, b)

    def cmp_key(self, c, o, model):
        obs = c["obs"]
        raw = o["raw"]
        approx = obs == "magnitude"

        def lookup(p):
            return raw[SRC[p // OFF]]["data"][p % OFF]
        cmp_arr(obs, o["sig"], model["sig"], lookup, approx=approx)
        if o["sig"] is None:
            return
        cmp_arr(obs + "[key]", o["res"], model.get("res"), lookup, approx=approx)

    # ---- evidence ---------------------------------------------------------------------------
    def nontrivial(self, c, model):
        if "err" in model:
            return False
        if c["kind"] in ("trd", "ctor"):
            return isinstance(model.get("outputs"), dict) and len(model["outputs"].get("pos", [])) > 1
        if c["kind"] in ("frd", "ltifr"):
            m = model.get("complex")
            return isinstance(m, dict) and len(m.get("pos", [])) > 1
        if c["kind"] == "key":
            return True
        if c["kind"] in ("trdlist", "frlist"):
            return len(model["elems"]) >= 1
        if c["kind"] in ("hist", "histf"):
            # at least one read after a change of settings
            return any(after != "none" for (_, _, after) in expand_reads(c["steps"]))
        return isinstance(model, dict) and len(model.get("pos", [])) >= 1

    def stats(self, c, impl, model):
        st = {"kind": c["kind"], "outcome": ("err:" + model["err"]) if "err" in model else "ok"}
        b = c.get("base", c)
        if "fn" in b:
            st["fn"] = b["fn"]
        if c["kind"] in ("trd", "ctor") and "err" not in model:
            st["siso"] = model["meta"][0]
            st["ntraces"] = model["meta"][4]
            st["squeeze"] = "%s/%s/%s" % (c["sq"], c["cfgsq"], (c.get("call") or {}).get("sq"))
            if isinstance(model["outputs"], dict) and "shape" in model["outputs"]:
                st["out_ndim"] = len(model["outputs"]["shape"])
        if c["kind"] in ("frd", "ltifr", "lti", "frdeval", "frdevalw", "frlist"):
            st["squeeze"] = "%s/%s" % (c["sq"], c["cfgsq"])
        if c["kind"] == "frdevalw":
            st.update({"pts": req_class(c), "src": c["src"], "via": c["via"], "container": c["cont"]})
        if c.get("pp") is not None or c.get("om") is not None:
            st["pts"] = "repeated/unsorted"
        if c["kind"] == "trdlist":
            st["fn"] = c["fn"]
            st["nsys"] = len(c["sysl"])
            st["container"] = c.get("cont", "list")
            st["squeeze"] = "%s/%s/%s" % (c["sq"], c["cfgsq"], (c.get("call") or {}).get("sq"))
        if c["kind"] in ("hist", "histf"):
            ops = [x[0] for x in c["steps"]]
            st["changes"] = "+".join(sorted(set(o_ for o_ in ops if o_ != "R"))) or "none"
            st["nreads"] = min(40, 10 * (len(expand_reads(c["steps"])) // 10))
            st["base"] = b["kind"]
        if c.get("via") == "method":
            st["via"] = "method"
        if "err" in model and "err" in impl:
            st["errkind_equal"] = impl["err"] == model["err"]
        return st

    def shrink(self, c):
        if c["kind"] == "trd":
            for key, val in (("rx", None), ("cfgrx", 0), ("call", None), ("u1d", 0), ("form", "ss"),
                             ("inp", None), ("out", None), ("tr", 0), ("cfgsq", "N"), ("sq", "N"),
                             ("n", 1), ("p", 1), ("m", 1)):
                if c.get(key) != val:
                    d = dict(c)
                    d[key] = val
                    if d["fn"] in ("forced", "io") and (d["inp"], d["out"]) != (None, None):
                        continue
                    yield d
        elif c["kind"] in ("ltifr", "lti", "frdeval", "frd"):
            for key, val in (("call", None), ("cfgsq", "N"), ("sq", "N"), ("p", 1), ("m", 1), ("via", "method")):
                if key in c and c.get(key) != val:
                    d = dict(c)
                    d[key] = val
                    if d["kind"] in ("lti",) and key == "via":
                        continue
                    if d["kind"] == "frdeval" and key == "via":
                        continue
                    yield d

        elif c["kind"] == "frdevalw":
            if len(c["oshape"]) == 1:
                for i in range(len(c["req"])):            # drop a point
                    r = c["req"][:i] + c["req"][i + 1:]
                    yield dict(c, req=r, oshape=[len(r)])
            for key, val in (("cfgsq", "N"), ("sq", "N"), ("p", 1), ("m", 1), ("via", "eval"),
                             ("cont", "array" if len(c["oshape"]) else "py"), ("src", "data")):
                if c.get(key) != val:
                    if key == "src" and c["src"] == "smooth":
                        continue
                    yield dict(c, **{key: val})
        elif c["kind"] in ("trdlist", "frlist"):
            if len(c["sysl"]) > 1:
                for i in range(len(c["sysl"])):
                    d = dict(c)
                    d["sysl"] = c["sysl"][:i] + c["sysl"][i + 1:]
                    # the shared U / X0 of forced, io, initial are built for the first system
                    yield d
            for key, val in (("rx", None), ("cfgrx", 0), ("call", None), ("inp", None), ("out", None),
                             ("tr", 0), ("cfgsq", "N"), ("sq", "N"), ("cont", "list")):
                if key in c and c.get(key) != val:
                    d = dict(c)
                    d[key] = val
                    d.pop("rxname", None) if key == "rx" else None
                    yield d
        elif c["kind"] in ("hist", "histf"):
            steps = c["steps"]
            # drop the tail, drop single steps that create no object, thin out the reads
            for k in range(len(steps) - 1, 0, -1):
                yield dict(c, steps=steps[:k])
            for k, st in enumerate(steps):
                if st[0] != "C":
                    yield dict(c, steps=steps[:k] + steps[k + 1:])
                if st[0] == "R" and len(st[2]) > 1:
                    for ob in st[2]:
                        yield dict(c, steps=steps[:k] + [["R", st[1], [ob]]] + steps[k + 1:])
            for b in self.shrink(c["base"]):
                yield dict(c, base=b)

    def search(self, rng, case, tier):
        return []


from families import c18_routes                  # routes stream (tag C18-perm)
FAMILY = c18_routes.extend(C18)
