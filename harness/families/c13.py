"""C13 — Nyquist encirclement count: correspondence between `control.nyquist_response`
(`control/freqplot.py` 1375-1546, `control/ctrlutil.py: unwrap`) and the Lean model
`CtrlVerif.Model.Nyquist` (driver family `nyq`).

A case is a loop built *backwards* from exact data: open-loop poles `ol`, closed-loop poles `cl`
(rationals / Gaussian rationals, given in the s-plane; a discrete-time case maps them through the
bilinear transformation with step `T`, exactly), a gain `k`:
    den = prod (s - p_i),   num = k * prod (s - c_i) - den      =>  den + num = k * prod (s - c_i)
so the numbers `P` (open-loop unstable poles) and `Z` (closed-loop unstable poles) are known
without any root finding.

Loops can also be given *forwards* (`form: zpk`: zeros `zr`, poles `ol` in the plane the system lives in, gain
`k`, L = k prod(x - z_i)/prod(x - p_i)); then Z is counted exactly by Routh tables over Q (`c13_exact`), for the exact
polynomial and for the binary64 coefficients the implementation receives.

A continuous-time loop can be declared with `dt = 0` (field `tb` absent) or with an unspecified timebase (`tb: "N"`,
dt=None: nyquist_response treats it as continuous), and it can get its timebase by different routes (`route`): the
constructor keyword, the configured `control.default_dt` (None in the 0.8.x legacy defaults), `ss(sys, dt=None)`, or a
product with a static gain (whose timebase is None).  `scale` records that all roots were multiplied by a power of ten
(dynamics far outside 0.01 .. 100 rad/s, the range a loop without any pole / zero feature gets).

A case can also be ONE CALL on a list of loops (`kind: list`, `members`: ordinary loop cases; `cont: tuple`, `share`:
equal members are the same object, `twice`: the call is made twice, `cfg`): nyquist_response builds one common grid
from the features of all systems and cuts it per system at that system's Nyquist frequency.  Every member is compared
like a loop analysed alone (six driver lines per member; (d) becomes `lgrid`: the model's common range, (e) `lomega`:
the model's loop over the systems with all timebases and this member's position), plus, at list level, the number of
criterion warnings and the identity of two successive identical calls.

Per case six driver lines:
 (a) `count`   – the model's unwrap/count applied to the implementation's own samples
                 `response.response` (exact rationals of the floats) and `np.angle(resp+1)` (external,
                 quadrant contract checked by the driver) vs `response.count`;
 (b) `contour` – the model's contour construction (extra points near poles, nearest pole,
                 indentation side and offset) on the implementation's own poles and default
                 frequency vector vs `response.contour` (sqrt / exp applied here: external);
 (c) `pz`      – the model's P/Z conventions on the implementation's own poles vs the presence of
                 the "does not match Nyquist criterion" warning;
 (d) `grid`    – the model's exponents of the logarithmic default grid (`nyquistExponents`: periphery 2 forwarded,
                 rint, freq_interesting) on the log10 of the implementation's own pole / zero magnitudes vs the grid the
                 contour comparison (b) is fed with and vs the grid of the implementation's helper;
 (e) `omega`   – the model's `defaultOmega` (linspace from 0, cut below / append the Nyquist frequency) vs the
                 frequencies (b) is fed with;
 (f) `tb`      – the model's timebase decisions (`loopTimebase` = common_timebase of the parts the loop is a product of,
                 `featureBranch` of _default_frequency_range, `nyquistFreq`, `polesInSPlane`, isctime / isdtime) vs
                 the timebase and the predicates of the system the implementation built and vs the branch the harness
                 feeds (b), (d), (e) with (decided from the case, never by asking the implementation);
and, outside the driver, the property itself: `response.count == Z - P` whenever the loop is inside
the quantifier of the property (see `in_claim`)."""
import math
import warnings
import zlib
from fractions import Fraction

import numpy as np
import control as ct
from control import freqplot as _fp

from core.runner import Family, Verdict, AGREE, VIOLATES, DIFFERS, canon
from core.exact import fr, tok
from families.c13_arg import hypotheses_label   # C13-argprinciple: hypotheses of C13Arg.count_continuous
from families import c13_exact as X               # exact root counting (forward-built loops), mechanism of a wrong count

F = Fraction
PI_TOK = tok(fr(math.pi))
EPS_TOK = "1/1000000000"
GUARD_RADII = 5            # "a few indentation radii"
FWD_KINDS = ("highgain", "zpk", "dcircle")


# ----------------------------------------------------------------------------
# exact construction
# ----------------------------------------------------------------------------
def pmul(p, q):
    out = [F(0)] * (len(p) + len(q) - 1)
    for i, a in enumerate(p):
        for j, b in enumerate(q):
            out[i + j] += a * b
    return out


def from_roots(rs):
    """rs: ['r', a] real root, ['c', a, b] pair a +- jb (b > 0)."""
    p = [F(1)]
    for r in rs:
        if r[0] == "r":
            p = pmul(p, [F(1), -F(r[1])])
        else:
            a, b = F(r[1]), F(r[2])
            p = pmul(p, [F(1), -2 * a, a * a + b * b])
    return p


def deg(rs):
    return sum(1 if r[0] == "r" else 2 for r in rs)


def mult(r):
    return 1 if r[0] == "r" else 2


def bilinear(r, T):
    """image of an s-plane root under z = (1 + sT/2) / (1 - sT/2)"""
    T = F(T)
    if r[0] == "r":
        s = F(r[1])
        return ["r", (1 + s * T / 2) / (1 - s * T / 2)]
    a, b = F(r[1]), F(r[2])
    nr, ni = 1 + a * T / 2, b * T / 2
    dr, di = 1 - a * T / 2, -b * T / 2
    dd = dr * dr + di * di
    re, im = (nr * dr + ni * di) / dd, (ni * dr - nr * di) / dd
    if im < 0:
        im = -im
    if im == 0:
        return ["r", re]
    return ["c", re, im]


def same_root(a, b):
    return a[0] == b[0] and all(F(x) == F(y) for x, y in zip(a[1:], b[1:]))


def fwd(case):
    """loop given forwards: zeros `zr`, poles `ol` (both in the plane the system lives in: s or z) and gain `k`;
    Z is then counted exactly by the Routh table (c13_exact) instead of being chosen"""
    return case.get("form") == "zpk"


def native_root(rt, case):
    """the root in the plane the system lives in"""
    if fwd(case) or not case["disc"]:
        return rt
    return bilinear(rt, case_T(case))


def unstable_root(rt, disc):
    """exact: Re > 0 (continuous) / |z| > 1 (discrete) for a root given in the native plane"""
    a = F(rt[1])
    if not disc:
        return a > 0
    b = F(rt[2]) if rt[0] == "c" else F(0)
    return a * a + b * b > 1


_BUILD = {}


def build(case):
    """-> (num, den) lists of Fraction (highest power first), P, Z (exact)"""
    if fwd(case):
        key = canon(case)
        if key not in _BUILD:
            if len(_BUILD) > 50000:
                _BUILD.clear()
            den = from_roots(case["ol"])
            num = [F(case["k"]) * x for x in from_roots(case["zr"])]
            P = sum(mult(r) for r in case["ol"] if unstable_root(r, case["disc"]))
            Z = X.unstable_count(X.padd(den, num), case["disc"])     # None: not determined (rejected by valid)
            _BUILD[key] = (num, den, P, Z)
        return _BUILD[key]
    ol, cl, k = case["ol"], case["cl"], F(case["k"])
    P = sum(mult(r) for r in ol if F(r[1]) > 0)
    Z = sum(mult(r) for r in cl if F(r[1]) > 0)
    if case["disc"]:
        ol = [bilinear(r, case_T(case)) for r in ol]
        cl = [bilinear(r, case_T(case)) for r in cl]
    den = from_roots(ol)
    clp = [k * x for x in from_roots(cl)]
    num = [a - b for a, b in zip(clp, den)]
    return num, den, P, Z


def float_coeffs(case):
    num, den, _, _ = build(case)
    return [float(x) for x in num], [float(x) for x in den]


ROUTES = ("kw", "kw0", "default", "sskw", "unit")
DT_KEY = "control.default_dt"


def route_of(case):
    """how the loop gets its timebase
    kw      : constructor keyword (`dt=None` for tb N, the sampling time; nothing for dt = 0: the configured default)
    kw0     : `dt=0` spelled out
    default : no keyword while `config.defaults['control.default_dt']` is None (what use_legacy_defaults('0.8.x') sets)
    sskw    : state space only: the realisation of the loop declared continuous is redeclared `ss(sys, dt=None)`
    unit    : product of a static unit gain (`tf(1, 1)` / `ss([], [], [], 1)`: timebase None) and the loop"""
    return case.get("route", "kw")


def tb_none(case):
    return (not case["disc"]) and case.get("tb") == "N"


def disc_dt(case):
    """the number `sys.dt` of a discrete-time case (`True` counts as 1)"""
    return 1.0 if case["T"] == "true" else float(F(case["T"]))


def base_dt_tok(case):
    """driver token of the timebase the loop is declared with"""
    if case["disc"]:
        return "T" if case["T"] == "true" else "D" + ftok(float(F(case["T"])))
    return "N" if tb_none(case) else "C"


def tb_parts(case):
    """timebases of the factors the loop is a product of"""
    return (["N"] if route_of(case) == "unit" else []) + [base_dt_tok(case)]


def impl_dt_tok(dt):
    if dt is None:
        return "N"
    if dt is True:
        return "T"
    if isinstance(dt, (bool, np.bool_)):
        return "bool:%r" % (dt,)
    return "C" if dt == 0 else "D" + ftok(dt)


def make_system(case):
    numf, denf = float_coeffs(case)
    route = route_of(case)
    if case["disc"]:
        dt = True if case["T"] == "true" else float(F(case["T"]))
        sys = ct.tf(numf, denf, dt)
    elif tb_none(case) and route in ("kw", "unit"):
        sys = ct.tf(numf, denf, dt=None)
    elif route == "kw0":
        sys = ct.tf(numf, denf, dt=0)
    else:
        sys = ct.tf(numf, denf)             # the configured default timebase (run_case: None for route `default`)
    if case["rep"] == "ss":
        sys = ct.tf2ss(sys)
        if route == "sskw":
            sys = ct.ss(sys, dt=None)
    if route == "unit":
        # multiplication by 1.0 is exact: the coefficients / matrices are still the ones of `float_coeffs`
        one = ct.ss([], [], [], [[1.]]) if case["rep"] == "ss" else ct.tf([1.], [1.])
        sys = one * sys
    return sys


def valid(case):
    if is_list(case):
        ms = case.get("members") or []
        return 1 <= len(ms) <= 6 and all(
            (not is_list(m)) and m.get("kind") != "unwrap" and m.get("dir") == "right" and "cfg" not in m
            and route_of(m) != "default" and valid(m) for m in ms)
    try:
        route = route_of(case)
        if route not in ROUTES or case.get("tb", "N") != "N" or (case.get("tb") and case["disc"]):
            return False
        if route in ("default", "sskw") and not tb_none(case):
            return False
        if route == "sskw" and case["rep"] != "ss":
            return False
        if route == "kw0" and (case["disc"] or tb_none(case)):
            return False
        if fwd(case):
            if deg(case["ol"]) == 0 or deg(case["zr"]) > deg(case["ol"]) or F(case["k"]) == 0:
                return False
            if any(same_root(z, q) for z in case["zr"] for q in case["ol"]):   # exact pole/zero cancellation
                return False
            if case["disc"] and case_T(case) <= 0:
                return False
            num, den, _, Z = build(case)
            cl = X.padd(den, num)
            return cl[0] != 0 and Z is not None                   # closed loop of full order, Z determined
        if case["disc"]:
            T = case_T(case)
            for r in case["ol"] + case["cl"]:
                if r[0] == "r" and F(r[1]) * T == 2:
                    return False
        if deg(case["ol"]) != deg(case["cl"]) or deg(case["ol"]) == 0:
            return False
        if any(F(r[1]) == 0 for r in case["cl"]):
            return False
        num, den, _, _ = build(case)
        return any(x != 0 for x in num) and F(case["k"]) != 0
    except ZeroDivisionError:
        return False


def case_T(case):
    return F(1) if case["T"] == "true" else F(case["T"])


def scale_root(r, alpha):
    return [r[0]] + [tok(F(x) * alpha) for x in r[1:]]


def scale_case(case, alpha):
    """the loop L(s / alpha) of a continuous-time case: every root multiplied by alpha (a forward-built loop: the gain
    by alpha ** relative degree, so that the shape of the Nyquist curve is unchanged); `scale` records the factor"""
    alpha = F(alpha)
    new = dict(case, ol=[scale_root(r, alpha) for r in case["ol"]])
    if fwd(case):
        new["zr"] = [scale_root(r, alpha) for r in case["zr"]]
        new["k"] = tok(F(case["k"]) * alpha ** (deg(case["ol"]) - deg(case["zr"])))
    else:
        new["cl"] = [scale_root(r, alpha) for r in case["cl"]]
    tot = F(case.get("scale", "1")) * alpha
    if tot == 1:
        new.pop("scale", None)
    else:
        new["scale"] = tok(tot)
    return new


# ----------------------------------------------------------------------------
# running the implementation
# ----------------------------------------------------------------------------
def cpair(z):
    z = complex(z)
    return fr(z.real), fr(z.imag)


def ftok(x):
    """tok(fr(x)) for a finite binary64 number without building a Fraction (the driver lines hold thousands)"""
    x = float(x)
    if x != x or x in (math.inf, -math.inf):
        raise ValueError("non-finite")
    n, d = x.as_integer_ratio()
    return str(n) if d == 1 else "%d/%d" % (n, d)


def ctoks(z):
    z = complex(z)
    return [ftok(z.real), ftok(z.imag)]


def splane_poles(sys, which, case):
    """the poles as nyquist_response is documented to derive them (lines 1381-1396); the branch is decided from the
    case (model: `polesInSPlane`), not by asking the implementation's isctime()"""
    s = sys if which == "ol" else sys.feedback()
    p = s.poles()
    if not case["disc"]:
        return p, p
    z = p[~np.isclose(abs(p), 0.)]
    with np.errstate(all="ignore"):
        return p, np.log(z) / disc_dt(case)


def spec_features(sys, case, subst=True):
    """(log10 of the features, log10 of freq_interesting), selected as `_default_frequency_range` is documented to
    (lines 2779-2820): the inputs of the Lean model `Nyquist.rangeExponents` (log10 is external).  The branch is the
    model's `featureBranch` of the timebase of the case (continuous for dt = 0 and dt = None), compared in (f).
    `subst=False`: the features of one system of a list (the empty test of line 2815 is applied to the union)."""
    interesting = []
    if not case["disc"]:
        f = np.concatenate((np.abs(sys.poles()), np.abs(sys.zeros())))
        f = f[~np.isclose(f, 0.0)]
    else:
        fn = math.pi / disc_dt(case)
        interesting.append(fn * 0.9)
        f = np.concatenate((np.abs(sys.poles()), np.abs(sys.zeros())))
        drop = np.isclose(f.imag, 0.0) & ((f.real <= 0.) | (np.abs(f.real - 1.0) < 1.e-10))
        f = f[~drop]
        with np.errstate(all="ignore"):
            f = np.abs(np.log(f) / (1.j * disc_dt(case)))
    if f.shape[0] == 0 and subst:
        f = np.array([1.])
    with np.errstate(all="ignore"):
        return np.log10(f), np.log10(np.array(interesting, dtype=float))


def spec_exponents(logs, interesting, decades=2):
    """binary64 replica of lines 2821-2829 (the Lean model computes the same over Q; compared on every case)"""
    lo = np.rint(np.min(logs) - decades)
    hi = np.rint(np.max(logs) + decades)
    if len(interesting):
        lo = min(lo, np.min(interesting))
        hi = max(hi, np.max(interesting))
    return float(lo), float(hi)


def rint_marginal(logs, decades=2):
    """np.rint of a binary64 sum next to a tie: exact arithmetic may round the other way"""
    for x in (float(np.min(logs)) - decades, float(np.max(logs)) + decades):
        if abs(abs(x - math.floor(x)) - 0.5) < 1e-9:
            return True
    return False


def default_omega(case, indent_points, raw):
    """omega_sys before any insertion (lines 1344-1369), default arguments, from the logarithmic grid `raw`"""
    omega = np.concatenate((np.linspace(0, raw[0], indent_points), raw[1:]))
    if case["disc"]:
        nyq = math.pi / disc_dt(case)
        omega = np.hstack((omega[omega < nyq], nyq))
    return omega


def impl_raw_grid(sys):
    """the logarithmic grid the implementation's own helper returns for nyquist_response's call (private helper:
    may move; then only the contour comparison ties the grid to the documented range); `sys`: a system or the list of
    systems of one call"""
    num = ct.config._get_param("freqplot", "number_of_samples", None)
    syslist = list(sys) if isinstance(sys, (list, tuple)) else [sys]
    omega, given = _fp._determine_omega_vector(syslist, None, None, num, feature_periphery_decades=2)
    assert not given
    return np.asarray(omega, dtype=float)


CFG_KEY = "freqplot.feature_periphery_decades"


def run_case(case):
    """everything observed on the real code for one case (not JSON: holds arrays).  `case["cfg"]` (optional): the
    user has configured another default periphery of frequency plots before the call (nyquist_response asks for
    two decades explicitly, so the count must not depend on it); restored afterwards."""
    sets = {}
    if case.get("cfg") is not None:
        sets[CFG_KEY] = float(F(case["cfg"]))
    if route_of(case) == "default":
        sets[DT_KEY] = None                   # as after use_legacy_defaults('0.8.x'): unspecified default timebase
    return with_config(sets, run_case_, case)


def with_config(sets, fn, case):
    if not sets:
        return fn(case)
    missing = object()
    old = {k: ct.config.defaults.get(k, missing) for k in sets}
    ct.config.defaults.update(sets)
    try:
        return fn(case)
    finally:
        for k, v in old.items():
            if v is missing:
                del ct.config.defaults[k]
            else:
                ct.config.defaults[k] = v


def run_case_(case):
    out = {}
    sys = make_system(case)
    out["sys"] = sys
    out["dt"] = sys.dt
    try:
        out["pred"] = [bool(sys.isctime()), bool(sys.isctime(strict=True)),
                       bool(sys.isdtime()), bool(sys.isdtime(strict=True))]
    except Exception as e:  # noqa
        out["pred"] = "%s: %s" % (type(e).__name__, str(e)[:80])
    kw = {}
    if case["dir"] != "right":
        kw["indent_direction"] = case["dir"]
    with warnings.catch_warnings(record=True) as wl:
        warnings.simplefilter("always")
        try:
            resp = ct.nyquist_response(sys, **kw)
        except Exception as e:  # noqa
            out["exc"] = "%s: %s" % (type(e).__name__, str(e)[:120])
            try:
                # the poles as the root finder located them still decide whether the loop is inside the quantifier
                # (integrators located as 1 +- eps: "classified by rounding error", outside the claim)
                out["zpoles"], out["spoles"] = splane_poles(sys, "ol", case)
                out["zclpoles"], out["sclpoles"] = splane_poles(sys, "cl", case)
            except Exception:  # noqa
                for k in ("zpoles", "spoles", "zclpoles", "sclpoles"):
                    out.pop(k, None)
            return out
    msgs = [str(w.message) for w in wl]
    out["warn_criterion"] = any("does not match Nyquist criterion" in m for m in msgs)
    out["warn_noninteger"] = any("non-integer value" in m for m in msgs)
    out["count"] = int(resp.count)
    out["contour"] = np.asarray(resp.contour)
    out["resp"] = np.asarray(resp.response)
    r = ct.config._get_param("nyquist", "indent_radius", None, _fp._nyquist_defaults)
    n = ct.config._get_param("nyquist", "indent_points", None, _fp._nyquist_defaults)
    out["r"], out["npts"] = r, n
    try:
        out["zpoles"], out["spoles"] = splane_poles(sys, "ol", case)
        out["zclpoles"], out["sclpoles"] = splane_poles(sys, "cl", case)
        # the documented default grid: logspace between the exponents of the model `nyquistExponents`
        num = ct.config._get_param("freqplot", "number_of_samples", None)
        out["logs"], out["interesting"] = spec_features(sys, case)
        out["lohi"] = spec_exponents(out["logs"], out["interesting"])
        out["raw"] = np.logspace(out["lohi"][0], out["lohi"][1], num=num, endpoint=True)
        out["omega"] = default_omega(case, n, out["raw"])
    except Exception as e:  # noqa  (the contour sub-check is skipped)
        out["aux_exc"] = "%s: %s" % (type(e).__name__, str(e)[:120])
    try:
        out["raw_impl"] = impl_raw_grid(sys)
    except Exception as e:  # noqa  (private helper moved)
        out["raw_impl_exc"] = "%s: %s" % (type(e).__name__, str(e)[:120])
    return out


def is_list(case):
    """one call of nyquist_response on a list / tuple of loops (`members`: ordinary loop cases)"""
    return case.get("kind") == "list"


def run_list(case):
    """one call `nyquist_response([L1, L2, ...])`; -> {"members": [observation of every loop, same keys as run_case],
    "ncrit": number of 'does not match Nyquist criterion' warnings of the call, "repeat": difference found when the
    same call is made a second time (None: identical)}.  The documented common grid (features of ALL systems,
    `_default_frequency_range` 2761-2829) is replicated here from the poles / zeros of the systems; every member's
    `omega` is cut from it at the member's own Nyquist frequency."""
    sets = {}
    if case.get("cfg") is not None:
        sets[CFG_KEY] = float(F(case["cfg"]))
    return with_config(sets, run_list_, case)


def fill_response(out, resp):
    out["count"] = int(resp.count)
    out["contour"] = np.asarray(resp.contour)
    out["resp"] = np.asarray(resp.response)
    out["r"] = ct.config._get_param("nyquist", "indent_radius", None, _fp._nyquist_defaults)
    out["npts"] = ct.config._get_param("nyquist", "indent_points", None, _fp._nyquist_defaults)


def call_list(arg):
    with warnings.catch_warnings(record=True) as wl:
        warnings.simplefilter("always")
        resp = ct.nyquist_response(arg)
    return resp, [str(w.message) for w in wl]


def run_list_(case):
    members = case["members"]
    syss, built = [], {}
    for m in members:
        key = canon(m)
        if case.get("share") and key in built:
            sys = built[key]                 # the SAME object twice in the list
        else:
            sys = make_system(m)
            built[key] = sys
        syss.append(sys)
    outs = []
    for sys in syss:
        o = {"sys": sys, "dt": sys.dt, "warn_criterion": None, "warn_noninteger": None}
        try:
            o["pred"] = [bool(sys.isctime()), bool(sys.isctime(strict=True)),
                         bool(sys.isdtime()), bool(sys.isdtime(strict=True))]
        except Exception as e:  # noqa
            o["pred"] = "%s: %s" % (type(e).__name__, str(e)[:80])
        outs.append(o)
    res = {"members": outs, "ncrit": None, "repeat": None}
    arg = tuple(syss) if case.get("cont") == "tuple" else list(syss)
    exc = None
    try:
        resp, msgs = call_list(arg)
        if len(resp) != len(syss):
            exc = "WrongLength: %d responses for %d systems" % (len(resp), len(syss))
    except Exception as e:  # noqa
        exc = "%s: %s" % (type(e).__name__, str(e)[:120])
    if exc is not None:
        for m, o in zip(members, outs):
            o["exc"] = exc
            try:
                o["zpoles"], o["spoles"] = splane_poles(o["sys"], "ol", m)
                o["zclpoles"], o["sclpoles"] = splane_poles(o["sys"], "cl", m)
            except Exception:  # noqa
                for k in ("zpoles", "spoles", "zclpoles", "sclpoles"):
                    o.pop(k, None)
        return res
    res["ncrit"] = sum(1 for t in msgs if "does not match Nyquist criterion" in t)
    for o, r in zip(outs, resp):
        fill_response(o, r)
    if case.get("twice"):
        # history: the same call once more (same objects) must give the same result
        try:
            resp2, _ = call_list(arg)
            for i, (a, b) in enumerate(zip(resp, resp2)):
                if int(a.count) != int(b.count) or not np.array_equal(np.asarray(a.contour), np.asarray(b.contour)) \
                        or not np.array_equal(np.asarray(a.response), np.asarray(b.response)):
                    res["repeat"] = "system %d: count %d / %d points, second identical call %d / %d points" % (
                        i, int(a.count), len(a.contour), int(b.count), len(b.contour))
                    break
        except Exception as e:  # noqa
            res["repeat"] = "second identical call raises %s: %s" % (type(e).__name__, str(e)[:100])
    # the documented common grid
    try:
        num = ct.config._get_param("freqplot", "number_of_samples", None)
        per = [spec_features(o["sys"], m, subst=False) for m, o in zip(members, outs)]
        logs = np.concatenate([p[0] for p in per])
        interesting = np.concatenate([p[1] for p in per])
        if len(logs) == 0:
            logs = np.array([0.])            # log10 of the substituted feature 1.
        lohi = spec_exponents(logs, interesting)
        raw = np.logspace(lohi[0], lohi[1], num=num, endpoint=True)
        for m, o in zip(members, outs):
            o["zpoles"], o["spoles"] = splane_poles(o["sys"], "ol", m)
            o["zclpoles"], o["sclpoles"] = splane_poles(o["sys"], "cl", m)
            o["fs"] = per
            o["logs"], o["interesting"], o["lohi"], o["raw"] = logs, interesting, lohi, raw
            o["omega"] = default_omega(m, o["npts"], raw)
    except Exception as e:  # noqa
        for o in outs:
            o["aux_exc"] = "%s: %s" % (type(e).__name__, str(e)[:120])
    try:
        g = impl_raw_grid(syss)
        for o in outs:
            o["raw_impl"] = g
    except Exception as e:  # noqa
        for o in outs:
            o["raw_impl_exc"] = "%s: %s" % (type(e).__name__, str(e)[:120])
    return res


def finite(a):
    return bool(np.all(np.isfinite(a)))


# ----------------------------------------------------------------------------
class C13(Family):
    prop = "C13"
    extra_modules = ["CtrlVerif.Props.C13Arg",    # argument principle on the imaginary axis (H1, H3 discharged)
                     "CtrlVerif.Props.C13Grid",   # default frequency grid: range, start at 0, end at Nyquist
                     "CtrlVerif.Props.C13List",   # a list of loops in one call: common grid, loop over the systems
                     # source-text tie (notes/NOTES-py2lean-unwrap.md): Generated/Nyq*.lean are rewritten from the
                     # text of ctrlutil.unwrap and of the count / indentation / P-Z statements of nyquist_response
                     "CtrlVerif.Props.C13Gen", "CtrlVerif.Props.C13GenIndent", "CtrlVerif.Props.C13GenArg",
                     # source-text tie of the default grid (notes/NOTES-py2lean-grid.md): Generated/Grid*.lean
                     "CtrlVerif.Props.C13GenGrid", "CtrlVerif.Props.C13GenGridNyq"]

    def pre_build(self):
        import os
        from core import py2lean_nyq, leanproj
        problems, self.gen_info = py2lean_nyq.regenerate(os.environ.get("VERIF_REPO") or "/repo", leanproj.LEAN)
        from core import py2lean_grid
        problems_grid, gen_info_grid = py2lean_grid.regenerate(os.environ.get("VERIF_REPO") or "/repo", leanproj.LEAN)
        self.gen_info.update(gen_info_grid)
        return problems + problems_grid
    externals = ["numpy.angle (quadrant contract checked per sample)", "numpy.sqrt", "numpy.log / numpy.exp "
                 "(discrete-time contour mapping)", "poles() of the loop and of the closed loop "
                 "(numpy.roots / eigvals)", "evaluation of the loop on the contour (C04)",
                 "numpy.log10 of the pole / zero magnitudes and their selection as in _default_frequency_range "
                 "(inputs of the grid model Nyquist.rangeExponents), 10**x of numpy.logspace",
                 "numpy.roots of the exact closed-loop polynomial of a forward-built loop (statistics and the "
                 "classification of a violation only; Z itself is an exact Routh count)"]
    assumptions = ["argument principle (H3 of count_partial): PROVED for continuous-time loops without poles on "
                   "the imaginary axis and an unindented contour (C13Arg.count_continuous); still a hypothesis for "
                   "the indented contour (poles on / within indent_radius of the axis) and for discrete time",
                   "adequacy of the default frequency grid for C13Arg.count_continuous: phase steps of Phi < pi (H2) "
                   "and tail bound at the last grid point; evaluated per case on the implementation's contour "
                   "(histogram argprinciple_hyp), not proved",
                   "sampling hypothesis: consecutive samples of 1+L turn by less than pi "
                   "(hypothesis of discrete_winding; validated, not proved, by count == Z-P)",
                   "forward-built loops (zeros, poles, gain): Z is the number of sign changes of the Routh table of "
                   "den + num over Q (discrete time: after z = (1+w)/(1-w)), computed by the harness "
                   "(families/c13_exact.py, self-tested against numpy.roots) for the exact polynomial and for the "
                   "binary64 coefficients; not a Lean theorem",
                   "IEEE arithmetic not modelled: the integer count is compared exactly, guarded by the "
                   "model's branch margin; contour points within tolerance 1e-9 (+ sqrt sensitivity)"]
    rule = ("loops built backwards from exact open-loop poles (0-2 integrators, imaginary-axis, near-axis and "
            "lightly damped poles, orders 1-7) and closed-loop poles, gain k (biproper when k != 1, either sign), "
            "TF and SS, continuous and discrete (bilinear image, several sampling times, dt=True), "
            "indent_direction right/left; plus loops given forwards as zeros / poles / gain with Z counted exactly "
            "by Routh tables: high loop gain (|k| 30 .. 1e5, gain crossover decades above the dynamics), poles and "
            "zeros spread over four decades, delays z^-n, sampling times 1/100 .. 5, and discrete-time loops with "
            "every pole and zero within 3 % of the unit circle and a mode next to z = -1; per loop also the default "
            "grid (range exponents, start at 0, end at Nyquist) against the model; continuous-time loops also with "
            "unspecified timebase (dt=None by keyword, by the configured default_dt, by ss(sys, dt=None), by a product "
            "with a static gain) and with all roots scaled by 1/100 .. 10^4 (dynamics outside 0.01 .. 100 rad/s); "
            "lists of 1-5 such loops analysed in ONE call (a slowly sampled loop before continuous-time / scaled / "
            "high-gain / faster-sampled loops, mixed lists in random order, the same loop twice as one or two objects, "
            "tuples, the call made twice): every loop of the list against its exact Z - P and against the model's "
            "contour on the common grid cut at the loop's own Nyquist frequency; "
            "non-trivial = dynamic loop with Z != 0 or P != 0 or an indentation")

    def __init__(self):
        self._cache = {}
        self._momega = {}

    # ---- generation -------------------------------------------------------
    MAG = ["1/4", "1/2", "1", "3/2", "2", "3", "5", "7/10", "13/10"]

    def root(self, rng, stable=None):
        sgn = {None: rng.choice([-1, 1]), True: -1, False: 1}[stable]
        if rng.random() < 0.5:
            return ["r", tok(sgn * F(rng.choice(self.MAG)))]
        return ["c", tok(sgn * F(rng.choice(self.MAG))), tok(F(rng.choice(self.MAG)))]

    def fill(self, rng, n, stable=None):
        out = []
        while deg(out) < n:
            r = self.root(rng, stable)
            if deg(out) + mult(r) <= n:
                out.append(r)
        return out

    # ---- loops given forwards (zeros, poles, gain): Z by the exact Routh count ----------------------------
    WIDE = ["1/100", "1/20", "1/10", "10", "20", "100"]
    CIRC = ["97/100", "39/40", "49/50", "197/200", "99/100", "199/200", "201/200", "101/100", "51/50", "41/40"]
    ZMOD = ["1/4", "1/2", "7/10", "9/10", "11/10", "3/2", "2"]
    # rational points of the unit circle (upper half), from Pythagorean triples
    DIRS = [("3/5", "4/5"), ("4/5", "3/5"), ("5/13", "12/13"), ("12/13", "5/13"), ("7/25", "24/25"),
            ("24/25", "7/25"), ("0", "1"), ("-3/5", "4/5"), ("-4/5", "3/5"), ("-5/13", "12/13"),
            ("-12/13", "5/13"), ("-7/25", "24/25"), ("-24/25", "7/25"), ("-40/41", "9/41"), ("-60/61", "11/61")]

    def sroot(self, rng, mags, stable=None):
        """s-plane root with magnitude-like parameters from `mags`"""
        sgn = {None: rng.choice([-1, -1, 1]), True: -1, False: 1}[stable]
        if rng.random() < 0.6:
            return ["r", tok(sgn * F(rng.choice(mags)))]
        return ["c", tok(sgn * F(rng.choice(mags))), tok(F(rng.choice(mags)))]

    def zroot(self, rng, mods, neg=None):
        """z-plane root of modulus exactly m in `mods`: real (sign `neg`) or m * (rational point of the unit circle)"""
        m = F(rng.choice(mods))
        if neg is not None or rng.random() < 0.5:
            sgn = -1 if (neg if neg is not None else rng.random() < 0.4) else 1
            return ["r", tok(sgn * m)]
        c, sn = rng.choice(self.DIRS)
        return ["c", tok(m * F(c)), tok(m * F(sn))]

    def fill_with(self, rng, n, mk):
        out = []
        while deg(out) < n:
            r = mk()
            if deg(out) + mult(r) <= n:
                out.append(r)
        return out

    def gen_fwd(self, rng, kind):
        """forward-built loop L = k prod(x - z_i) / prod(x - p_i)
        highgain : |k| from 30 to 1e5, slow poles/zeros: gain crossover far above the dynamics (the contour must
                   extend the documented two decades beyond the fastest pole/zero)
        zpk      : moderate gains, poles/zeros spread over up to four decades (stiff), delays z^-n in discrete time
        dcircle  : discrete time, every pole and zero within 3 % of the unit circle and a mode next to z = -1
                   (the logarithmic part of the default grid stops at 0.9 pi/dt: the contour must still end on z = -1)"""
        disc = {"highgain": rng.random() < 0.25, "zpk": rng.random() < 0.5, "dcircle": True}[kind]
        case = {"kind": kind, "form": "zpk", "disc": disc,
                "T": rng.choice(["1/10", "1/4", "1/2", "1", "true", "1/100", "5"]) if disc else "0",
                "rep": rng.choice(["tf", "tf", "ss"]), "dir": "right"}
        n = rng.choice([1, 1, 2, 2, 2, 3, 3, 4])
        ol = []
        if kind == "highgain":
            case["k"] = tok(rng.choice([-1, 1, 1]) * F(rng.choice(
                ["30", "100", "200", "500", "1000", "3000", "10000", "100000"])))
            if disc:
                mk = lambda: self.zroot(rng, self.ZMOD)
                if rng.random() < 0.2:
                    ol.append(["r", "1"])
            else:
                mk = lambda: self.sroot(rng, self.MAG)
                if rng.random() < 0.3:
                    ol.append(["r", "0"])
            ol += self.fill_with(rng, max(n - deg(ol), 1 if not ol else 0), mk)
            zr = self.fill_with(rng, rng.choice([0, 0, 0, 1, 1, 2, 3]) if deg(ol) > 1 else rng.choice([0, 0, 1]), mk)
        elif kind == "zpk":
            case["k"] = tok(rng.choice([-1, 1, 1]) * F(rng.choice(
                ["1/100", "1/10", "1/2", "1", "2", "5", "10", "30"])))
            if disc:
                mods = self.ZMOD + ["1/20", "19/20", "21/20", "5"]
                mk = lambda: ["r", "0"] if rng.random() < 0.25 else self.zroot(rng, mods)
                if rng.random() < 0.2:
                    ol.append(["r", "1"])
            else:
                mags = self.MAG + self.WIDE
                mk = lambda: self.sroot(rng, mags)
                for _ in range(rng.choice([0, 0, 0, 1, 2])):
                    ol.append(["r", "0"])
            ol += self.fill_with(rng, max(n, 1), mk)
            zr = self.fill_with(rng, rng.randint(0, deg(ol)), mk)
        else:  # dcircle
            case["k"] = tok(rng.choice([-1, 1, 1]) * F(rng.choice(
                ["1/10", "1/5", "1/2", "1", "2", "3", "10", "30"])))
            mk = lambda: self.zroot(rng, self.CIRC)
            ol.append(self.zroot(rng, self.CIRC, neg=True))       # the mode next to z = -1
            ol += self.fill_with(rng, n - 1, mk)
            zr = self.fill_with(rng, rng.choice([0, 0, 0, 1, 1, 2]), mk)
        while deg(zr) > deg(ol):
            zr.pop()
        case["ol"], case["zr"] = ol, zr
        if rng.random() < 0.15:
            case["cfg"] = rng.choice(["0", "1/2", "3"])      # user-configured default periphery (must not matter)
        return case

    FAST = ["100", "1000", "10000"]
    SLOW = ["1/10", "1/100"]
    SCALABLE = ("generic", "left", "lightcl", "scaled", "highgain", "zpk")

    def gen_one(self, rng, kind):
        """one case of the kind, then the declaration of its timebase (`tb`, `route`) and the frequency scale"""
        case = self.gen_plain(rng, kind)
        if case["disc"]:
            if rng.random() < 0.1:
                case["route"] = "unit"                   # a static gain (timebase None) times the sampled loop
            return case
        # frequency scale: the whole loop decades above / below 1 rad/s
        x = rng.random()
        if kind == "scaled":
            case = scale_case(case, rng.choice(self.FAST if x < 0.85 else self.SLOW))
        elif kind in self.SCALABLE and x < 0.12:
            case = scale_case(case, rng.choice(self.FAST + self.SLOW + ["10"]))
        # timebase: unspecified (dt=None) or continuous, by different routes
        x = rng.random()
        if x < (0.6 if kind == "scaled" else 0.25):
            case["tb"] = "N"
            route = rng.choice(["kw", "kw", "default", "unit"] + (["sskw", "sskw"] if case["rep"] == "ss" else []))
            if route != "kw":
                case["route"] = route
        elif x > 0.9:
            case["route"] = rng.choice(["kw0", "unit"])
        return case

    def gen_plain(self, rng, kind):
        if kind in FWD_KINDS:
            return self.gen_fwd(rng, kind)
        disc = rng.random() < 0.45 and kind != "scaled"
        case = {"kind": kind, "disc": disc,
                "T": rng.choice(["1/10", "1/4", "1/2", "1", "true", "1/8"]) if disc else "0",
                "rep": rng.choice(["tf", "ss"]), "dir": "right",
                "k": rng.choice(["1", "1", "1", "1", "2", "1/2", "-1", "-2", "3"])}
        ol = []
        if kind == "generic":
            for _ in range(rng.choice([0, 0, 0, 1, 1, 2])):
                ol.append(["r", "0"])
            ol += self.fill(rng, rng.randint(1, 5))
        elif kind == "scaled":        # continuous time; gen_one moves all roots decades away from 1 rad/s
            for _ in range(rng.choice([0, 0, 0, 1])):
                ol.append(["r", "0"])
            ol += self.fill(rng, rng.randint(1, 4))
        elif kind == "axis":          # purely imaginary open-loop poles (outside the claim)
            for _ in range(rng.choice([0, 1])):
                ol.append(["r", "0"])
            ol.append(["c", "0", rng.choice(self.MAG)])
            ol += self.fill(rng, rng.randint(0, 3))
        elif kind == "near":          # within the indentation radius of the axis (outside the claim)
            d = rng.choice(["1/20000", "-1/20000", "1/40000", "-1/40000", "-3/40000"])
            if rng.random() < 0.5:
                ol.append(["r", d])
            else:
                ol.append(["c", d, rng.choice(self.MAG)])
            ol += self.fill(rng, rng.randint(0, 3))
        elif kind == "light":         # lightly damped open-loop poles, >= 5 radii from the axis
            d = rng.choice([-1, 1]) * F(rng.choice(["1/2000", "1/1000", "1/500", "1/200", "1/100"]))
            ol.append(["c", tok(d), rng.choice(self.MAG)])
            ol += self.fill(rng, rng.randint(0, 2))
        elif kind == "lightcl":       # lightly damped closed-loop poles (set below)
            for _ in range(rng.choice([0, 0, 1])):
                ol.append(["r", "0"])
            ol += self.fill(rng, rng.randint(2, 4))
        elif kind == "left":
            case["dir"] = "left"
            for _ in range(rng.choice([0, 1, 2])):
                ol.append(["r", "0"])
            ol += self.fill(rng, rng.randint(1, 3))
        case["ol"] = ol
        # closed loop: mostly stable, sometimes not
        mode = rng.random()
        if kind == "lightcl":
            d = rng.choice([-1, 1]) * F(rng.choice(["1/2000", "1/1000", "1/500", "1/200", "1/100"]))
            case["cl"] = [["c", tok(d), rng.choice(self.MAG)]] + self.fill(rng, deg(ol) - 2, None)
        else:
            case["cl"] = self.fill(rng, deg(ol), True if mode < 0.4 else None)
        return case

    def gen_unwrap(self, rng):
        """unit level: ctrlutil.unwrap on small dyadic data with a dyadic period (IEEE arithmetic exact)"""
        n = rng.choice([0, 1, 2, 3, 5, 8, 13])
        return {"kind": "unwrap", "period": rng.choice(["2", "1", "4", "1/2", "2", "8"]),
                "a": [tok(F(rng.randint(-64, 64), 8)) for _ in range(n)]}

    def generate(self, rng, tier):
        n = 210 if tier == "quick" else 3000
        kinds = ["generic"] * 6 + ["axis", "near", "near", "light", "lightcl", "left"]
        out = []
        while len(out) < n:
            c = self.gen_one(rng, rng.choice(kinds))
            if valid(c):
                out.append(c)
        nf = 90 if tier == "quick" else 1500          # loops given forwards
        m = len(out) + nf
        while len(out) < m:
            c = self.gen_one(rng, rng.choice(FWD_KINDS))
            if valid(c):
                out.append(c)
        # loops whose dynamics lie decades away from 1 rad/s, most of them with unspecified timebase
        m = len(out) + (40 if tier == "quick" else 600)
        while len(out) < m:
            c = self.gen_one(rng, "scaled")
            if valid(c):
                out.append(c)
        # several loops in ONE call of nyquist_response (one common grid, cut per loop at its Nyquist frequency)
        m = len(out) + (45 if tier == "quick" else 450)
        while len(out) < m:
            c = self.gen_list(rng)
            if valid(c):
                out.append(c)
        out += [self.gen_unwrap(rng) for _ in range(40 if tier == "quick" else 600)]
        return out

    LIST_KINDS = ["generic", "generic", "generic", "zpk", "zpk", "highgain", "highgain", "scaled", "dcircle", "lightcl"]
    SLOW_T = ["1", "1", "5", "true", "1/2", "2"]
    FAST_T = ["1/100", "1/100", "1/10", "1/8"]

    def gen_member(self, rng, kinds, disc=None, Ts=None):
        """one loop of a list: an ordinary case (default direction, no per-loop configuration); `disc` forces the
        timebase class, `Ts` the sampling time of a discrete-time loop"""
        for _ in range(400):
            c = self.gen_one(rng, rng.choice(kinds))
            if disc is not None and c["disc"] != disc:
                continue
            c.pop("cfg", None)
            if c.get("route") == "default":
                del c["route"]
            if c["disc"] and Ts:
                c["T"] = rng.choice(Ts)
            if c["dir"] == "right" and valid(c):
                return c
        return None

    def gen_list(self, rng):
        """a list of loops for one call.
        slowfirst : a slowly sampled discrete-time loop (dt = 1/2 .. 5, True) and one to three loops that need higher
                    frequencies - continuous-time loops (ordinary, all roots scaled by 100 .. 10^4, high gain) or
                    discrete-time loops sampled 10 .. 500 times faster; the slow loop mostly FIRST
        mixed     : two to four loops of any kind and timebase in random order
        single    : a list of one loop
        plus: the same loop twice (as two objects or as the same object), a tuple instead of a list, the call made
        twice, a configured default periphery"""
        x = rng.random()
        ms = []
        if x < 0.5:
            slow = self.gen_member(rng, ["generic", "generic", "zpk", "highgain", "dcircle"], disc=True, Ts=self.SLOW_T)
            for _ in range(rng.choice([1, 1, 1, 2, 2, 3])):
                y = rng.random()
                if y < 0.3:
                    ms.append(self.gen_member(rng, ["scaled"], disc=False))
                elif y < 0.55:
                    ms.append(self.gen_member(rng, ["generic", "highgain", "zpk"], disc=False))
                elif y < 0.85:
                    ms.append(self.gen_member(rng, ["generic", "zpk", "highgain", "dcircle"], disc=True, Ts=self.FAST_T))
                else:
                    ms.append(self.gen_member(rng, self.LIST_KINDS))
            if rng.random() < 0.7:
                ms.insert(0, slow)
            else:
                ms.insert(rng.randint(0, len(ms)), slow)
        elif x < 0.95:
            ms = [self.gen_member(rng, self.LIST_KINDS) for _ in range(rng.choice([2, 2, 3, 3, 4]))]
        else:
            ms = [self.gen_member(rng, self.LIST_KINDS)]
        if any(m is None for m in ms):
            return {"kind": "list", "members": []}
        case = {"kind": "list", "members": ms}
        if rng.random() < 0.15 and len(ms) < 4:
            ms.insert(rng.randint(0, len(ms)), dict(rng.choice(ms)))       # the same loop twice
            if rng.random() < 0.5:
                case["share"] = True
        if rng.random() < 0.15:
            case["cont"] = "tuple"
        if rng.random() < 0.3:
            case["twice"] = True
        if rng.random() < 0.1:
            case["cfg"] = rng.choice(["0", "1/2", "3"])
        return case

    def corpus(self):
        base = {"kind": "corpus", "disc": False, "T": "0", "rep": "tf", "dir": "right", "k": "1"}
        mk = lambda **kw: dict(base, **kw)
        return [
            # 1/(s+1)-like stable loop, an unstable closed loop, integrators
            mk(ol=[["r", "-1"]], cl=[["r", "-2"]]),
            mk(ol=[["r", "-1"], ["r", "-2"]], cl=[["c", "1/2", "3"]]),
            mk(ol=[["r", "0"], ["r", "-1"]], cl=[["c", "-1/2", "1"]]),
            mk(ol=[["r", "0"], ["r", "0"], ["r", "-1"]], cl=[["c", "1/4", "1"], ["r", "-3"]], rep="ss"),
            mk(ol=[["r", "1"]], cl=[["r", "-2"]], disc=True, T="1/10"),
            mk(ol=[["r", "0"]], cl=[["r", "-1"]], disc=True, T="1/2"),
            # lightly damped open-loop pair 10 radii from the axis: the default grid steps over the resonance
            mk(kind="light", ol=[["c", "-1/1000", "5"]], cl=[["c", "1/2", "5"]]),
        ] + self.corpus_fwd() + self.corpus_list()

    def corpus_list(self):
        base = {"kind": "corpus", "form": "zpk", "disc": False, "T": "0", "rep": "tf", "dir": "right", "zr": []}
        mk = lambda **kw: dict(base, **kw)
        slow = mk(k="1/5", ol=[["r", "1/2"]], disc=True, T="1")                        # 0.2/(z - 0.5), dt = 1
        cont = mk(k="20000", ol=[["r", "-10"], ["r", "-10"], ["r", "-10"]])            # 20/(s/10 + 1)^3: Z - P = 2
        fast = mk(k="5/2", ol=[["r", "7/10"], ["r", "1/2"]], disc=True, T="1/100")     # unstable closed loop, dt = 0.01
        return [
            {"kind": "list", "members": [slow, cont, fast]},
            {"kind": "list", "members": [fast, cont, slow], "twice": True},
            {"kind": "list", "members": [cont, cont], "share": True, "cont": "tuple"},
            {"kind": "list", "members": [slow]},
        ]

    def corpus_fwd(self):
        base = {"kind": "corpus", "form": "zpk", "disc": False, "T": "0", "rep": "tf", "dir": "right", "zr": []}
        mk = lambda **kw: dict(base, **kw)
        return [
            # high loop gain: the gain crossover lies more than a decade above the fastest pole / zero
            mk(k="1000", ol=[["r", "-1"], ["r", "-2"]]),
            mk(k="-200", ol=[["r", "-1"]], rep="ss"),
            mk(k="500", ol=[["r", "0"], ["r", "-1"]]),
            mk(k="400", ol=[["r", "1"], ["r", "-3"]], zr=[["r", "-2"]]),
            # discrete time, all dynamics within 3 % of the unit circle, one mode next to z = -1
            mk(k="3", ol=[["r", "99/100"], ["r", "-49/50"]], disc=True, T="1"),
            mk(k="-1/5", ol=[["r", "99/100"], ["r", "-49/50"]], disc=True, T="1"),
            mk(k="3", ol=[["r", "49/50"], ["r", "-39/40"]], disc=True, T="1/10", rep="ss"),
            mk(k="3", ol=[["r", "51/50"], ["r", "-49/50"]], disc=True, T="1"),
            mk(k="5/2", ol=[["r", "1/2"], ["r", "-2/5"]], zr=[["r", "1/5"]], disc=True, T="1"),
            # a delay chain
            mk(k="1/2", ol=[["r", "0"], ["r", "0"], ["r", "1/2"]], disc=True, T="true"),
            # gain crossover beyond the documented default range (known finding C13-range-below-crossover)
            mk(k="20000", ol=[["r", "-1"], ["r", "-2"]]),
            # two modes next to z = -1 behind the 0.9 pi/dt end of the logarithmic grid (C13-dtime-nyquist-gap)
            mk(k="1/10", ol=[["r", "-97/100"], ["r", "-199/200"]], disc=True, T="1/10"),
            # unspecified timebase (dt=None), dynamics above the range a loop without features would get
            mk(k="20000000", ol=[["r", "-100"], ["r", "-100"], ["r", "-100"]], tb="N"),
            mk(k="20000000", ol=[["r", "-100"], ["r", "-100"], ["r", "-100"]], tb="N", rep="ss", route="sskw"),
            mk(k="-3000", ol=[["r", "-1000"]], tb="N", route="default"),
            mk(k="5000", ol=[["r", "1000"], ["r", "-2000"]], zr=[["r", "-500"]], tb="N", route="unit"),
            # ... and below it
            mk(k="1/2500", ol=[["r", "1/100"], ["r", "-1/50"]], tb="N"),
        ]

    # ---- execution --------------------------------------------------------
    def obs(self, case):
        key = canon(case)
        if key not in self._cache:
            if len(self._cache) > 20000:
                self._cache.clear()
            self._cache[key] = run_list(case) if is_list(case) else run_case(case)
        return self._cache[key]

    def line(self, case):
        if case["kind"] == "unwrap":
            return "nyq unwrap %s %d %s" % (case["period"], len(case["a"]), " ".join(case["a"]))
        if is_list(case):
            obs = self.obs(case)
            lines = []
            for i, (m, o) in enumerate(zip(case["members"], obs["members"])):
                lines += self.line_loop(m, o, lst=(case, i))
            return lines
        return self.line_loop(case, self.obs(case))

    def line_loop(self, case, o, lst=None):
        """the six driver lines of one loop; `lst` = (list case, position) when the loop was analysed as one entry of
        a list: (d) is then the model of the common range (`lgrid`: features of all systems) and (e) the model of the
        loop over the systems (`lomega`: the timebases of all systems, this one's position)"""
        lines = []
        # (a) count
        if "exc" in o or not finite(o["resp"]):
            lines.append("nyq unwrap 1 0")
        else:
            resp = o["resp"]
            ang = np.angle(resp + 1)
            parts = ["nyq count", PI_TOK, EPS_TOK, str(len(resp))]
            for z, a in zip(resp, ang):
                parts += ctoks(z)
                parts.append(ftok(a))
            lines.append(" ".join(parts))
        # (b) contour
        if "exc" in o or "aux_exc" in o or not finite(o.get("spoles", np.array([np.nan]))) \
                or case["dir"] == "none":
            lines.append("nyq unwrap 1 0")
        else:
            parts = ["nyq contour", tok(fr(o["r"])), str(o["npts"]), case["dir"], str(len(o["spoles"]))]
            for p in o["spoles"]:
                parts += ctoks(p)
            parts.append(str(len(o["omega"])))
            parts += [ftok(w) for w in o["omega"]]
            lines.append(" ".join(parts))
        # (c) P / Z conventions and the criterion warning
        if "exc" in o or "aux_exc" in o or not finite(o["zpoles"]) or not finite(o["zclpoles"]):
            lines.append("nyq unwrap 1 0")
        else:
            parts = ["nyq pz", "0" if case["disc"] else "1", case["dir"], str(o["count"]),
                     str(len(o["zpoles"]))]
            for p in o["zpoles"]:
                parts += ctoks(p)
            parts.append(str(len(o["zclpoles"])))
            for p in o["zclpoles"]:
                parts += ctoks(p)
            lines.append(" ".join(parts))
        # (d) exponents of the default grid, (e) omega_sys before points are inserted near poles
        if "exc" in o or "aux_exc" in o or not finite(o["logs"]) or not finite(o["interesting"]) \
                or not finite(o["raw"]):
            lines += ["nyq unwrap 1 0", "nyq unwrap 1 0"]
        else:
            cfgc = lst[0] if lst else case
            cfg = F(cfgc["cfg"]) if cfgc.get("cfg") is not None else fr(ct.config.defaults.get(CFG_KEY, 1))
            if lst:
                parts = ["nyq lgrid", tok(cfg), str(len(o["fs"]))]
                for (lg, it) in o["fs"]:
                    parts += [str(len(lg))] + [ftok(x) for x in lg] + [str(len(it))] + [ftok(x) for x in it]
            else:
                parts = ["nyq grid", tok(cfg), str(len(o["logs"]))] + [ftok(x) for x in o["logs"]]
                parts += [str(len(o["interesting"]))] + [ftok(x) for x in o["interesting"]]
            lines.append(" ".join(parts))
            if lst:
                ms = lst[0]["members"]
                parts = ["nyq lomega", PI_TOK, str(o["npts"]), str(lst[1]), str(len(ms))]
                parts += [base_dt_tok(m) for m in ms]
                parts += [str(len(o["raw"]))] + [ftok(w) for w in o["raw"]]
                lines.append(" ".join(parts))
            elif case["disc"] or tb_none(case) or zlib.crc32(canon(case).encode()) % 4 == 0:
                # every discrete-time case (the cut at the Nyquist frequency), every case with unspecified timebase
                # and a quarter of the others
                nyq = ftok(math.pi / disc_dt(case)) if case["disc"] else "N"
                parts = ["nyq omega", str(o["npts"]), nyq, str(len(o["raw"]))] + [ftok(w) for w in o["raw"]]
                lines.append(" ".join(parts))
            else:
                lines.append("nyq unwrap 1 0")
        # (f) timebase of the loop and what follows from it
        parts = tb_parts(case)
        lines.append("nyq tb %s %d %s" % (PI_TOK, len(parts), " ".join(parts)))
        return lines

    def in_claim(self, case, o):
        """(inside the quantifier?, reason).  True open-loop poles: exactly at s=0 (z=1) or >= GUARD radii
        from the boundary; the integrators must have been located *exactly* on the boundary by the
        implementation's root finder (otherwise: 'classified by rounding error', outside the claim);
        closed-loop poles >= GUARD radii from the boundary; default indentation."""
        if case["dir"] != "right":
            return False, "non-default-direction"
        r = F(1, 10000)
        nint = 0
        disc = case["disc"]
        for rt in case["ol"]:
            nat = native_root(rt, case)
            a = F(nat[1])
            b = F(nat[2]) if nat[0] == "c" else F(0)
            on_boundary = (a * a + b * b == 1) if disc else (a == 0)
            if on_boundary:
                if nat[0] == "c" or (disc and a != 1):
                    return False, "imaginary-axis-pole"
                nint += 1
            elif abs(self.boundary_dist(rt, case)) < GUARD_RADII * r:
                return False, "near-axis-pole"
        if fwd(case):
            info = self.fwd_info(case)
            if not info["strip"]:
                return False, "near-axis-closed-loop-pole"
            if not info["float_ok"]:
                return False, "ill-conditioned-roots"
        else:
            for rt in case["cl"]:
                if abs(self.boundary_dist(rt, case)) < GUARD_RADII * r:
                    return False, "near-axis-closed-loop-pole"
        if "spoles" in o:
            sp = o["spoles"]
            if not finite(sp):
                return False, "boundary-rounding"
            exact0 = sum(1 for p in sp if p.real == 0 and abs(p.imag) < 1e-6)
            stray = sum(1 for p in sp if p.real != 0 and abs(p.real) < GUARD_RADII * 1e-4)
            if exact0 != nint or stray:
                return False, "boundary-rounding"
            if any(abs(p.real) < GUARD_RADII * 1e-4 for p in o["sclpoles"]):
                return False, "boundary-rounding"
            # the binary64 coefficients must still represent the constructed loop: every true pole off the
            # boundary is matched by a computed pole much closer to it than the boundary is (repeated or
            # clustered roots move by eps^(1/m); then Z and P of the float system are not the constructed ones)
            if not self.well_conditioned(case, case["ol"], o["zpoles"]):
                return False, "ill-conditioned-roots"
            if fwd(case):
                # no exact closed-loop roots to match: the implementation's own closed-loop poles must at least
                # give the exact count (the exact count of the binary64 coefficients was checked above)
                zc = np.asarray(o["zclpoles"], dtype=complex)
                nz = int((np.abs(zc) > 1).sum()) if disc else int((zc.real > 0).sum())
                if len(zc) != deg(case["ol"]) or nz != build(case)[3]:
                    return False, "ill-conditioned-roots"
            elif not self.well_conditioned(case, case["cl"], o["zclpoles"]):
                return False, "ill-conditioned-roots"
        return True, "in-claim"

    _FWD = {}

    @classmethod
    def fwd_info(cls, case):
        """forward-built loop: exact facts about the closed-loop polynomial den + num (Routh tables over Q):
        strip     – no closed-loop pole within GUARD (+1) indentation radii of the stability boundary, in the
                    s-plane the code works in (discrete: 1 -+ 7 r dt bracket exp(-+ 6 r dt));
        float_ok  – the same, and the same Z, for the binary64 coefficients taken as exact rationals (the system the
                    implementation receives)."""
        key = canon(case)
        if key not in cls._FWD:
            if len(cls._FWD) > 50000:
                cls._FWD.clear()
            num, den, _, Z = build(case)
            r = F(1, 10000)
            if case["disc"]:
                dt = case_T(case)
                delta = 7 * r * dt
            else:
                delta = (GUARD_RADII + 1) * r
            clp = X.padd(den, num)
            numf, denf = float_coeffs(case)
            clf = X.padd([F(x) for x in denf], [F(x) for x in numf])
            strip = X.strip_clear(clp, case["disc"], delta) is True
            float_ok = strip and X.unstable_count(clf, case["disc"]) == Z and \
                X.strip_clear(clf, case["disc"], delta) is True
            cls._FWD[key] = {"strip": strip, "float_ok": float_ok}
        return cls._FWD[key]

    @staticmethod
    def cl_numeric(case):
        """closed-loop poles in the native plane as binary64 numbers: exact construction (backward form) or
        numpy.roots of the exact closed-loop polynomial (forward form; used only for statistics and for the
        classification of a violation, never for Z)"""
        if fwd(case):
            num, den, _, _ = build(case)
            return list(np.roots([float(x) for x in X.padd(den, num)]))
        return [q for rt in case["cl"] for (q, _) in C13.native_poles(rt, case)]

    @staticmethod
    def ol_numeric(case):
        return [q for rt in case["ol"] for (q, _) in C13.native_poles(rt, case)]

    @staticmethod
    def loop_features(case):
        """|poles|, |zeros| of L (native plane), the inputs of the documented default frequency range"""
        num, den, _, _ = build(case)
        numf = [float(x) for x in X.strip_lead(num)]
        zs = list(np.abs(np.roots(numf))) if len(numf) > 1 else []
        return [abs(q) for q in C13.ol_numeric(case)] + zs

    def mechanism(self, case, o, in_list=False):
        """why a sampled count can differ from Z - P (c13_exact.mechanism) on the contour the implementation used;
        a loop analysed as one entry of a list: the documented range ends where the COMMON grid of the call ends
        (harness replica from the poles / zeros of all systems; both neighbours when `rint` is next to a tie)"""
        dt = None
        if case["disc"]:
            dt = 1.0 if case["T"] == "true" else float(F(case["T"]))
        ends = None
        if in_list and "lohi" in o:
            ends = [10.0 ** o["lohi"][1]]
            if rint_marginal(o["logs"]):
                x = float(np.max(o["logs"])) + 2
                top = float(np.max(o["interesting"])) if len(o["interesting"]) else -math.inf
                ends = [10.0 ** max(c, top) for c in (math.floor(x), math.ceil(x))]
        return X.mechanism(self.cl_numeric(case), self.ol_numeric(case), o["contour"], case["disc"], dt,
                           self.loop_features(case), range_ends=ends)

    @staticmethod
    def native_poles(rt, case):
        """true pole(s) of one root spec in the plane the system lives in, with the boundary distance"""
        z = native_root(rt, case)
        a = float(F(z[1]))
        ps = [complex(a, 0.0)] if z[0] == "r" else [complex(a, float(F(z[2]))), complex(a, -float(F(z[2])))]
        return [(q, abs(abs(q) - 1.0) if case["disc"] else abs(q.real)) for q in ps]

    @classmethod
    def well_conditioned(cls, case, roots, comp):
        comp = list(np.asarray(comp, dtype=complex))
        if len(comp) != deg(roots):
            return False
        for rt in roots:
            for (q, d) in cls.native_poles(rt, case):
                if not comp:
                    return False
                j = int(np.argmin([abs(c - q) for c in comp]))
                if d > 0 and abs(comp[j] - q) > 0.1 * d:
                    return False
                comp.pop(j)
        return True

    @classmethod
    def boundary_dist(cls, rt, case):
        """distance of the true pole from the stability boundary in the s-plane the code works in
        (continuous: real part; discrete: log|z| / dt)"""
        return cls.splane_of(rt, case).real

    def impl(self, case):
        if case["kind"] == "unwrap":
            try:
                a = np.array([float(F(x)) for x in case["a"]], dtype=float)
                out = ct.unwrap(a.copy(), float(F(case["period"])))
                return {"out": [tok(fr(x)) for x in np.asarray(out)]}
            except Exception as e:  # noqa
                return {"err": "%s: %s" % (type(e).__name__, str(e)[:120])}
        if is_list(case):
            obs = self.obs(case)
            return {"members": [self.impl_loop(m, o) for m, o in zip(case["members"], obs["members"])],
                    "ncrit": obs["ncrit"], "repeat": obs["repeat"]}
        return self.impl_loop(case, self.obs(case))

    def impl_loop(self, case, o):
        _, _, P, Z = build(case)
        res = {"P": P, "Z": Z}
        if "exc" in o:
            res["err"] = o["exc"]
            res["in_claim"], res["why"] = self.in_claim(case, o if "sclpoles" in o else {})
            return res
        res["count"] = o["count"]
        res["npoints"] = int(len(o["contour"]))
        res["warn_criterion"] = o["warn_criterion"]
        inc, why = self.in_claim(case, o)
        res["in_claim"] = inc
        res["why"] = why
        if "aux_exc" in o:
            res["aux"] = o["aux_exc"]
        return res

    def parse_model(self, case, out):
        if case["kind"] == "unwrap":
            t = out.split()
            return {"out": [tok(F(x)) for x in t[2:]]} if t[0] == "ok" else {"err": out}
        if is_list(case):
            ms = case["members"]
            return {"members": [self.parse_loop(m, out[6 * i:6 * i + 6], canon(case) + "#%d" % i)
                                for i, m in enumerate(ms)]}
        return self.parse_loop(case, out, canon(case))

    def parse_loop(self, case, out, key):
        a, b, c, d, e, f = out
        m = {}
        t = f.split()
        if t[0] == "err":
            m["tb_err"] = t[1]
        elif t[0] == "ok" and len(t) == 9:
            m["tb"] = {"dt": t[1], "branch": t[2], "nyq": t[3], "splane": t[4] == "1",
                       "pred": [x == "1" for x in t[5:9]]}
        t = d.split()
        if t[0] == "ok" and len(t) == 3:
            m["grid"] = [tok(F(t[1])), tok(F(t[2]))]
        t = e.split()
        if t[0] == "err":
            m["omega_err"] = t[1]
        elif t[0] == "ok" and len(t) >= 2 and len(t) == 2 + int(t[1]) and int(t[1]) > 0:
            # kept outside the model dict (the runner stores sample models in the evidence)
            if len(self._momega) > 20000:
                self._momega.clear()
            self._momega[key] = np.array([float(F(x)) for x in t[2:]])
            m["omega_n"] = int(t[1])
        t = a.split()
        if t[0] == "ok" and len(t) == 4:
            m["count"] = int(t[1])
            m["enc"] = t[2]
            m["margin"] = t[3]
        t = b.split()
        if t[0] == "err":
            m["contour_err"] = t[1]
        elif t[0] == "ok" and b.startswith("ok ") and (" U" in b or " R " in b or " L " in b):
            n = int(t[1])
            pts, i = [], 2
            for _ in range(n):
                w = t[i]
                if t[i + 1] == "U":
                    pts.append((w, "U"))
                    i += 2
                else:
                    pts.append((w, t[i + 1], t[i + 2], t[i + 3]))
                    i += 4
            m["_pts"] = pts
            m["moved"] = sum(1 for p in pts if p[1] != "U")
        t = c.split()
        if t[0] == "ok" and len(t) == 4 and "/" not in c:
            m["P"], m["Z"], m["crit"] = int(t[1]), int(t[2]), t[3] == "1"
        return m

    # ---- comparison -------------------------------------------------------
    def features(self, case, kind, extra=None):
        f = {"kind": kind, "timebase": "disc" if case["disc"] else "cont", "rep": case["rep"],
             "form": "zpk" if fwd(case) else "poles", "lightly_damped": self.lightly_damped(case),
             "dt": self.dt_label(case), "route": route_of(case)}
        if extra:
            f.update(extra)
        return f

    @staticmethod
    def dt_label(case):
        return {"N": "None", "C": "0", "T": "True"}.get(base_dt_tok(case), "number")

    @staticmethod
    def splane_of(rt, case):
        """the true pole in the s-plane the code works in (continuous: itself; discrete: log(z)/dt)"""
        if not case["disc"]:
            return complex(float(F(rt[1])), float(F(rt[2])) if rt[0] == "c" else 0.0)
        z = native_root(rt, case)
        zc = complex(float(F(z[1])), float(F(z[2])) if z[0] == "c" else 0.0)
        dt = 1.0 if case["T"] == "true" else float(F(case["T"]))
        if zc == 0:
            return complex(-math.inf, 0.0)
        return complex(math.log(abs(zc)), math.atan2(zc.imag, zc.real)) / dt

    @classmethod
    def lightly_damped(cls, case):
        """some open- or closed-loop complex pole p (off the boundary) with |Re p| <= |Im p| / 100 in the
        s-plane the code works in: a resonance (or anti-resonance of 1+L) whose width 2|Re p| is at most about
        the spacing of the default 1000-point logarithmic grid (1.4 % of the frequency over six decades)"""
        for r in case["ol"] + ([] if fwd(case) else case["cl"]):
            if r[0] == "c" and F(r[1]) != 0:
                s = cls.splane_of(r, case)
                if abs(s.real) * 100 <= abs(s.imag):
                    return True
        if fwd(case):
            dt = 1.0 if case["T"] == "true" else float(F(case["T"])) if case["disc"] else None
            for q in cls.cl_numeric(case):
                if q.imag != 0 and q != 0:
                    s = complex(math.log(abs(q)), math.atan2(q.imag, q.real)) / dt if case["disc"] else q
                    if abs(s.real) * 100 <= abs(s.imag):
                        return True
        return False

    def compare(self, case, impl, model):
        if case["kind"] == "unwrap":
            if impl == model:
                return Verdict(AGREE)
            return Verdict(DIFFERS, "ctrlutil.unwrap %s vs model %s" % (impl, model),
                           {"kind": "unwrap-unit", "period": case["period"]})
        if is_list(case):
            return self.compare_list(case, impl, model)
        return self.compare_loop(case, impl, model, self.obs(case), canon(case))

    def compare_list(self, case, impl, model):
        """every loop of the list is compared like a loop analysed on its own (its count against Z - P; the model's
        contour - from the COMMON documented grid, cut at the loop's own Nyquist frequency - against its contour);
        a violation by a loop whose contour is not the model's is reported first (a known finding needs the model's
        contour); list level: number of criterion warnings, the same call made twice"""
        obs = self.obs(case)
        ms = case["members"]
        lf = {"list": True, "container": case.get("cont", "list")}
        if any("err" in r for r in impl["members"]):
            r0 = next(r for r in impl["members"] if "err" in r)
            if all(r.get("in_claim") for r in impl["members"]):
                f = self.features(ms[0], "raises", {"exc": r0["err"].split(":")[0]})
                f.update(lf)
                return Verdict(VIOLATES, "nyquist_response raises %s on a list of loops inside the claim" % r0["err"], f)
            return Verdict(AGREE)
        vs = []
        for i, m in enumerate(ms):
            v = self.compare_loop(m, impl["members"][i], model["members"][i], obs["members"][i],
                                  canon(case) + "#%d" % i, in_list=True)
            if v.status != AGREE:
                pre = ms[:i]
                f = dict(v.features or {})
                f.update(lf)
                f["after_discrete"] = any(q["disc"] for q in pre)
                vs.append(Verdict(v.status, "loop %d of %d in one call: %s" % (i, len(ms), v.detail), f))
        viol = [v for v in vs if v.status == VIOLATES]
        if viol:
            viol.sort(key=lambda v: bool(v.features.get("contour_model_agrees")))
            return viol[0]
        if impl.get("repeat"):
            return Verdict(DIFFERS, "the same call made twice: " + impl["repeat"], dict(lf, kind="repeat-call"))
        # (c) at list level: one 'does not match Nyquist criterion' warning per loop the model predicts one for
        exp = [self.crit_expected(m, o, mm) for m, o, mm in zip(ms, obs["members"], model["members"])]
        if impl.get("ncrit") is not None and all(e is not None for e in exp) and sum(exp) != impl["ncrit"]:
            return Verdict(DIFFERS, "%d criterion warnings, model predicts %d (per loop: %s)" % (
                impl["ncrit"], sum(exp), exp), dict(lf, kind="criterion-warning"))
        if vs:
            return vs[0]
        return Verdict(AGREE)

    @staticmethod
    def crit_expected(case, o, model):
        """does the model predict the criterion warning for this loop (None: not decidable: a pole on the circle)"""
        if "crit" not in model or "zpoles" not in o:
            return None
        if case["disc"] and any(abs(abs(p) - 1) < 1e-12 for p in list(o["zpoles"]) + list(o["zclpoles"])):
            return None
        return not model["crit"]

    def compare_loop(self, case, impl, model, o, key, in_list=False):
        if "err" in impl:
            if impl.get("in_claim", self.in_claim(case, {})[0]):
                return Verdict(VIOLATES, "nyquist_response raises %s on a loop inside the claim" % impl["err"],
                               self.features(case, "raises", {"exc": impl["err"].split(":")[0]}))
            return Verdict(AGREE)
        target = impl["Z"] - impl["P"]
        prop_fails = impl["in_claim"] and impl["count"] != target
        # (a) the count as computed by the proven model from the implementation's own samples
        a_diff = None
        if "count" in model:
            enc = F(model["enc"])
            frac = abs(enc - round(enc))
            marginal = (model["margin"] != "none" and F(model["margin"]) < F(1, 10 ** 9)) or \
                frac > F(1, 2) - F(1, 10 ** 6)
            if not marginal and model["count"] != impl["count"]:
                a_diff = "count %d, model count on the same samples %d (encirclements %.6f)" % (
                    impl["count"], model["count"], float(enc))
        # (b) contour
        b_diff = self.compare_contour(case, o, model)
        # (c) P/Z conventions and warning
        c_diff = None
        if "crit" in model and impl["warn_criterion"] is not None:
            edge = (case["disc"] and any(abs(abs(p) - 1) < 1e-12 for p in
                                         list(o["zpoles"]) + list(o["zclpoles"])))
            if not edge and model["crit"] == impl["warn_criterion"]:
                c_diff = "criterion warning %s but model Z=%d P=%d count=%d" % (
                    impl["warn_criterion"], model["Z"], model["P"], impl["count"])
        # (d) the range of the default grid, (e) start at 0 / stop at the Nyquist frequency
        d_diff = self.compare_grid(o, model)
        e_diff = self.compare_omega(key, o, model)
        f_diff = self.compare_tb(case, o, model)
        if prop_fails:
            mech = self.mechanism(case, o, in_list)
            # known findings are about the adequacy of the DOCUMENTED default contour: they can only match when the
            # contour the implementation used is the model's contour (documented grid, inserted points, indentation)
            extra = {"model_count_agrees": a_diff is None,
                     "contour_model_agrees": "_pts" in model and b_diff is None and d_diff is None and
                     e_diff is None and f_diff is None}
            extra.update({k: mech[k] for k in ("sampling", "aliased_at", "spec_range")})
            return Verdict(VIOLATES, "count %d but Z - P = %d - %d (exact %s)%s; contour: %s" % (
                impl["count"], impl["Z"], impl["P"], "Routh count" if fwd(case) else "construction",
                "; " + a_diff if a_diff else "", mech),
                self.features(case, "count-vs-ZP", extra))
        for kind, d in (("count-model", a_diff), ("timebase", f_diff), ("grid-range", d_diff), ("omega", e_diff),
                        ("contour", b_diff), ("criterion-warning", c_diff)):
            if d:
                return Verdict(DIFFERS, d, self.features(case, kind))
        return Verdict(AGREE)

    @staticmethod
    def compare_tb(case, o, model):
        """(f): the model's timebase decisions against (1) the system the implementation built (its `dt`, isctime /
        isdtime with and without `strict`), (2) the branch the harness selected the features, the Nyquist cut and
        the s-plane mapping by (from the case)"""
        if "tb_err" in model:
            return "model: the factors %s have no common timebase (%s); the implementation built dt=%r" % (
                tb_parts(case), model["tb_err"], o.get("dt"))
        if "tb" not in model:
            return None
        m = model["tb"]
        want = base_dt_tok(case)
        if m["dt"] != want:
            return "timebase of the loop: model %s, declared %s" % (m["dt"], want)
        got = impl_dt_tok(o.get("dt"))
        if got != m["dt"]:
            return "timebase of the system built by route %s: dt=%r (%s), model %s" % (
                route_of(case), o.get("dt"), got, m["dt"])
        if o.get("pred") != m["pred"]:
            return "isctime(), isctime(strict), isdtime(), isdtime(strict) of a system with dt=%r: %r, model %r" % (
                o.get("dt"), o.get("pred"), m["pred"])
        if m["branch"] != ("D" if case["disc"] else "C") or m["splane"] != (not case["disc"]):
            return "feature branch / s-plane mapping: model %s/%s, harness %s" % (
                m["branch"], m["splane"], "discrete" if case["disc"] else "continuous")
        if case["disc"]:
            if m["nyq"] == "N" or abs(float(F(m["nyq"])) - math.pi / disc_dt(case)) > 1e-14 * math.pi / disc_dt(case):
                return "Nyquist frequency: model %s, pi/dt = %r" % (m["nyq"], math.pi / disc_dt(case))
        elif m["nyq"] != "N":
            return "Nyquist frequency: model %s for a loop treated as continuous" % m["nyq"]
        return None

    @staticmethod
    def compare_grid(o, model):
        """the model's exponents (exact arithmetic on the log10 values) against the harness replica that the contour
        comparison is fed with, and against the grid the implementation's own helper returns"""
        if "grid" not in model or "lohi" not in o or rint_marginal(o["logs"]):
            return None
        lo, hi = (F(x) for x in model["grid"])
        if (fr(o["lohi"][0]), fr(o["lohi"][1])) != (lo, hi):
            return "default grid exponents: model (%s, %s), binary64 replica of lines 2821-2829 %r" % (
                model["grid"][0], model["grid"][1], o["lohi"])
        if "raw_impl" in o:
            got, want = o["raw_impl"], o["raw"]
            if len(got) != len(want) or not np.allclose(got, want, rtol=1e-12, atol=0.0):
                return ("default grid of the implementation: %d points from %.6g to %.6g rad/s; documented "
                        "(feature_periphery_decades=2): %d points from 10^%s = %.6g to 10^%s = %.6g") % (
                    len(got), got[0] if len(got) else math.nan, got[-1] if len(got) else math.nan,
                    len(want), model["grid"][0], want[0], model["grid"][1], want[-1])
        return None

    def compare_omega(self, key, o, model):
        if "omega_err" in model:
            return "model defaultOmega raises %s" % model["omega_err"]
        mo = self._momega.get(key)
        if "omega_n" not in model or mo is None or "omega" not in o:
            return None
        if len(mo) != len(o["omega"]):
            return "omega_sys: model %d points, replica of lines 1344-1369 %d" % (len(mo), len(o["omega"]))
        for i, (a, b) in enumerate(zip(mo, o["omega"])):
            if abs(a - b) > 1e-12 * max(1.0, abs(b)):
                return "omega_sys[%d]: model %r, replica %r" % (i, a, b)
        return None

    def compare_contour(self, case, o, model):
        if "contour_err" in model:
            return "model contour construction raises %s, implementation returns" % model["contour_err"]
        if "_pts" not in model:
            return None
        pts = model["_pts"]
        con = o["contour"]
        if len(pts) != len(con):
            return "contour has %d points, model %d" % (len(con), len(pts))
        dt = None
        if case["disc"]:
            dt = o["sys"].dt
            dt = 1.0 if dt is True else float(dt)
        sp = o["spoles"]
        r = float(o["r"])
        for i, (pt, z) in enumerate(zip(pts, con)):
            w = float(F(pt[0]))
            if pt[1] == "U":
                x = 0.0
            else:
                q, dx = float(F(pt[2])), float(F(pt[3]))
                off = math.sqrt(max(q, 0.0)) - dx
                x = off if pt[1] == "R" else -off
            # sensitivity of sqrt(r^2 - dy^2) to the rounding of dy near |dy| = r
            scale = max(1.0, abs(w))
            tol_re = 1e-9 + 4 * math.sqrt(2 * r * 8e-15 * scale)
            # nearest-pole ties between poles on different sides: the argmin is decided by rounding
            if len(sp) > 1:
                d = np.sort(np.abs(sp - 1j * w))
                tie = d[0] < 2 * r and d[1] - d[0] <= 1e-9 * max(d[1], 1e-300) + 1e-14
            else:
                tie = False
            if dt is None:
                ok = abs(z.imag - w) <= 1e-9 * scale and (tie or abs(z.real - x) <= tol_re)
                if tie and not (abs(abs(z.real) - abs(x)) <= 10 * tol_re + 3e-8):
                    ok = False
            else:
                zz = np.exp(complex(x, w) * dt)
                ok = abs(z - zz) <= (1e-9 + tol_re * dt) * max(1.0, abs(zz)) or \
                    (tie and abs(z - np.exp(complex(-x, w) * dt)) <= (1e-7) * max(1.0, abs(zz)))
            if not ok:
                return "contour point %d: implementation %r, model s-plane point %r (%s)" % (
                    i, complex(z), complex(x, w), pt[1])
        return None

    def nontrivial(self, case, model):
        if case["kind"] == "unwrap":
            return len(case["a"]) >= 2 and model.get("out") != case["a"]
        if is_list(case):
            return len(case["members"]) >= 2 and any(
                self.nontrivial(m, mm) for m, mm in zip(case["members"], model["members"]))
        _, _, P, Z = build(case)
        return deg(case["ol"]) >= 1 and (P != 0 or Z != 0 or model.get("moved", 0) > 0)

    @staticmethod
    def list_pattern(case):
        """timebases of the loops in the order of the list: c (dt = 0), n (dt = None), d (discrete)"""
        return "".join("d" if m["disc"] else "n" if tb_none(m) else "c" for m in case["members"])

    @staticmethod
    def slow_first(case):
        """some discrete-time loop stands before a loop that needs frequencies above its Nyquist frequency (a
        continuous-time loop or a faster-sampled one)"""
        ms = case["members"]
        for i, a in enumerate(ms):
            if a["disc"]:
                for b in ms[i + 1:]:
                    if not b["disc"] or disc_dt(b) < disc_dt(a):
                        return True
        return False

    def stats_list(self, case, impl, model):
        ms = case["members"]
        st = {"kind": "list", "list_len": len(ms), "list_timebases": self.list_pattern(case),
              "list_discrete_before_faster_loop": self.slow_first(case),
              "list_container": case.get("cont", "list"), "list_same_object_twice": bool(case.get("share")),
              "list_called_twice": bool(case.get("twice")), "configured_periphery": case.get("cfg", "default")}
        rs = impl["members"]
        if any("err" in r for r in rs):
            st["outcome"] = "raises/%s" % ("in-claim" if all(r.get("in_claim") for r in rs) else "some-loop-outside")
            return st
        inc = [r for r in rs if r["in_claim"]]
        st["list_loops_in_claim"] = "%d/%d" % (len(inc), len(rs))
        st["list:count==Z-P(all in-claim loops)"] = all(r["count"] == r["Z"] - r["P"] for r in inc)
        obs = self.obs(case)
        for i, (m, r, mm, o) in enumerate(zip(ms, rs, model["members"], obs["members"])):
            if r["in_claim"]:
                pos = "after-discrete" if any(q["disc"] for q in ms[:i]) else "first-or-after-continuous"
                st_key = "list-loop dt=%s %s:count==Z-P" % (self.dt_label(m), pos)
                st[st_key] = st.get(st_key, True) and r["count"] == r["Z"] - r["P"]
        st["list_grid_checked"] = all("grid" in mm and "omega_n" in mm and "_pts" in mm for mm in model["members"])
        st["list_criterion_warnings"] = impl.get("ncrit")
        return st

    def stats(self, case, impl, model):
        if case["kind"] == "unwrap":
            return {"kind": "unwrap", "unwrap_len": len(case["a"]), "unwrap_changed": model.get("out") != case["a"]}
        if is_list(case):
            return self.stats_list(case, impl, model)
        st = {"kind": case["kind"], "timebase": "disc" if case["disc"] else "cont", "rep": case["rep"],
              "order": deg(case["ol"]), "dir": case["dir"],
              "biproper": (deg(case["zr"]) == deg(case["ol"])) if fwd(case) else case["k"] != "1",
              "form": "zpk" if fwd(case) else "poles", "configured_periphery": case.get("cfg", "default"),
              "dt": self.dt_label(case), "route": route_of(case), "scale": case.get("scale", "1"),
              "timebase_checked": "tb" in model}
        if fwd(case):
            g = abs(F(case["k"]))
            st["gain"] = "<1" if g < 1 else "1..30" if g <= 30 else "30..1000" if g <= 1000 else ">1000"
            st["relative_degree"] = deg(case["ol"]) - deg(case["zr"])
        if "err" in impl:
            st["outcome"] = "raises/%s" % impl.get("why", "?")
            return st
        st["claim"] = impl["why"]
        st["Z-P"] = impl["Z"] - impl["P"]
        st["count==Z-P"] = "%s/%s" % (impl["count"] == impl["Z"] - impl["P"],
                                      "in" if impl["in_claim"] else "out")
        st["moved_points"] = min(model.get("moved", -1), 1) if "_pts" in model else "n/a"
        st["count_checked"] = "count" in model
        o = self.obs(case)
        gc = [n for n, ok in (("exponents", "grid" in model and "lohi" in o and not rint_marginal(o["logs"])),
                              ("helper-grid", "raw_impl" in o), ("omega", "omega_n" in model)) if ok]
        st["grid_checked"] = "+".join(gc) if gc else "none"
        st["warned"] = impl["warn_criterion"]
        if impl["in_claim"]:
            st["dt=%s,scale=%s:count==Z-P" % (self.dt_label(case), case.get("scale", "1"))] = \
                impl["count"] == impl["Z"] - impl["P"]
        hyp = hypotheses_label(self.arg_case(case), o)   # C13Arg.count_continuous: H2 + tail on the real contour
        st["argprinciple_hyp"] = hyp
        # mechanism statistics (all cases): is the contour sampled without aliasing / does the documented range close it
        try:
            mech = self.mechanism(case, o)
        except Exception:  # noqa
            mech = {"sampling": "n/a", "aliased_at": "none", "spec_range": "n/a"}
        lab = "sampling=%s,spec_range=%s" % (mech["sampling"] if mech["sampling"] != "aliased" else
                                             "aliased@" + mech["aliased_at"], mech["spec_range"])
        st["contour"] = lab
        if impl["in_claim"]:
            st["contour:%s:count==Z-P" % lab] = impl["count"] == impl["Z"] - impl["P"]
        if hyp == "hold":
            st["argprinciple_hyp=hold:count==Z-P"] = impl["count"] == impl["Z"] - impl["P"]
        return st

    @staticmethod
    def arg_case(case):
        """the case in the form c13_arg expects (root lists `ol`, `cl`, leading coefficient `k` of 1 + L); for a
        forward-built loop the closed-loop roots are numpy.roots of the exact polynomial (statistics only)"""
        if not fwd(case) or case["disc"]:
            return case if not fwd(case) else dict(case, cl=[])
        cl = []
        for q in C13.cl_numeric(case):
            if q.imag == 0:
                cl.append(["r", tok(fr(q.real))])
            elif q.imag > 0:
                cl.append(["c", tok(fr(q.real)), tok(fr(q.imag))])
        num, den, _, _ = build(case)
        lead = X.padd(den, num)[0]
        return dict(case, cl=cl, k=tok(lead))

    def shrink(self, case):
        if case["kind"] == "unwrap":
            for i in range(len(case["a"])):
                yield dict(case, a=case["a"][:i] + case["a"][i + 1:])
            return
        if is_list(case):
            ms = case["members"]
            for k in ("twice", "share", "cont", "cfg"):
                if k in case:
                    yield {a: b for a, b in case.items() if a != k}
            if len(ms) > 1:
                for i in range(len(ms)):
                    yield dict(case, members=ms[:i] + ms[i + 1:])
            for i, m in enumerate(ms):
                n = 0
                for sm in self.shrink(m):
                    if valid(sm):
                        yield dict(case, members=ms[:i] + [sm] + ms[i + 1:])
                        n += 1
                        if n >= 6:
                            break
            return
        if "route" in case:
            new = {k: v for k, v in case.items() if k != "route"}
            if valid(new):
                yield new
        if "tb" in case:
            new = {k: v for k, v in case.items() if k not in ("tb", "route")}
            if valid(new):
                yield new
        if "scale" in case and not case["disc"]:
            new = scale_case(case, 1 / F(case["scale"]))
            if valid(new):
                yield new
        if fwd(case):
            ol, zr = case["ol"], case["zr"]
            for i in range(len(ol)):
                new = dict(case, ol=ol[:i] + ol[i + 1:])
                if valid(new):
                    yield new
                for j in range(len(zr)):
                    new = dict(case, ol=ol[:i] + ol[i + 1:], zr=zr[:j] + zr[j + 1:])
                    if valid(new):
                        yield new
            for j in range(len(zr)):
                new = dict(case, zr=zr[:j] + zr[j + 1:])
                if valid(new):
                    yield new
            if case["disc"] and case["T"] != "1":
                yield dict(case, T="1")
            if "cfg" in case:
                yield {k: v for k, v in case.items() if k != "cfg"}
            return
        # drop one open-loop root together with closed-loop roots of the same total degree
        ol, cl = case["ol"], case["cl"]
        for i, r in enumerate(ol):
            m = mult(r)
            for j, c in enumerate(cl):
                if mult(c) == m:
                    new = dict(case, ol=ol[:i] + ol[i + 1:], cl=cl[:j] + cl[j + 1:])
                    if valid(new):
                        yield new
                    break
        if case["rep"] == "ss":
            yield dict(case, rep="tf")
        if case["k"] != "1":
            yield dict(case, k="1")
        if case["disc"]:
            new = dict(case, disc=False, T="0")
            if valid(new):
                yield new

    KINDS = ("generic", "axis", "near", "light", "lightcl", "left", "scaled") + FWD_KINDS

    def search(self, rng, case, tier):
        out = []
        if case["kind"] == "unwrap":
            return [self.gen_unwrap(rng) for _ in range(200)]
        if is_list(case):
            while len(out) < 80:
                c = self.gen_list(rng)
                if valid(c):
                    out.append(c)
            return out
        for _ in range(200):
            c = self.gen_one(rng, case.get("kind") if case.get("kind") in self.KINDS else "generic")
            if valid(c):
                out.append(c)
        return out


FAMILY = C13
