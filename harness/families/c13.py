"""C13 — Nyquist encirclement count: correspondence between `control.nyquist_response`
(`control/freqplot.py` 1375-1546, `control/ctrlutil.py: unwrap`) and the Lean model
`CtrlVerif.Model.Nyquist` (driver family `nyq`).

A case is a loop built *backwards* from exact data: open-loop poles `ol`, closed-loop poles `cl`
(rationals / Gaussian rationals, given in the s-plane; a discrete-time case maps them through the
bilinear transformation with step `T`, exactly), a gain `k`:
    den = prod (s - p_i),   num = k * prod (s - c_i) - den      =>  den + num = k * prod (s - c_i)
so the numbers `P` (open-loop unstable poles) and `Z` (closed-loop unstable poles) are known
without any root finding.

Per case three driver lines:
 (a) `count`   – the model's unwrap/count applied to the implementation's own samples
                 `response.response` (exact rationals of the floats) and `np.angle(resp+1)` (external,
                 quadrant contract checked by the driver) vs `response.count`;
 (b) `contour` – the model's contour construction (extra points near poles, nearest pole,
                 indentation side and offset) on the implementation's own poles and default
                 frequency vector vs `response.contour` (sqrt / exp applied here: external);
 (c) `pz`      – the model's P/Z conventions on the implementation's own poles vs the presence of
                 the "does not match Nyquist criterion" warning;
and, outside the driver, the property itself: `response.count == Z - P` whenever the loop is inside
the quantifier of the property (see `in_claim`)."""
import math
import warnings
from fractions import Fraction

import numpy as np
import control as ct
from control import freqplot as _fp

from core.runner import Family, Verdict, AGREE, VIOLATES, DIFFERS, canon
from core.exact import fr, tok
from families.c13_arg import hypotheses_label   # C13-argprinciple: hypotheses of C13Arg.count_continuous

F = Fraction
PI_TOK = tok(fr(math.pi))
EPS_TOK = "1/1000000000"
GUARD_RADII = 5            # "a few indentation radii"


# ----------------------------------------------------------------------------
# exact construction
# ----------------------------------------------------------------------------
def pmul(p, q):
    out = [F(0)] * (len(p) + len(q) - 1)
    for i, a in enumerate(p):
        for j, b in enumerate(q):
            out[i + j] += a * b
    return out


def from_roots(rs):
    """rs: ['r', a] real root, ['c', a, b] pair a +- jb (b > 0)."""
    p = [F(1)]
    for r in rs:
        if r[0] == "r":
            p = pmul(p, [F(1), -F(r[1])])
        else:
            a, b = F(r[1]), F(r[2])
            p = pmul(p, [F(1), -2 * a, a * a + b * b])
    return p


def deg(rs):
    return sum(1 if r[0] == "r" else 2 for r in rs)


def mult(r):
    return 1 if r[0] == "r" else 2


def bilinear(r, T):
    """image of an s-plane root under z = (1 + sT/2) / (1 - sT/2)"""
    T = F(T)
    if r[0] == "r":
        s = F(r[1])
        return ["r", (1 + s * T / 2) / (1 - s * T / 2)]
    a, b = F(r[1]), F(r[2])
    nr, ni = 1 + a * T / 2, b * T / 2
    dr, di = 1 - a * T / 2, -b * T / 2
    dd = dr * dr + di * di
    re, im = (nr * dr + ni * di) / dd, (ni * dr - nr * di) / dd
    if im < 0:
        im = -im
    if im == 0:
        return ["r", re]
    return ["c", re, im]


def build(case):
    """-> (num, den) lists of Fraction (highest power first), P, Z (exact)"""
    ol, cl, k = case["ol"], case["cl"], F(case["k"])
    P = sum(mult(r) for r in ol if F(r[1]) > 0)
    Z = sum(mult(r) for r in cl if F(r[1]) > 0)
    if case["disc"]:
        ol = [bilinear(r, case_T(case)) for r in ol]
        cl = [bilinear(r, case_T(case)) for r in cl]
    den = from_roots(ol)
    clp = [k * x for x in from_roots(cl)]
    num = [a - b for a, b in zip(clp, den)]
    return num, den, P, Z


def make_system(case):
    num, den, P, Z = build(case)
    numf, denf = [float(x) for x in num], [float(x) for x in den]
    if case["disc"]:
        dt = True if case["T"] == "true" else float(F(case["T"]))
        sys = ct.tf(numf, denf, dt)
    else:
        sys = ct.tf(numf, denf)
    if case["rep"] == "ss":
        sys = ct.tf2ss(sys)
    return sys


def valid(case):
    try:
        if case["disc"]:
            T = case_T(case)
            for r in case["ol"] + case["cl"]:
                if r[0] == "r" and F(r[1]) * T == 2:
                    return False
        if deg(case["ol"]) != deg(case["cl"]) or deg(case["ol"]) == 0:
            return False
        if any(F(r[1]) == 0 for r in case["cl"]):
            return False
        num, den, _, _ = build(case)
        return any(x != 0 for x in num) and F(case["k"]) != 0
    except ZeroDivisionError:
        return False


def case_T(case):
    return F(1) if case["T"] == "true" else F(case["T"])


# ----------------------------------------------------------------------------
# running the implementation
# ----------------------------------------------------------------------------
def cpair(z):
    z = complex(z)
    return fr(z.real), fr(z.imag)


def splane_poles(sys, which):
    """the poles exactly as nyquist_response derives them (lines 1381-1396)"""
    s = sys if which == "ol" else sys.feedback()
    p = s.poles()
    if sys.isctime():
        return p, p
    z = p[~np.isclose(abs(p), 0.)]
    with np.errstate(all="ignore"):
        return p, np.log(z) / sys.dt


def default_omega(sys, indent_points):
    """omega_sys before any insertion (lines 1334-1369), default arguments"""
    num = ct.config._get_param("freqplot", "number_of_samples", None)
    omega, given = _fp._determine_omega_vector([sys], None, None, num, feature_periphery_decades=2)
    assert not given
    omega = np.concatenate((np.linspace(0, omega[0], indent_points), omega[1:]))
    if sys.isdtime(strict=True):
        nyq = math.pi / sys.dt
        omega = np.hstack((omega[omega < nyq], nyq))
    return omega


def run_case(case):
    """everything observed on the real code for one case (not JSON: holds arrays)"""
    out = {}
    sys = make_system(case)
    out["sys"] = sys
    kw = {}
    if case["dir"] != "right":
        kw["indent_direction"] = case["dir"]
    with warnings.catch_warnings(record=True) as wl:
        warnings.simplefilter("always")
        try:
            resp = ct.nyquist_response(sys, **kw)
        except Exception as e:  # noqa
            out["exc"] = "%s: %s" % (type(e).__name__, str(e)[:120])
            return out
    msgs = [str(w.message) for w in wl]
    out["warn_criterion"] = any("does not match Nyquist criterion" in m for m in msgs)
    out["warn_noninteger"] = any("non-integer value" in m for m in msgs)
    out["count"] = int(resp.count)
    out["contour"] = np.asarray(resp.contour)
    out["resp"] = np.asarray(resp.response)
    r = ct.config._get_param("nyquist", "indent_radius", None, _fp._nyquist_defaults)
    n = ct.config._get_param("nyquist", "indent_points", None, _fp._nyquist_defaults)
    out["r"], out["npts"] = r, n
    try:
        out["zpoles"], out["spoles"] = splane_poles(sys, "ol")
        out["zclpoles"], out["sclpoles"] = splane_poles(sys, "cl")
        out["omega"] = default_omega(sys, n)
    except Exception as e:  # noqa  (private helpers moved: the contour sub-check is skipped)
        out["aux_exc"] = "%s: %s" % (type(e).__name__, str(e)[:120])
    return out


def finite(a):
    return bool(np.all(np.isfinite(a)))


# ----------------------------------------------------------------------------
class C13(Family):
    prop = "C13"
    extra_modules = ["CtrlVerif.Props.C13Arg"]   # argument principle on the imaginary axis (H1, H3 discharged)
    externals = ["numpy.angle (quadrant contract checked per sample)", "numpy.sqrt", "numpy.log / numpy.exp "
                 "(discrete-time contour mapping)", "poles() of the loop and of the closed loop "
                 "(numpy.roots / eigvals)", "evaluation of the loop on the contour (C04)",
                 "_default_frequency_range (the grid itself is an input of the model)"]
    assumptions = ["argument principle (H3 of count_partial): PROVED for continuous-time loops without poles on "
                   "the imaginary axis and an unindented contour (C13Arg.count_continuous); still a hypothesis for "
                   "the indented contour (poles on / within indent_radius of the axis) and for discrete time",
                   "adequacy of the default frequency grid for C13Arg.count_continuous: phase steps of Phi < pi (H2) "
                   "and tail bound at the last grid point; evaluated per case on the implementation's contour "
                   "(histogram argprinciple_hyp), not proved",
                   "sampling hypothesis: consecutive samples of 1+L turn by less than pi "
                   "(hypothesis of discrete_winding; validated, not proved, by count == Z-P)",
                   "IEEE arithmetic not modelled: the integer count is compared exactly, guarded by the "
                   "model's branch margin; contour points within tolerance 1e-9 (+ sqrt sensitivity)"]
    rule = ("loops built backwards from exact open-loop poles (0-2 integrators, imaginary-axis, near-axis and "
            "lightly damped poles, orders 1-7) and closed-loop poles, gain k (biproper when k != 1, either sign), "
            "TF and SS, continuous and discrete (bilinear image, several sampling times, dt=True), "
            "indent_direction right/left; non-trivial = dynamic loop with Z != 0 or P != 0 or an indentation")

    def __init__(self):
        self._cache = {}

    # ---- generation -------------------------------------------------------
    MAG = ["1/4", "1/2", "1", "3/2", "2", "3", "5", "7/10", "13/10"]

    def root(self, rng, stable=None):
        sgn = {None: rng.choice([-1, 1]), True: -1, False: 1}[stable]
        if rng.random() < 0.5:
            return ["r", tok(sgn * F(rng.choice(self.MAG)))]
        return ["c", tok(sgn * F(rng.choice(self.MAG))), tok(F(rng.choice(self.MAG)))]

    def fill(self, rng, n, stable=None):
        out = []
        while deg(out) < n:
            r = self.root(rng, stable)
            if deg(out) + mult(r) <= n:
                out.append(r)
        return out

    def gen_one(self, rng, kind):
        disc = rng.random() < 0.45
        case = {"kind": kind, "disc": disc,
                "T": rng.choice(["1/10", "1/4", "1/2", "1", "true", "1/8"]) if disc else "0",
                "rep": rng.choice(["tf", "ss"]), "dir": "right",
                "k": rng.choice(["1", "1", "1", "1", "2", "1/2", "-1", "-2", "3"])}
        ol = []
        if kind == "generic":
            for _ in range(rng.choice([0, 0, 0, 1, 1, 2])):
                ol.append(["r", "0"])
            ol += self.fill(rng, rng.randint(1, 5))
        elif kind == "axis":          # purely imaginary open-loop poles (outside the claim)
            for _ in range(rng.choice([0, 1])):
                ol.append(["r", "0"])
            ol.append(["c", "0", rng.choice(self.MAG)])
            ol += self.fill(rng, rng.randint(0, 3))
        elif kind == "near":          # within the indentation radius of the axis (outside the claim)
            d = rng.choice(["1/20000", "-1/20000", "1/40000", "-1/40000", "-3/40000"])
            if rng.random() < 0.5:
                ol.append(["r", d])
            else:
                ol.append(["c", d, rng.choice(self.MAG)])
            ol += self.fill(rng, rng.randint(0, 3))
        elif kind == "light":         # lightly damped open-loop poles, >= 5 radii from the axis
            d = rng.choice([-1, 1]) * F(rng.choice(["1/2000", "1/1000", "1/500", "1/200", "1/100"]))
            ol.append(["c", tok(d), rng.choice(self.MAG)])
            ol += self.fill(rng, rng.randint(0, 2))
        elif kind == "lightcl":       # lightly damped closed-loop poles (set below)
            for _ in range(rng.choice([0, 0, 1])):
                ol.append(["r", "0"])
            ol += self.fill(rng, rng.randint(2, 4))
        elif kind == "left":
            case["dir"] = "left"
            for _ in range(rng.choice([0, 1, 2])):
                ol.append(["r", "0"])
            ol += self.fill(rng, rng.randint(1, 3))
        case["ol"] = ol
        # closed loop: mostly stable, sometimes not
        mode = rng.random()
        if kind == "lightcl":
            d = rng.choice([-1, 1]) * F(rng.choice(["1/2000", "1/1000", "1/500", "1/200", "1/100"]))
            case["cl"] = [["c", tok(d), rng.choice(self.MAG)]] + self.fill(rng, deg(ol) - 2, None)
        else:
            case["cl"] = self.fill(rng, deg(ol), True if mode < 0.4 else None)
        return case

    def gen_unwrap(self, rng):
        """unit level: ctrlutil.unwrap on small dyadic data with a dyadic period (IEEE arithmetic exact)"""
        n = rng.choice([0, 1, 2, 3, 5, 8, 13])
        return {"kind": "unwrap", "period": rng.choice(["2", "1", "4", "1/2", "2", "8"]),
                "a": [tok(F(rng.randint(-64, 64), 8)) for _ in range(n)]}

    def generate(self, rng, tier):
        n = 260 if tier == "quick" else 3000
        kinds = ["generic"] * 6 + ["axis", "near", "near", "light", "lightcl", "left"]
        out = []
        while len(out) < n:
            c = self.gen_one(rng, rng.choice(kinds))
            if valid(c):
                out.append(c)
        out += [self.gen_unwrap(rng) for _ in range(40 if tier == "quick" else 600)]
        return out

    def corpus(self):
        base = {"kind": "corpus", "disc": False, "T": "0", "rep": "tf", "dir": "right", "k": "1"}
        mk = lambda **kw: dict(base, **kw)
        return [
            # 1/(s+1)-like stable loop, an unstable closed loop, integrators
            mk(ol=[["r", "-1"]], cl=[["r", "-2"]]),
            mk(ol=[["r", "-1"], ["r", "-2"]], cl=[["c", "1/2", "3"]]),
            mk(ol=[["r", "0"], ["r", "-1"]], cl=[["c", "-1/2", "1"]]),
            mk(ol=[["r", "0"], ["r", "0"], ["r", "-1"]], cl=[["c", "1/4", "1"], ["r", "-3"]], rep="ss"),
            mk(ol=[["r", "1"]], cl=[["r", "-2"]], disc=True, T="1/10"),
            mk(ol=[["r", "0"]], cl=[["r", "-1"]], disc=True, T="1/2"),
            # lightly damped open-loop pair 10 radii from the axis: the default grid steps over the resonance
            mk(kind="light", ol=[["c", "-1/1000", "5"]], cl=[["c", "1/2", "5"]]),
        ]

    # ---- execution --------------------------------------------------------
    def obs(self, case):
        key = canon(case)
        if key not in self._cache:
            if len(self._cache) > 20000:
                self._cache.clear()
            self._cache[key] = run_case(case)
        return self._cache[key]

    def line(self, case):
        if case["kind"] == "unwrap":
            return "nyq unwrap %s %d %s" % (case["period"], len(case["a"]), " ".join(case["a"]))
        o = self.obs(case)
        lines = []
        # (a) count
        if "exc" in o or not finite(o["resp"]):
            lines.append("nyq unwrap 1 0")
        else:
            resp = o["resp"]
            ang = np.angle(resp + 1)
            parts = ["nyq count", PI_TOK, EPS_TOK, str(len(resp))]
            for z, a in zip(resp, ang):
                re, im = cpair(z)
                parts += [tok(re), tok(im), tok(fr(a))]
            lines.append(" ".join(parts))
        # (b) contour
        if "exc" in o or "aux_exc" in o or not finite(o.get("spoles", np.array([np.nan]))) \
                or case["dir"] == "none":
            lines.append("nyq unwrap 1 0")
        else:
            parts = ["nyq contour", tok(fr(o["r"])), str(o["npts"]), case["dir"], str(len(o["spoles"]))]
            for p in o["spoles"]:
                re, im = cpair(p)
                parts += [tok(re), tok(im)]
            parts.append(str(len(o["omega"])))
            parts += [tok(fr(w)) for w in o["omega"]]
            lines.append(" ".join(parts))
        # (c) P / Z conventions and the criterion warning
        if "exc" in o or "aux_exc" in o or not finite(o["zpoles"]) or not finite(o["zclpoles"]):
            lines.append("nyq unwrap 1 0")
        else:
            parts = ["nyq pz", "0" if case["disc"] else "1", case["dir"], str(o["count"]),
                     str(len(o["zpoles"]))]
            for p in o["zpoles"]:
                re, im = cpair(p)
                parts += [tok(re), tok(im)]
            parts.append(str(len(o["zclpoles"])))
            for p in o["zclpoles"]:
                re, im = cpair(p)
                parts += [tok(re), tok(im)]
            lines.append(" ".join(parts))
        return lines

    def in_claim(self, case, o):
        """(inside the quantifier?, reason).  True open-loop poles: exactly at s=0 (z=1) or >= GUARD radii
        from the boundary; the integrators must have been located *exactly* on the boundary by the
        implementation's root finder (otherwise: 'classified by rounding error', outside the claim);
        closed-loop poles >= GUARD radii from the boundary; default indentation."""
        if case["dir"] != "right":
            return False, "non-default-direction"
        r = F(1, 10000)
        nint = 0
        Tmap = case_T(case)
        for rt in case["ol"]:
            a = F(rt[1])
            if a == 0:
                if rt[0] == "c":
                    return False, "imaginary-axis-pole"
                nint += 1
            elif abs(self.boundary_dist(rt, case)) < GUARD_RADII * r:
                return False, "near-axis-pole"
        for rt in case["cl"]:
            if abs(self.boundary_dist(rt, case)) < GUARD_RADII * r:
                return False, "near-axis-closed-loop-pole"
        if "spoles" in o:
            sp = o["spoles"]
            if not finite(sp):
                return False, "boundary-rounding"
            exact0 = sum(1 for p in sp if p.real == 0 and abs(p.imag) < 1e-6)
            stray = sum(1 for p in sp if p.real != 0 and abs(p.real) < GUARD_RADII * 1e-4)
            if exact0 != nint or stray:
                return False, "boundary-rounding"
            if any(abs(p.real) < GUARD_RADII * 1e-4 for p in o["sclpoles"]):
                return False, "boundary-rounding"
            # the binary64 coefficients must still represent the constructed loop: every true pole off the
            # boundary is matched by a computed pole much closer to it than the boundary is (repeated or
            # clustered roots move by eps^(1/m); then Z and P of the float system are not the constructed ones)
            for roots, comp in ((case["ol"], o["zpoles"]), (case["cl"], o["zclpoles"])):
                if not self.well_conditioned(case, roots, comp):
                    return False, "ill-conditioned-roots"
        return True, "in-claim"

    @staticmethod
    def native_poles(rt, case):
        """true pole(s) of one root spec in the plane the system lives in, with the boundary distance"""
        z = bilinear(rt, case_T(case)) if case["disc"] else rt
        a = float(F(z[1]))
        ps = [complex(a, 0.0)] if z[0] == "r" else [complex(a, float(F(z[2]))), complex(a, -float(F(z[2])))]
        return [(q, abs(abs(q) - 1.0) if case["disc"] else abs(q.real)) for q in ps]

    @classmethod
    def well_conditioned(cls, case, roots, comp):
        comp = list(np.asarray(comp, dtype=complex))
        if len(comp) != deg(roots):
            return False
        for rt in roots:
            for (q, d) in cls.native_poles(rt, case):
                if not comp:
                    return False
                j = int(np.argmin([abs(c - q) for c in comp]))
                if d > 0 and abs(comp[j] - q) > 0.1 * d:
                    return False
                comp.pop(j)
        return True

    @classmethod
    def boundary_dist(cls, rt, case):
        """distance of the true pole from the stability boundary in the s-plane the code works in
        (continuous: real part; discrete: log|z| / dt)"""
        return cls.splane_of(rt, case).real

    def impl(self, case):
        if case["kind"] == "unwrap":
            try:
                a = np.array([float(F(x)) for x in case["a"]], dtype=float)
                out = ct.unwrap(a.copy(), float(F(case["period"])))
                return {"out": [tok(fr(x)) for x in np.asarray(out)]}
            except Exception as e:  # noqa
                return {"err": "%s: %s" % (type(e).__name__, str(e)[:120])}
        o = self.obs(case)
        _, _, P, Z = build(case)
        res = {"P": P, "Z": Z}
        if "exc" in o:
            res["err"] = o["exc"]
            return res
        res["count"] = o["count"]
        res["npoints"] = int(len(o["contour"]))
        res["warn_criterion"] = o["warn_criterion"]
        inc, why = self.in_claim(case, o)
        res["in_claim"] = inc
        res["why"] = why
        if "aux_exc" in o:
            res["aux"] = o["aux_exc"]
        return res

    def parse_model(self, case, out):
        if case["kind"] == "unwrap":
            t = out.split()
            return {"out": [tok(F(x)) for x in t[2:]]} if t[0] == "ok" else {"err": out}
        a, b, c = out
        m = {}
        t = a.split()
        if t[0] == "ok" and len(t) == 4:
            m["count"] = int(t[1])
            m["enc"] = t[2]
            m["margin"] = t[3]
        t = b.split()
        if t[0] == "err":
            m["contour_err"] = t[1]
        elif t[0] == "ok" and b.startswith("ok ") and (" U" in b or " R " in b or " L " in b):
            n = int(t[1])
            pts, i = [], 2
            for _ in range(n):
                w = t[i]
                if t[i + 1] == "U":
                    pts.append((w, "U"))
                    i += 2
                else:
                    pts.append((w, t[i + 1], t[i + 2], t[i + 3]))
                    i += 4
            m["_pts"] = pts
            m["moved"] = sum(1 for p in pts if p[1] != "U")
        t = c.split()
        if t[0] == "ok" and len(t) == 4 and "/" not in c:
            m["P"], m["Z"], m["crit"] = int(t[1]), int(t[2]), t[3] == "1"
        return m

    # ---- comparison -------------------------------------------------------
    def features(self, case, kind, extra=None):
        f = {"kind": kind, "timebase": "disc" if case["disc"] else "cont", "rep": case["rep"],
             "lightly_damped": self.lightly_damped(case)}
        if extra:
            f.update(extra)
        return f

    @staticmethod
    def splane_of(rt, case):
        """the true pole in the s-plane the code works in (continuous: itself; discrete: log(z)/dt)"""
        if not case["disc"]:
            return complex(float(F(rt[1])), float(F(rt[2])) if rt[0] == "c" else 0.0)
        z = bilinear(rt, case_T(case))
        zc = complex(float(F(z[1])), float(F(z[2])) if z[0] == "c" else 0.0)
        dt = 1.0 if case["T"] == "true" else float(F(case["T"]))
        if zc == 0:
            return complex(-math.inf, 0.0)
        return complex(math.log(abs(zc)), math.atan2(zc.imag, zc.real)) / dt

    @classmethod
    def lightly_damped(cls, case):
        """some open- or closed-loop complex pole p (off the boundary) with |Re p| <= |Im p| / 100 in the
        s-plane the code works in: a resonance (or anti-resonance of 1+L) whose width 2|Re p| is at most about
        the spacing of the default 1000-point logarithmic grid (1.4 % of the frequency over six decades)"""
        for r in case["ol"] + case["cl"]:
            if r[0] == "c" and F(r[1]) != 0:
                s = cls.splane_of(r, case)
                if abs(s.real) * 100 <= abs(s.imag):
                    return True
        return False

    def compare(self, case, impl, model):
        if case["kind"] == "unwrap":
            if impl == model:
                return Verdict(AGREE)
            return Verdict(DIFFERS, "ctrlutil.unwrap %s vs model %s" % (impl, model),
                           {"kind": "unwrap-unit", "period": case["period"]})
        o = self.obs(case)
        if "err" in impl:
            if impl.get("in_claim", self.in_claim(case, {})[0]):
                return Verdict(VIOLATES, "nyquist_response raises %s on a loop inside the claim" % impl["err"],
                               self.features(case, "raises", {"exc": impl["err"].split(":")[0]}))
            return Verdict(AGREE)
        target = impl["Z"] - impl["P"]
        prop_fails = impl["in_claim"] and impl["count"] != target
        # (a) the count as computed by the proven model from the implementation's own samples
        a_diff = None
        if "count" in model:
            enc = F(model["enc"])
            frac = abs(enc - round(enc))
            marginal = (model["margin"] != "none" and F(model["margin"]) < F(1, 10 ** 9)) or \
                frac > F(1, 2) - F(1, 10 ** 6)
            if not marginal and model["count"] != impl["count"]:
                a_diff = "count %d, model count on the same samples %d (encirclements %.6f)" % (
                    impl["count"], model["count"], float(enc))
        # (b) contour
        b_diff = self.compare_contour(case, o, model)
        # (c) P/Z conventions and warning
        c_diff = None
        if "crit" in model:
            edge = (case["disc"] and any(abs(abs(p) - 1) < 1e-12 for p in
                                         list(o["zpoles"]) + list(o["zclpoles"])))
            if not edge and model["crit"] == impl["warn_criterion"]:
                c_diff = "criterion warning %s but model Z=%d P=%d count=%d" % (
                    impl["warn_criterion"], model["Z"], model["P"], impl["count"])
        if prop_fails:
            return Verdict(VIOLATES, "count %d but Z - P = %d - %d (exact construction)%s" % (
                impl["count"], impl["Z"], impl["P"], "; " + a_diff if a_diff else ""),
                self.features(case, "count-vs-ZP", {"model_count_agrees": a_diff is None}))
        for kind, d in (("count-model", a_diff), ("contour", b_diff), ("criterion-warning", c_diff)):
            if d:
                return Verdict(DIFFERS, d, self.features(case, kind))
        return Verdict(AGREE)

    def compare_contour(self, case, o, model):
        if "contour_err" in model:
            return "model contour construction raises %s, implementation returns" % model["contour_err"]
        if "_pts" not in model:
            return None
        pts = model["_pts"]
        con = o["contour"]
        if len(pts) != len(con):
            return "contour has %d points, model %d" % (len(con), len(pts))
        dt = None
        if case["disc"]:
            dt = o["sys"].dt
            dt = 1.0 if dt is True else float(dt)
        sp = o["spoles"]
        r = float(o["r"])
        for i, (pt, z) in enumerate(zip(pts, con)):
            w = float(F(pt[0]))
            if pt[1] == "U":
                x = 0.0
            else:
                q, dx = float(F(pt[2])), float(F(pt[3]))
                off = math.sqrt(max(q, 0.0)) - dx
                x = off if pt[1] == "R" else -off
            # sensitivity of sqrt(r^2 - dy^2) to the rounding of dy near |dy| = r
            scale = max(1.0, abs(w))
            tol_re = 1e-9 + 4 * math.sqrt(2 * r * 8e-15 * scale)
            # nearest-pole ties between poles on different sides: the argmin is decided by rounding
            if len(sp) > 1:
                d = np.sort(np.abs(sp - 1j * w))
                tie = d[0] < 2 * r and d[1] - d[0] <= 1e-9 * max(d[1], 1e-300) + 1e-14
            else:
                tie = False
            if dt is None:
                ok = abs(z.imag - w) <= 1e-9 * scale and (tie or abs(z.real - x) <= tol_re)
                if tie and not (abs(abs(z.real) - abs(x)) <= 10 * tol_re + 3e-8):
                    ok = False
            else:
                zz = np.exp(complex(x, w) * dt)
                ok = abs(z - zz) <= (1e-9 + tol_re * dt) * max(1.0, abs(zz)) or \
                    (tie and abs(z - np.exp(complex(-x, w) * dt)) <= (1e-7) * max(1.0, abs(zz)))
            if not ok:
                return "contour point %d: implementation %r, model s-plane point %r (%s)" % (
                    i, complex(z), complex(x, w), pt[1])
        return None

    def nontrivial(self, case, model):
        if case["kind"] == "unwrap":
            return len(case["a"]) >= 2 and model.get("out") != case["a"]
        _, _, P, Z = build(case)
        return deg(case["ol"]) >= 1 and (P != 0 or Z != 0 or model.get("moved", 0) > 0)

    def stats(self, case, impl, model):
        if case["kind"] == "unwrap":
            return {"kind": "unwrap", "unwrap_len": len(case["a"]), "unwrap_changed": model.get("out") != case["a"]}
        st = {"kind": case["kind"], "timebase": "disc" if case["disc"] else "cont", "rep": case["rep"],
              "order": deg(case["ol"]), "dir": case["dir"], "biproper": case["k"] != "1"}
        if "err" in impl:
            st["outcome"] = "raises"
            return st
        st["claim"] = impl["why"]
        st["Z-P"] = impl["Z"] - impl["P"]
        st["count==Z-P"] = "%s/%s" % (impl["count"] == impl["Z"] - impl["P"],
                                      "in" if impl["in_claim"] else "out")
        st["moved_points"] = min(model.get("moved", -1), 1) if "_pts" in model else "n/a"
        st["count_checked"] = "count" in model
        st["warned"] = impl["warn_criterion"]
        hyp = hypotheses_label(case, self.obs(case))   # C13Arg.count_continuous: H2 + tail on the real contour
        st["argprinciple_hyp"] = hyp
        if hyp == "hold":
            st["argprinciple_hyp=hold:count==Z-P"] = impl["count"] == impl["Z"] - impl["P"]
        return st

    def shrink(self, case):
        if case["kind"] == "unwrap":
            for i in range(len(case["a"])):
                yield dict(case, a=case["a"][:i] + case["a"][i + 1:])
            return
        # drop one open-loop root together with closed-loop roots of the same total degree
        ol, cl = case["ol"], case["cl"]
        for i, r in enumerate(ol):
            m = mult(r)
            for j, c in enumerate(cl):
                if mult(c) == m:
                    new = dict(case, ol=ol[:i] + ol[i + 1:], cl=cl[:j] + cl[j + 1:])
                    if valid(new):
                        yield new
                    break
        if case["rep"] == "ss":
            yield dict(case, rep="tf")
        if case["k"] != "1":
            yield dict(case, k="1")
        if case["disc"]:
            new = dict(case, disc=False, T="0")
            if valid(new):
                yield new

    def search(self, rng, case, tier):
        out = []
        if case["kind"] == "unwrap":
            return [self.gen_unwrap(rng) for _ in range(200)]
        for _ in range(200):
            c = self.gen_one(rng, case.get("kind") if case.get("kind") in
                             ("generic", "axis", "near", "light", "lightcl", "left") else "generic")
            if valid(c):
                out.append(c)
        return out


FAMILY = C13
