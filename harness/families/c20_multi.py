"""C20 (multi-output part) — user-defined flat systems with several flat outputs whose flags have
DIFFERENT lengths: correspondence between control.flatsys (FlatSystem / flatsys(forward, reverse),
_basis_flag_matrix for all flat outputs, point_to_point without cost or constraints,
SystemTrajectory.eval) and the Lean model `CtrlVerif.Model.FlatMulti` (driver line `flat multi …`).

The generated systems are multi-chain Brunovsky forms seen through polynomial changes of
coordinates with polynomial inverses:

    chains   xi_(i,0)' = xi_(i,1), …, xi_(i,r_i-1)' = v_i        (flat output i, flag length r_i + 1)
    state    x = P (xi + s(xi))        P unimodular integer, s strictly triangular (s_j depends on
                                       xi_a, a < j), degree <= 2
    input    u = G v + q(xi)           G unimodular integer, q polynomial of degree <= 2

forward(x, u), reverse(zflag) and the dynamics f(x, u) = P (I + Ds(xi)) xi' are then polynomial
maps; the harness computes them symbolically (exact rational coefficients, all dyadic), hands the
coefficient lists to the model and turns the same lists into the Python callables given to
FlatSystem.  Optionally one flat output carries one more (redundant) flag entry that `reverse`
ignores ("pad": sum of the flag lengths > nstates + ninputs, as for the kinematic car of the
examples).

case = {"kind": "multi", "sys": {n, m, len, fwd, rev, dyn, core, ctor}, "fr": {x, u, z}, "p2p": … | None}

Property oracle (on the implementation's own outputs, exact arithmetic):
  * reverse(forward(x, u)) = (x, u);
  * traj.eval(T0) = (x0, u0), traj.eval(Tf) = (xf, uf);
  * d/dt x(t) = f(x(t), u(t)): with z(t) = forward(x(t), u(t)) (exact polynomial evaluation; a
    polynomial of degree < N in t because every flag entry is a combination of the N basis
    polynomials) and x(t) = reverse_x(z(t)), the derivative is  Dreverse_x(z(t)) z'(t), where z'(t)
    at a node is obtained exactly from the values at N nodes (Lagrange differentiation).
"""
import re
import warnings
from fractions import Fraction

import numpy as np
import control.flatsys as fs

from core.runner import Verdict, AGREE, VIOLATES, DIFFERS
from core.exact import fr, tok

TOL = Fraction(1, 10 ** 6)
NINTERIOR = 3
COND_MAX = 1e5
MAXDEG = 4
MAXTERMS = 40


def F(x):
    return Fraction(x)


def ftok(x):
    return tok(fr(float(Fraction(x))))


def vals(v):
    return [float(Fraction(x)) for x in v]


# ---------------------------------------------------------------------------------------------
# multivariate polynomials with Fraction coefficients
# ---------------------------------------------------------------------------------------------
class MP:
    def __init__(self, nv, t=None):
        self.nv = nv
        self.t = {e: c for e, c in (t or {}).items() if c != 0}

    @staticmethod
    def var(nv, i):
        return MP(nv, {tuple(1 if a == i else 0 for a in range(nv)): Fraction(1)})

    @staticmethod
    def const(nv, c):
        return MP(nv, {tuple([0] * nv): Fraction(c)})

    def __add__(self, o):
        t = dict(self.t)
        for e, c in o.t.items():
            t[e] = t.get(e, 0) + c
        return MP(self.nv, t)

    def __sub__(self, o):
        return self + o.scale(-1)

    def scale(self, c):
        return MP(self.nv, {e: Fraction(c) * v for e, v in self.t.items()})

    def __mul__(self, o):
        t = {}
        for e1, c1 in self.t.items():
            for e2, c2 in o.t.items():
                e = tuple(a + b for a, b in zip(e1, e2))
                t[e] = t.get(e, 0) + c1 * c2
        return MP(self.nv, t)

    def power(self, k):
        r = MP.const(self.nv, 1)
        for _ in range(k):
            r = r * self
        return r

    def subst(self, polys, nv2):
        """replace variable a by polys[a] (polynomials in nv2 variables)"""
        r = MP(nv2)
        for e, c in self.t.items():
            term = MP.const(nv2, c)
            for a, k in enumerate(e):
                if k:
                    term = term * polys[a].power(k)
            r = r + term
        return r

    def diff(self, i):
        t = {}
        for e, c in self.t.items():
            if e[i]:
                e2 = tuple(k - 1 if a == i else k for a, k in enumerate(e))
                t[e2] = t.get(e2, 0) + c * e[i]
        return MP(self.nv, t)

    def ev(self, v):
        s = Fraction(0)
        for e, c in self.t.items():
            p = c
            for a, k in enumerate(e):
                if k:
                    p *= v[a] ** k
            s += p
        return s

    def degree(self):
        return max([sum(e) for e in self.t] + [0])

    def to_json(self):
        return [[tok(c), list(e)] for e, c in sorted(self.t.items())]

    @staticmethod
    def from_json(nv, j):
        return MP(nv, {tuple(e): Fraction(c) for c, e in j})


def compile_float(j):
    """[(float coefficient, [(variable, exponent)…])…] of a polynomial in JSON form"""
    return [(float(Fraction(c)), [(a, k) for a, k in enumerate(e) if k]) for c, e in j]


def eval_float(cp, v):
    s = 0.0
    for c, mon in cp:
        p = c
        for a, k in mon:
            p *= v[a] ** k
        s += p
    return s


# ---------------------------------------------------------------------------------------------
# independent exact basis functions (conditioning guard only; same formulas as c20.basis_exact)
# ---------------------------------------------------------------------------------------------
def basis_exact(kind, N, T, j, k, t):
    from math import comb, factorial
    if kind == "P":
        if j < k:
            return Fraction(0)
        return Fraction(factorial(j), factorial(j - k)) * (t / T) ** (j - k) / T ** k
    n = N - 1
    if k >= N:
        return Fraction(0)
    u = t / T
    return comb(n, j) * sum(((-1) ** (l - j) * comb(n - j, l - j) * Fraction(factorial(l), factorial(l - k))
                             * u ** (l - k) / T ** k for l in range(max(j, k), n + 1)), Fraction(0))


def cond_guard(kind, N, T, lens, T0, Tf):
    """2-norm condition number of the block-diagonal boundary matrix"""
    smax, smin = 0.0, float("inf")
    for L in set(lens):
        if L == 0:
            continue
        M = np.array([[float(basis_exact(kind, N, T, j, k, t)) for j in range(N)]
                      for t in (T0, Tf) for k in range(L)])
        s = np.linalg.svd(M, compute_uv=False)
        smax, smin = max(smax, s[0]), min(smin, s[-1])
    return smax / smin if smin > 0 else float("inf")


def model_basis(b, n, m):
    if b["kind"] == "D":
        return "P", 2 * (n + m), "1"
    return b["kind"], b["N"], ("1" if b.get("defaultT") else b["T"])


def make_basis(b):
    if b["kind"] == "D":
        return None
    T = float(Fraction(b["T"]))
    cls = fs.PolyFamily if b["kind"] == "P" else fs.BezierFamily
    return cls(b["N"]) if b.get("defaultT") else cls(b["N"], T)


def eval_times(pp):
    T0, Tf = F(pp["T0"]), F(pp["Tf"])
    return [T0, Tf] + [T0 + (Tf - T0) * Fraction(k, 8) for k in pp["interior"]]


def nodes_for(pp, N):
    T0, Tf = F(pp["T0"]), F(pp["Tf"])
    if N == 1:
        return [T0]
    return [fr(float(T0 + (Tf - T0) * Fraction(i, N - 1))) for i in range(N)]


def lagrange_diff_rows(ts, rows):
    n = len(ts)
    w = []
    for j in range(n):
        d = Fraction(1)
        for k in range(n):
            if k != j:
                d *= (ts[j] - ts[k])
        w.append(1 / d)
    out = {}
    for i in rows:
        r = [Fraction(0)] * n
        for j in range(n):
            if j != i:
                r[j] = (w[j] / w[i]) / (ts[i] - ts[j])
        r[i] = -sum(r)
        out[i] = r
    return out


def classify_exc(e):
    msg = str(e)
    if isinstance(e, NotImplementedError):
        return "notImplemented"
    if isinstance(e, np.linalg.LinAlgError):
        return "illPosed"
    if isinstance(e, IndexError):
        return "indexRange"
    if isinstance(e, ValueError):
        if "too small" in msg or "index too high" in msg:
            return "badArg"
        return "shape"
    if isinstance(e, TypeError):
        return "badArg"
    return type(e).__name__


def excstr(e):
    return "%s: %s" % (type(e).__name__, str(e)[:160])


# ---------------------------------------------------------------------------------------------
# generation of consistent polynomial flat systems
# ---------------------------------------------------------------------------------------------
def unimodular(rng, n, steps):
    P = [[Fraction(int(i == j)) for j in range(n)] for i in range(n)]
    Pi = [[Fraction(int(i == j)) for j in range(n)] for i in range(n)]
    if n < 2:
        if n == 1 and rng.random() < 0.3:
            P[0][0] = Pi[0][0] = Fraction(-1)
        return P, Pi
    for _ in range(steps):
        a, b = rng.sample(range(n), 2)
        r = rng.random()
        if r < 0.7:
            c = rng.choice([-1, 1, 1, 2])
            # P <- E P (row a += c row b);  Pi <- Pi E^-1 (column b -= c column a)
            P[a] = [x + c * y for x, y in zip(P[a], P[b])]
            for row in Pi:
                row[b] -= c * row[a]
        elif r < 0.85:
            P[a], P[b] = P[b], P[a]
            for row in Pi:
                row[a], row[b] = row[b], row[a]
        else:
            P[a] = [-x for x in P[a]]
            for row in Pi:
                row[a] = -row[a]
    return P, Pi


def build_system(rng, r, P, Pi, G, Gi, shears, q, pad):
    """symbolic forward / reverse / dynamics.  r: chain lengths; shears: {j: MP in xi (n vars)};
    q: list of m MPs in xi; pad: None | (i, MP in (x,u))"""
    m = len(r)
    n = sum(r)
    pos = {}
    a = 0
    for i in range(m):
        for k in range(r[i]):
            pos[(i, k)] = a
            a += 1
    nv = n + m
    X = [MP.var(nv, j) for j in range(n)]
    U = [MP.var(nv, n + i) for i in range(m)]
    # xi(x): y = Pi x, xi_j = y_j - s_j(xi_<j)
    y = []
    for j in range(n):
        s = MP(nv)
        for l in range(n):
            if Pi[j][l]:
                s = s + X[l].scale(Pi[j][l])
        y.append(s)
    xi = []
    for j in range(n):
        if j in shears:
            sub = xi + [MP(nv)] * (n - len(xi))
            xi.append(y[j] - shears[j].subst(sub, nv))
        else:
            xi.append(y[j])
    # v(x, u) = Gi (u - q(xi(x)))
    w = [U[i] - q[i].subst(xi, nv) for i in range(m)]
    v = []
    for i in range(m):
        s = MP(nv)
        for l in range(m):
            if Gi[i][l]:
                s = s + w[l].scale(Gi[i][l])
        v.append(s)
    lens = [r[i] + 1 + (1 if pad and pad[0] == i else 0) for i in range(m)]
    fwd, core = [], []
    for i in range(m):
        for k in range(r[i]):
            fwd.append(xi[pos[(i, k)]])
            core.append(len(fwd) - 1)
        fwd.append(v[i])
        core.append(len(fwd) - 1)
        if pad and pad[0] == i:
            fwd.append(pad[1])
    total = sum(lens)
    off = [sum(lens[:i]) for i in range(m)]
    Z = lambda i, k: MP.var(total, off[i] + k)
    xiz = [None] * n
    for (i, k), a in pos.items():
        xiz[a] = Z(i, k)
    vz = [Z(i, r[i]) for i in range(m)]
    # x = P (xi + s(xi))
    inner = [xiz[j] + (shears[j].subst(xiz, total) if j in shears else MP(total)) for j in range(n)]
    rev = []
    for j in range(n):
        s = MP(total)
        for l in range(n):
            if P[j][l]:
                s = s + inner[l].scale(P[j][l])
        rev.append(s)
    for i in range(m):
        s = q[i].subst(xiz, total)
        for l in range(m):
            if G[i][l]:
                s = s + vz[l].scale(G[i][l])
        rev.append(s)
    # dynamics: xdot = P (xidot + Ds(xi) xidot) in the variables (x, u)
    xidot = [None] * n
    for (i, k), a in pos.items():
        xidot[a] = xi[pos[(i, k + 1)]] if k + 1 < r[i] else v[i]
    inner_dot = []
    for j in range(n):
        s = xidot[j]
        if j in shears:
            for l in range(n):
                d = shears[j].diff(l)
                if d.t:
                    s = s + d.subst(xi, nv) * xidot[l]
        inner_dot.append(s)
    dyn = []
    for j in range(n):
        s = MP(nv)
        for l in range(n):
            if P[j][l]:
                s = s + inner_dot[l].scale(P[j][l])
        dyn.append(s)
    return {"n": n, "m": m, "len": lens, "fwd": fwd, "rev": rev, "dyn": dyn, "core": core}


def gen_system(rng):
    for _ in range(200):
        m = rng.choice([1, 2, 2, 2, 2, 3])
        r = [rng.choice([0, 1, 1, 2, 2, 3]) for _ in range(m)]
        n = sum(r)
        if not (1 <= n <= 5):
            continue
        if m >= 2 and len(set(r)) == 1 and rng.random() < 0.75:
            continue            # mostly flags of different lengths
        style = rng.choice(["plain", "linear", "linear", "poly", "poly", "poly"])
        if style == "plain":
            P, Pi = unimodular(rng, n, 0)
            G, Gi = unimodular(rng, m, 0)
        else:
            P, Pi = unimodular(rng, n, rng.randint(0, 3))
            G, Gi = unimodular(rng, m, rng.randint(0, 2))
        if max(abs(x) for row in P + Pi + G + Gi for x in row) > 4:
            continue
        shears = {}
        q = [MP(n) for _ in range(m)]
        XI = [MP.var(n, j) for j in range(n)]
        cf = lambda: Fraction(rng.choice([-2, -1, -1, 1, 1, 2, 1, -1]), rng.choice([1, 1, 2]))
        if style != "plain":
            for i in range(m):
                for j in range(n):
                    if rng.random() < 0.4:
                        q[i] = q[i] + XI[j].scale(cf())
        if style == "poly":
            if n >= 2:
                for j in rng.sample(range(1, n), min(n - 1, rng.choice([1, 1, 2]))):
                    a, b = rng.randrange(j), rng.randrange(j)
                    shears[j] = (XI[a] * XI[b]).scale(cf())
            for i in range(m):
                if rng.random() < 0.4:
                    a, b = rng.randrange(n), rng.randrange(n)
                    q[i] = q[i] + (XI[a] * XI[b]).scale(cf())
        pad = None
        if rng.random() < 0.15:
            i = rng.randrange(m)
            g = MP(n + m)
            for a in rng.sample(range(n + m), min(n + m, 2)):
                g = g + MP.var(n + m, a).scale(cf())
            pad = (i, g)
        S = build_system(rng, r, P, Pi, G, Gi, shears, q, pad)
        allp = S["fwd"] + S["rev"] + S["dyn"]
        if max(p.degree() for p in allp) > MAXDEG or max(len(p.t) for p in allp) > MAXTERMS:
            continue
        if max(abs(c) for p in allp for c in p.t.values()) > 64:
            continue
        if any(c.denominator & (c.denominator - 1) for p in allp for c in p.t.values()):
            continue            # dyadic coefficients only: exactly representable
        return {"n": S["n"], "m": S["m"], "len": S["len"],
                "fwd": [p.to_json() for p in S["fwd"]], "rev": [p.to_json() for p in S["rev"]],
                "dyn": [p.to_json() for p in S["dyn"]], "core": S["core"], "style": style,
                "ctor": rng.choice(["FlatSystem", "flatsys3", "flatsys3", "flatsys-kw", "flatsys2"])}
    raise RuntimeError("no system generated")


DEMO_SYS = {   # the system of seeded demo C20-m3: x1' = x2, x2' = u1 | x3' = u2; flags of length 3 and 2
    "n": 3, "m": 2, "len": [3, 2],
    "fwd": [[["1", [1, 0, 0, 0, 0]]], [["1", [0, 1, 0, 0, 0]]], [["1", [0, 0, 0, 1, 0]]],
            [["1", [0, 0, 1, 0, 0]]], [["1", [0, 0, 0, 0, 1]]]],
    "rev": [[["1", [1, 0, 0, 0, 0]]], [["1", [0, 1, 0, 0, 0]]], [["1", [0, 0, 0, 1, 0]]],
            [["1", [0, 0, 1, 0, 0]]], [["1", [0, 0, 0, 0, 1]]]],
    "dyn": [[["1", [0, 1, 0, 0, 0]]], [["1", [0, 0, 0, 1, 0]]], [["1", [0, 0, 0, 0, 1]]]],
    "core": [0, 1, 2, 3, 4], "style": "plain", "ctor": "FlatSystem"}


class Multi:
    """the multi-output part of the C20 family (called from families/c20.py)"""

    def rq(self, rng):
        r = rng.random()
        if r < 0.4:
            return Fraction(rng.randint(-3, 3))
        if r < 0.7:
            return Fraction(rng.randint(-6, 6), rng.choice([2, 4]))
        return Fraction(rng.randint(-9, 9), rng.choice([3, 5, 7, 10]))

    # ---- generation ---------------------------------------------------------------------
    def gen_case(self, rng, tier):
        s = gen_system(rng)
        n, m, lens = s["n"], s["m"], s["len"]
        total = sum(lens)
        zero = rng.random() < 0.03
        q = (lambda: Fraction(0)) if zero else (lambda: self.rq(rng))
        case = {"kind": "multi", "sys": s,
                "fr": {"x": [ftok(q()) for _ in range(n)], "u": [ftok(q()) for _ in range(m)],
                       "z": [ftok(q()) for _ in range(total)]},
                "p2p": None}
        if rng.random() < 0.9:
            case["p2p"] = self.gen_p2p(rng, s, q)
        return case

    def gen_p2p(self, rng, s, q):
        n, m, lens = s["n"], s["m"], s["len"]
        maxL = max(lens)
        need = -(-2 * (n + m) // m)          # smallest N with m N >= 2 (n + m)
        for _try in range(40):
            T0 = rng.choice([0, 0, 0, 0, Fraction(1, 2), -1, 1, Fraction(-1, 4)])
            H = rng.choice([Fraction(1, 2), 1, 1, Fraction(3, 2), 2, 2, 3])
            Tf = Fraction(T0) + H
            kind = rng.choice(["P", "P", "B", "B", "D"])
            r = rng.random()
            cls = "enough"
            N = 2 * maxL + rng.choice([0, 0, 0, 1, 1, 2, 3])
            if r < 0.07:
                cls, N = "too-small", max(1, need - rng.choice([1, 1, 2]))
            elif r < 0.16 and need < 2 * maxL:
                cls, N = "rank-warn", rng.randint(need, 2 * maxL - 1)
            elif r < 0.20:
                cls, Tf = "T0=Tf", Fraction(T0)
            if kind == "D":
                if cls in ("too-small", "rank-warn"):
                    kind = "P"
                else:
                    N = 2 * (n + m)
                    if N < 2 * maxL:
                        cls = "rank-warn"
            Ts = [Fraction(1), H, Fraction(2)] + ([Tf] if Tf != 0 else [])
            b = {"kind": kind, "N": N, "T": tok(rng.choice(Ts))}
            if kind != "D" and rng.random() < 0.15:
                b["defaultT"] = True
            mk, mN, mT = model_basis(b, n, m)
            if cls == "enough" and cond_guard(mk, mN, Fraction(mT), lens, Fraction(T0), Tf) > COND_MAX:
                continue
            bsp = None
            if cls == "enough" and rng.random() < 0.3:
                # B-splines (external evaluator): end points only.  Either one spline variable
                # shared by all flat outputs, or one variable per flat output with its own degree
                # (different numbers of coefficients: running coefficient offsets)
                nb = rng.choice([3, 4])
                if rng.random() < 0.5:
                    bsp = {"nbreak": nb, "degree": 2 * maxL - 1, "vars": None}
                else:
                    bsp = {"nbreak": nb, "degree": [2 * L - 1 + rng.choice([0, 0, 1]) for L in lens],
                           "vars": m}
            opt = None
            if cls == "enough" and m * mN > 2 * sum(lens) and m * mN > 2 * (n + m) and \
                    rng.random() < (0.10 if len(set(lens)) > 1 else 0.35):
                # cost / constraints (scipy.optimize.minimize, external): the optimiser moves the
                # coefficients inside the null space of the boundary matrix; end points and
                # feasibility are validated on the implementation only
                opt = rng.choice([{"cost": True, "constr": False}, {"cost": True, "constr": False},
                                  {"cost": False, "constr": True}, {"cost": True, "constr": True}])
            return {"T0": tok(T0), "Tf": tok(Tf), "basis": b, "cls": cls, "opt": opt,
                    "via": rng.choice(["list", "list", "scalar", "list3"]) if cls != "T0=Tf" else "list",
                    "bspline": bsp,
                    "x0": [ftok(q()) for _ in range(n)], "u0": [ftok(q()) for _ in range(m)],
                    "xf": [ftok(q()) for _ in range(n)], "uf": [ftok(q()) for _ in range(m)],
                    "interior": sorted(rng.sample(range(1, 8), NINTERIOR))}
        return None

    def generate(self, rng, tier):
        k = 170 if tier == "quick" else 1400
        return [self.gen_case(rng, tier) for _ in range(k)]

    def corpus(self):
        pp = lambda kind, N, T: {"T0": "0", "Tf": "3", "basis": {"kind": kind, "N": N, "T": T}, "cls": "enough",
                                 "via": "scalar", "bspline": {"nbreak": 3, "degree": 4, "vars": None},
                                 "x0": ["1", "1/2", "-1"], "u0": [ftok(Fraction(3, 10)), ftok(Fraction(7, 10))],
                                 "xf": ["-2", "1", "2"], "uf": [ftok(Fraction(-3, 5)), ftok(Fraction(1, 5))],
                                 "interior": [1, 4, 6]}
        fr_ = {"x": ["1", "2", "3"], "u": ["4", "5"], "z": ["1", "2", "3", "4", "5"]}
        c1 = {"kind": "multi", "sys": DEMO_SYS, "fr": fr_, "p2p": pp("P", 6, "1")}
        c2 = {"kind": "multi", "sys": DEMO_SYS, "fr": fr_, "p2p": pp("B", 6, "3")}
        # the same chains with the outputs in the other order (flags of length 2 and 3)
        s2 = dict(DEMO_SYS)
        perm = [3, 4, 0, 1, 2]
        s2["len"] = [2, 3]
        s2["fwd"] = [DEMO_SYS["fwd"][a] for a in perm]
        s2["rev"] = [[[c, [e[a] for a in perm]] for c, e in p] for p in DEMO_SYS["rev"]]
        c3 = {"kind": "multi", "sys": s2, "fr": {"x": ["1", "2", "3"], "u": ["4", "5"],
                                                 "z": ["3", "5", "1", "2", "4"]}, "p2p": pp("P", 7, "1")}
        c3["p2p"]["bspline"] = {"nbreak": 3, "degree": [3, 5], "vars": 2}
        # minimised failing input of seeded change C20-m3 (x1' = u1, u2 free: flags of length 2 and 1)
        id3 = [[["1", [1, 0, 0]]], [["1", [0, 1, 0]]], [["1", [0, 0, 1]]]]
        c4 = {"kind": "multi",
              "sys": {"n": 1, "m": 2, "len": [2, 1], "fwd": id3, "rev": id3, "dyn": [[["1", [0, 1, 0]]]],
                      "core": [0, 1, 2], "style": "plain", "ctor": "flatsys2"},
              "fr": {"x": ["1"], "u": ["0", "0"], "z": ["0", "0", "0"]},
              "p2p": {"T0": "-1/4", "Tf": "5/4", "basis": {"kind": "B", "N": 5, "T": "5/4"}, "cls": "enough",
                      "via": "list", "bspline": None, "opt": None, "x0": ["0"], "u0": ["0", "0"], "xf": ["0"],
                      "uf": ["1", "0"], "interior": [3, 4, 7]}}
        # point_to_point with a cost, flags of equal length (works) and of different length (C20-cost-flag-reshape)
        s5 = {"n": 2, "m": 2, "len": [2, 2],
              "fwd": [[["1", [1, 0, 0, 0]]], [["1", [0, 0, 1, 0]]], [["1", [0, 1, 0, 0]]], [["1", [0, 0, 0, 1]]]],
              "rev": [[["1", [1, 0, 0, 0]]], [["1", [0, 0, 1, 0]]], [["1", [0, 1, 0, 0]]], [["1", [0, 0, 0, 1]]]],
              "dyn": [[["1", [0, 0, 1, 0]]], [["1", [0, 0, 0, 1]]]], "core": [0, 1, 2, 3], "style": "plain",
              "ctor": "FlatSystem"}
        pc = lambda n: {"T0": "0", "Tf": "2", "basis": {"kind": "P", "N": 8, "T": "2"}, "cls": "enough",
                        "via": "list", "bspline": None, "opt": {"cost": True, "constr": True},
                        "x0": ["1"] * n, "u0": ["0", "1/2"], "xf": ["0"] * n, "uf": ["1", "0"], "interior": [2, 4, 6]}
        c5 = {"kind": "multi", "sys": s5, "fr": {"x": ["1", "2"], "u": ["3", "4"], "z": ["1", "2", "3", "4"]},
              "p2p": pc(2)}
        c6 = {"kind": "multi", "sys": DEMO_SYS, "fr": fr_, "p2p": pc(3)}
        return [c1, c2, c3, c4, c5, c6]

    # ---- execution ------------------------------------------------------------------------
    def line(self, case):
        s = case["sys"]
        n, m, lens = s["n"], s["m"], s["len"]
        poly = lambda p: "%d %s" % (len(p), " ".join("%s %s" % (c, " ".join(map(str, e))) for c, e in p))
        ln = "flat multi %d %d %s %s %s" % (n, m, " ".join(map(str, lens)),
                                            " ".join(poly(p) for p in s["fwd"]),
                                            " ".join(poly(p) for p in s["rev"]))
        f = case["fr"]
        ln += " fr %s %s %s" % (" ".join(f["x"]), " ".join(f["u"]), " ".join(f["z"]))
        pp = case.get("p2p")
        if pp:
            kind, N, T = model_basis(pp["basis"], n, m)
            ts = eval_times(pp)
            ln += " p2p %s %d %s %s %s %s %s %s %s %d %s" % (
                kind, N, T, pp["T0"], pp["Tf"], " ".join(pp["x0"]), " ".join(pp["u0"]),
                " ".join(pp["xf"]), " ".join(pp["uf"]), len(ts), " ".join(tok(t) for t in ts))
        return " ".join(ln.split())

    def build(self, s):
        n, m, lens = s["n"], s["m"], s["len"]
        cf = [compile_float(p) for p in s["fwd"]]
        cr = [compile_float(p) for p in s["rev"]]
        cd = [compile_float(p) for p in s["dyn"]]
        off = [sum(lens[:i]) for i in range(m)]

        def forward(x, u, params=None):
            v = [float(a) for a in np.atleast_1d(x)] + [float(a) for a in np.atleast_1d(u)]
            return [np.array([eval_float(cf[off[i] + k], v) for k in range(lens[i])]) for i in range(m)]

        def reverse(zflag, params=None):
            # index the flag the way a user's function does: zflag[i][k], k < len_i
            v = [float(zflag[i][k]) for i in range(m) for k in range(lens[i])]
            return (np.array([eval_float(cr[j], v) for j in range(n)]),
                    np.array([eval_float(cr[n + j], v) for j in range(m)]))

        def update(t, x, u, params=None):
            v = [float(a) for a in np.atleast_1d(x)] + [float(a) for a in np.atleast_1d(u)]
            return np.array([eval_float(p, v) for p in cd])

        c = s.get("ctor", "FlatSystem")
        if c == "FlatSystem":
            return fs.FlatSystem(forward, reverse, update, inputs=m, states=n)
        if c == "flatsys3":
            return fs.flatsys(forward, reverse, update, inputs=m, states=n)
        if c == "flatsys-kw":
            return fs.flatsys(forward, reverse, updfcn=update, inputs=m, states=n)
        return fs.flatsys(forward, reverse, inputs=m, states=n)

    def impl(self, case):
        s = case["sys"]
        n, m = s["n"], s["m"]
        out = {}
        try:
            with warnings.catch_warnings():
                warnings.simplefilter("ignore")
                flat = self.build(s)
        except Exception as e:  # noqa
            return {"err": classify_exc(e), "exc": excstr(e)}
        f = case["fr"]
        flt = lambda a: [tok(fr(v)) for v in np.asarray(a, dtype=float).flatten()]
        try:
            x, u = np.array(vals(f["x"])), np.array(vals(f["u"]))
            lens = s["len"]
            zv = vals(f["z"])
            z, a = [], 0
            for L in lens:
                z.append(np.array(zv[a:a + L]))
                a += L
            fwd = flat.forward(x, u)
            rx, ru = flat.reverse(z)
            r1x, r1u = flat.reverse([np.array(b, dtype=float) for b in fwd])
            rt2 = flat.forward(rx, ru)
            out["fr"] = {"shape": [len(b) for b in fwd], "fwd": flt(np.hstack(fwd)), "rev": flt(rx) + flt(ru),
                         "rt1": flt(r1x) + flt(r1u), "rt2": flt(np.hstack(rt2))}
        except Exception as e:  # noqa
            out["fr"] = {"err": classify_exc(e), "exc": excstr(e)}
        pp = case.get("p2p")
        if pp:
            out["p2p"] = self.impl_p2p(flat, s, pp)
        return out

    def impl_p2p(self, flat, s, pp):
        n, m = s["n"], s["m"]
        try:
            with warnings.catch_warnings(record=True) as wl:
                warnings.simplefilter("always")
                basis = make_basis(pp["basis"])
                T0, Tf = float(F(pp["T0"])), float(F(pp["Tf"]))
                x0, xf = np.array(vals(pp["x0"])), np.array(vals(pp["xf"]))
                u0, uf = np.array(vals(pp["u0"])), np.array(vals(pp["uf"]))
                kw = {} if basis is None else {"basis": basis}
                if pp["via"] == "scalar":
                    traj = fs.point_to_point(flat, Tf, x0, u0, xf, uf, initial_time=T0, **kw)
                elif pp["via"] == "list3":
                    traj = fs.point_to_point(flat, [T0, (T0 + Tf) / 2, Tf], x0, u0, xf, uf, **kw)
                else:
                    traj = fs.point_to_point(flat, [T0, Tf], x0, u0, xf, uf, **kw)
                ts = eval_times(pp)
                xs, us = traj.eval(np.array([float(t) for t in ts]))
                N = traj.basis.N
                nodes = nodes_for(pp, N)
                xn, un = traj.eval(np.array([float(t) for t in nodes]))
            res = {"N": N, "flaglen": [int(v) for v in traj.flaglen],
                   "alpha": [tok(fr(v)) for c in traj.coeffs for v in np.asarray(c).flatten()],
                   "xs": [[tok(fr(xs[i, k])) for i in range(n)] for k in range(len(ts))],
                   "us": [[tok(fr(us[i, k])) for i in range(m)] for k in range(len(ts))],
                   "xn": [[tok(fr(xn[i, k])) for i in range(n)] for k in range(len(nodes))],
                   "un": [[tok(fr(un[i, k])) for i in range(m)] for k in range(len(nodes))],
                   "warn": sorted({re.sub(r"[0-9.]+", "#", str(w.message))[:60] for w in wl
                                   if "basis too small" in str(w.message)})}
            if not all(np.isfinite(float(F(v))) for row in res["xs"] + res["us"] for v in row):
                return {"err": "nonfinite", "exc": "non-finite trajectory values"}
            opt = pp.get("opt")
            if opt:
                res["opt"] = self.impl_opt(flat, s, pp, opt, basis, T0, Tf, x0, u0, xf, uf, N)
            bsp = pp.get("bspline")
            if bsp:
                try:
                    with warnings.catch_warnings(record=True) as wb:
                        warnings.simplefilter("always")
                        kwb = {} if bsp["vars"] is None else {"vars": bsp["vars"]}
                        bb = fs.BSplineFamily(list(np.linspace(T0, Tf, bsp["nbreak"])), bsp["degree"], **kwb)
                        tb = fs.point_to_point(flat, [T0, Tf], x0, u0, xf, uf, basis=bb)
                        xb, ub = tb.eval(np.array([T0, Tf]))
                    res["bspline"] = {"xs": [[tok(fr(xb[i, k])) for i in range(n)] for k in range(2)],
                                      "us": [[tok(fr(ub[i, k])) for i in range(m)] for k in range(2)],
                                      "ncoefs": [len(c) for c in tb.coeffs],
                                      "warn": sorted({str(w.message)[:40] for w in wb
                                                      if "basis too small" in str(w.message)})}
                except Exception as e:  # noqa
                    res["bspline"] = {"err": classify_exc(e), "exc": excstr(e)}
            return res
        except ValueError as e:
            if "non-finite" in str(e) or "NaN" in str(e) or "infs or NaNs" in str(e):
                return {"err": "nonfinite", "exc": "non-finite trajectory values"}
            return {"err": classify_exc(e), "exc": excstr(e)}
        except Exception as e:  # noqa
            return {"err": classify_exc(e), "exc": excstr(e)}

    def impl_opt(self, flat, s, pp, opt, basis, T0, Tf, x0, u0, xf, uf, N):
        """point_to_point with a quadratic cost and / or an (inactive) linear constraint"""
        import traceback
        import scipy.optimize as spo
        n, m = s["n"], s["m"]
        try:
            with warnings.catch_warnings():
                warnings.simplefilter("ignore")
                kw = {} if basis is None else {"basis": basis}
                if opt["cost"]:
                    kw["cost"] = lambda x, u: float(np.dot(x, x) + np.dot(u, u))
                if opt["constr"]:
                    kw["trajectory_constraints"] = [(spo.LinearConstraint, np.eye(n + m),
                                                     -1e9 * np.ones(n + m), 1e9 * np.ones(n + m))]
                tp = [T0 + (Tf - T0) * k / 3 for k in range(3)] + [Tf]
                traj = fs.point_to_point(flat, tp, x0, u0, xf, uf, minimize_options={"maxiter": 6}, **kw)
                xe, ue = traj.eval(np.array([T0, Tf]))
                nodes = nodes_for(pp, N)
                xn, un = traj.eval(np.array([float(t) for t in nodes]))
            if not (np.all(np.isfinite(xn)) and np.all(np.isfinite(un))):
                return {"err": "nonfinite", "exc": "non-finite trajectory values", "where": "values"}
            return {"N": N,
                    "xs": [[tok(fr(xe[i, k])) for i in range(n)] for k in range(2)],
                    "us": [[tok(fr(ue[i, k])) for i in range(m)] for k in range(2)],
                    "xn": [[tok(fr(xn[i, k])) for i in range(n)] for k in range(len(nodes))],
                    "un": [[tok(fr(un[i, k])) for i in range(m)] for k in range(len(nodes))]}
        except Exception as e:  # noqa
            names = [f.name for f in traceback.extract_tb(e.__traceback__)]
            where = "cost-callback" if ("traj_cost" in names or "traj_const" in names) else "other"
            return {"err": classify_exc(e), "exc": excstr(e), "where": where}

    def parse_model(self, case, out):
        s = case["sys"]
        n, m, total = s["n"], s["m"], sum(s["len"])
        if out.startswith("err "):
            return {"err": out.split()[1]}
        parts = [o.strip() for o in out.split("|")]
        res = {}
        t = parts[0].split()
        assert t[0] == "ok", parts[0]
        v = t[1:]
        a, b, c = total, total + n + m, total + 2 * (n + m)
        assert len(v) == c + total, parts[0]
        res["fr"] = {"fwd": v[:a], "rev": v[a:b], "rt1": v[b:c], "rt2": v[c:]}
        if case.get("p2p"):
            t = parts[1].split()
            if t[0] == "err":
                res["p2p"] = {"err": t[1]}
            elif t[0] == "warn":
                res["p2p"] = {"warn": True}
            else:
                nc = int(t[1])
                v = t[2:]
                alpha, rest = v[:nc], v[nc:]
                k = len(eval_times(case["p2p"]))
                assert len(rest) == k * (n + m), parts[1]
                xs = [rest[i * (n + m):i * (n + m) + n] for i in range(k)]
                us = [rest[i * (n + m) + n:(i + 1) * (n + m)] for i in range(k)]
                res["p2p"] = {"ncoef": nc, "alpha": alpha, "xs": xs, "us": us}
        return res

    # ---- comparison ---------------------------------------------------------------------------
    def feat(self, case, kind, **kw):
        f = {"kind": kind, "class": "multi-output"}
        f.update(kw)
        return f

    @staticmethod
    def vclose(a, b, scale=None, tol=TOL):
        a = [Fraction(x) for x in a]
        b = [Fraction(x) for x in b]
        if len(a) != len(b):
            return False
        sc = max([Fraction(1)] + [abs(x) for x in b] + ([scale] if scale else []))
        return all(abs(x - y) <= tol * sc for x, y in zip(a, b))

    def excfeat(self, d):
        e = d.get("exc", "")
        return {"exc": e.split(":")[0], "msg": re.sub(r"[0-9]+", "#", e.split(":", 1)[-1].strip())[:60]}

    def compare(self, case, impl, model):
        s = case["sys"]
        n, m = s["n"], s["m"]
        if "err" in model:
            return Verdict(DIFFERS, "model: " + model["err"], self.feat(case, "model-" + model["err"]))
        if "err" in impl:
            return Verdict(VIOLATES, "FlatSystem constructor raises: " + impl["exc"],
                           self.feat(case, "construct-raises", **self.excfeat(impl)))
        fi, fm = impl["fr"], model["fr"]
        f = case["fr"]
        if "err" in fi:
            return Verdict(VIOLATES, "forward/reverse raise: " + fi["exc"],
                           self.feat(case, "fr-raises", **self.excfeat(fi)))
        xu = f["x"] + f["u"]
        if fi["shape"] != s["len"]:
            return Verdict(VIOLATES, "flag shape %s, expected %s" % (fi["shape"], s["len"]),
                           self.feat(case, "flag-shape"))
        scale = max([Fraction(1)] + [abs(F(v)) for v in xu + f["z"] + fm["fwd"] + fm["rev"] + fm["rt2"]])
        if not self.vclose(fi["rt1"], xu, scale):
            return Verdict(VIOLATES, "reverse(forward(x,u)) = %s, (x,u) = %s" % (vals(fi["rt1"]), vals(xu)),
                           self.feat(case, "roundtrip-xu"))
        if [F(v) for v in fm["rt1"]] != [F(v) for v in xu]:
            # the maps handed to the model are not mutually inverse at (x, u): generator bug
            return Verdict(DIFFERS, "model: reverse(forward(x,u)) = %s, (x,u) = %s" % (vals(fm["rt1"]), vals(xu)),
                           self.feat(case, "model-roundtrip"))
        pp = case.get("p2p")
        late = None
        if pp:
            v = self.compare_p2p(case, impl["p2p"], model["p2p"], pp, s)
            if v is not None:
                if v.features.get("kind") != "p2p-cost-raises":
                    return v
                late = v        # reported only if nothing else is wrong with this case
        for key in ("fwd", "rev", "rt2"):
            if not self.vclose(fi[key], fm[key], scale):
                return Verdict(DIFFERS, "%s differs from the model: %s vs %s" % (key, vals(fi[key]), vals(fm[key])),
                               self.feat(case, key + "-value"))
        return late or Verdict(AGREE)

    def compare_p2p(self, case, pi, pm, pp, s):
        n, m = s["n"], s["m"]
        if "err" in pm:
            if "err" in pi:
                return None
            return Verdict(DIFFERS, "model raises %s, point_to_point returns" % pm["err"],
                           self.feat(case, "p2p-returns-" + pm["err"]))
        if "warn" in pm:
            # boundary system without full row rank: the code is expected to warn and go on
            if "err" in pi:
                return Verdict(DIFFERS, "rank-deficient boundary system: point_to_point raises " + pi["exc"],
                               self.feat(case, "p2p-rankdef-raises", **self.excfeat(pi)))
            if not pi.get("warn"):
                return Verdict(DIFFERS, "rank-deficient boundary system accepted without the warning",
                               self.feat(case, "p2p-no-warning"))
            return None
        if "err" in pi:
            return Verdict(VIOLATES, "point_to_point raises: " + pi["exc"],
                           self.feat(case, "p2p-raises", **self.excfeat(pi)))
        bc = pp["x0"] + pp["u0"] + pp["xf"] + pp["uf"]
        allv = [F(v) for k in range(len(pm["xs"])) for v in pm["xs"][k] + pm["us"][k]]
        scale = max([Fraction(1)] + [abs(F(v)) for v in bc] + [abs(v) for v in allv])
        for k, which, xr, ur in ((0, "initial", pp["x0"], pp["u0"]), (1, "final", pp["xf"], pp["uf"])):
            if not self.vclose(pi["xs"][k] + pi["us"][k], xr + ur, scale):
                return Verdict(VIOLATES, "(x, u)(%s) = %s, requested %s" % (
                    "T0" if k == 0 else "Tf", vals(pi["xs"][k] + pi["us"][k]), vals(xr + ur)),
                    self.feat(case, "p2p-endpoint", which=which))
        bsr = pi.get("bspline")
        if bsr:
            if "err" in bsr:
                return Verdict(VIOLATES, "point_to_point with a B-spline basis raises: " + bsr["exc"],
                               self.feat(case, "bspline-raises", **self.excfeat(bsr)))
            if not (self.vclose(bsr["xs"][0] + bsr["us"][0], pp["x0"] + pp["u0"], scale, TOL * 10)
                    and self.vclose(bsr["xs"][1] + bsr["us"][1], pp["xf"] + pp["uf"], scale, TOL * 10)):
                return Verdict(VIOLATES, "B-spline trajectory end points %s / %s" % (
                    vals(bsr["xs"][0] + bsr["us"][0]), vals(bsr["xs"][1] + bsr["us"][1])),
                    self.feat(case, "bspline-endpoint", vars=str(pp["bspline"]["vars"])))
        res = self.residual(pi, pp, s)
        if res is not None:
            worst, where, dscale = res
            if worst > TOL * 10 * max(scale, dscale):
                return Verdict(VIOLATES, "d/dt x - f(x, u) = %.3g at t = %s (scale %.3g)" % (
                    float(worst), float(where), float(max(scale, dscale))),
                    self.feat(case, "p2p-infeasible"))
        for k in range(len(pm["xs"])):
            if not self.vclose(pi["xs"][k] + pi["us"][k], pm["xs"][k] + pm["us"][k], scale):
                return Verdict(DIFFERS, "trajectory at sample %d: %s, model %s" % (
                    k, vals(pi["xs"][k] + pi["us"][k]), vals(pm["xs"][k] + pm["us"][k])),
                    self.feat(case, "p2p-trajectory"))
        if pi["flaglen"] != s["len"]:
            return Verdict(DIFFERS, "traj.flaglen = %s" % pi["flaglen"], self.feat(case, "p2p-flaglen"))
        ascale = max([Fraction(1)] + [abs(F(v)) for v in pm["alpha"]])
        if not self.vclose(pi["alpha"], pm["alpha"], ascale, TOL * 10):
            return Verdict(DIFFERS, "coefficients differ from the minimum-norm solution: %s, model %s" % (
                vals(pi["alpha"]), vals(pm["alpha"])), self.feat(case, "p2p-coefficients"))
        if pi.get("warn"):
            return Verdict(DIFFERS, "unexpected warning %s" % pi["warn"], self.feat(case, "p2p-warning"))
        # cost / constraints last: a known finding of this class must not hide another disagreement
        po = pi.get("opt")
        if po:
            flags = "equal" if len(set(s["len"])) == 1 else "different"
            if "err" in po:
                return Verdict(VIOLATES, "point_to_point with cost / constraints %s raises: %s" % (
                    pp["opt"], po["exc"]),
                    self.feat(case, "p2p-cost-raises", flags=flags, where=po["where"], **self.excfeat(po)))
            oscale = max([scale] + [abs(F(v)) for row in po["xn"] + po["un"] for v in row])
            for k, which, xr, ur in ((0, "initial", pp["x0"], pp["u0"]), (1, "final", pp["xf"], pp["uf"])):
                if not self.vclose(po["xs"][k] + po["us"][k], xr + ur, oscale, TOL * 10):
                    return Verdict(VIOLATES, "with cost / constraints: (x, u)(%s) = %s, requested %s" % (
                        "T0" if k == 0 else "Tf", vals(po["xs"][k] + po["us"][k]), vals(xr + ur)),
                        self.feat(case, "p2p-cost-endpoint", which=which))
            res = self.residual(po, pp, s)
            if res is not None:
                worst, where, dscale = res
                if worst > TOL * 100 * max(oscale, dscale):
                    return Verdict(VIOLATES, "with cost / constraints: d/dt x - f(x, u) = %.3g at t = %s" % (
                        float(worst), float(where)), self.feat(case, "p2p-cost-infeasible"))
        return None

    def residual(self, pi, pp, s):
        """max over some nodes of |xdot - f(x, u)| computed exactly from the implementation's
        trajectory values at N nodes (see the module docstring); None when the nodes coincide"""
        n, m, lens = s["n"], s["m"], s["len"]
        N = pi["N"]
        ts = nodes_for(pp, N)
        if len(set(ts)) != len(ts) or N < 2:
            return None
        total = sum(lens)
        fwd = [MP.from_json(n + m, p) for p in s["fwd"]]
        revx = [MP.from_json(total, p) for p in s["rev"][:n]]
        dyn = [MP.from_json(n + m, p) for p in s["dyn"]]
        core = s["core"]
        XU = [[F(v) for v in pi["xn"][j]] + [F(v) for v in pi["un"][j]] for j in range(N)]
        Z = [[fwd[a].ev(XU[j]) if a in core else Fraction(0) for a in range(total)] for j in range(N)]
        used = sorted({a for p in revx for e in p.t for a, k in enumerate(e) if k})
        jac = {(i, a): revx[i].diff(a) for i in range(n) for a in used}
        rows = sorted({0, N - 1, N // 2, N // 3, (2 * N) // 3})
        Dm = lagrange_diff_rows(ts, rows)
        worst, where, dscale = Fraction(0), ts[0], Fraction(1)
        for i in rows:
            zdot = {a: sum((Dm[i][j] * Z[j][a] for j in range(N)), Fraction(0)) for a in used}
            for st in range(n):
                xdot = sum((jac[(st, a)].ev(Z[i]) * zdot[a] for a in used), Fraction(0))
                rhs = dyn[st].ev(XU[i])
                dscale = max(dscale, abs(xdot), abs(rhs))
                r = abs(xdot - rhs)
                if r > worst:
                    worst, where = r, ts[i]
        return worst, where, dscale

    def nontrivial(self, case, model):
        s = case["sys"]
        if "err" in model:
            return False
        f = case["fr"]
        return s["m"] >= 2 and any(F(v) != 0 for v in f["x"] + f["u"] + f["z"])

    def stats(self, case, impl, model):
        s = case["sys"]
        lens = s["len"]
        st = {"multi_outputs": s["m"], "multi_states": s["n"],
              "multi_flags": "equal" if len(set(lens)) == 1 else "different",
              "multi_sumlen": "n+m" if sum(lens) == s["n"] + s["m"] else "padded",
              "multi_style": s.get("style", "?")}
        pp = case.get("p2p")
        if pp and "err" not in model:
            pm = model["p2p"]
            st["multi_p2p"] = ("err:" + pm["err"]) if "err" in pm else ("warn" if "warn" in pm else "ok")
            st["multi_basis"] = pp["basis"]["kind"]
            if pp.get("bspline"):
                st["multi_bspline"] = "vars=%s" % pp["bspline"]["vars"]
            if pp.get("opt"):
                st["multi_optimised"] = "+".join(k for k in ("cost", "constr") if pp["opt"][k])
        return st

    # ---- shrinking --------------------------------------------------------------------------
    def shrink(self, case):
        pp = case.get("p2p")
        f = case["fr"]
        z = lambda v: ["0"] * len(v)
        if pp:
            for key in ("bspline", "opt"):
                if pp.get(key):
                    c = dict(case)
                    c["p2p"] = dict(pp)
                    c["p2p"][key] = None
                    yield c
            for key in ("x0", "xf", "u0", "uf"):
                if any(F(v) != 0 for v in pp[key]):
                    c = dict(case)
                    c["p2p"] = dict(pp)
                    c["p2p"][key] = z(pp[key])
                    yield c
            c = dict(case)
            c["p2p"] = dict(pp)
            for key in ("x0", "xf", "u0", "uf"):
                c["p2p"][key] = [tok(Fraction(round(F(v)))) for v in pp[key]]
            yield c
            c = dict(case)
            c["p2p"] = None
            yield c
        for key in ("x", "u", "z"):
            if any(F(v) != 0 for v in f[key]):
                c = dict(case)
                c["fr"] = dict(f)
                c["fr"][key] = z(f[key])
                yield c
        c = dict(case)
        c["fr"] = {k: [tok(Fraction(round(F(v)))) for v in f[k]] for k in ("x", "u", "z")}
        yield c

    def search(self, rng, case, tier):
        return [self.gen_case(rng, tier) for _ in range(100)]


def selftest(seed=0, k=200):
    """symbolic consistency of the generated systems: reverse o forward = id, forward_core o
    reverse = id on the core entries, and Dreverse_x(z) shift(z) = f(reverse z)"""
    import random
    rng = random.Random(seed)
    for _ in range(k):
        s = gen_system(rng)
        n, m, lens = s["n"], s["m"], s["len"]
        total = sum(lens)
        fwd = [MP.from_json(n + m, p) for p in s["fwd"]]
        rev = [MP.from_json(total, p) for p in s["rev"]]
        dyn = [MP.from_json(n + m, p) for p in s["dyn"]]
        comp = [p.subst(fwd, n + m) for p in rev]
        for j, p in enumerate(comp):
            assert (p - MP.var(n + m, j)).t == {}, ("rev o fwd", s, j)
        for a in s["core"]:
            p = fwd[a].subst(rev, total)
            assert (p - MP.var(total, a)).t == {}, ("fwd o rev", s, a)
        # feasibility identity at a random exact point
        pt = [Fraction(rng.randint(-5, 5), rng.choice([1, 2, 3])) for _ in range(total)]
        nxt = {}
        off = [sum(lens[:i]) for i in range(m)]
        core = set(s["core"])
        for i in range(m):
            for k_ in range(lens[i]):
                a = off[i] + k_
                if a in core and a + 1 < off[i] + lens[i] and (a + 1) in core:
                    nxt[a] = pt[a + 1]
        xu = [p.ev(pt) for p in rev]
        for st in range(n):
            used = {a for e in rev[st].t for a, k_ in enumerate(e) if k_}
            assert used <= set(nxt), ("state depends on a top derivative", s)
            xdot = sum((rev[st].diff(a).ev(pt) * nxt[a] for a in used), Fraction(0))
            assert xdot == dyn[st].ev(xu), ("dynamics", s, st)
    return True
