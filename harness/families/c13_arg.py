"""C13-argprinciple — on every run, evaluate the hypotheses of the Lean theorem
`CtrlVerif.C13Arg.count_continuous` on the implementation's OWN contour.

`count_continuous` (Props/C13Arg.lean) proves: for a continuous-time loop
`1 + L = k prod(s - c_i) / prod(s - p_i)` (real coefficients, no root on the imaginary axis, equal
counts), and ANY grid `0 = w_0, ..., w_N` on the imaginary axis with
  (H2)   |Phi(w_{i+1}) - Phi(w_i)| < pi         (Phi = the continuous phase of the theorem), and
  (tail) w_N above all roots and  sum_a arctan(|Re a| / (w_N - Im a)) < pi/2,
the code's count formula on the principal angles of the samples returns Z - P.

What is NOT proved is that python-control's default grid satisfies (H2) and (tail).  This module
computes both conditions (binary64, on the exactly constructed roots of the case) for the contour
the implementation actually used, and returns a label that the C13 family records in its evidence
histogram.  It is a statistic about the remaining assumption, never a verdict: a label `hold`
together with `count != Z - P` is already a VIOLATION through the family's exact-by-construction
comparison (d)."""
import math
from fractions import Fraction as F

import numpy as np

MARGIN = 1e-6          # relative margin under which a condition is reported as `marginal`


def expand(roots):
    """['r', a] / ['c', a, b]  ->  list of complex roots with multiplicity (pairs expanded)"""
    out = []
    for r in roots:
        a = float(F(r[1]))
        if r[0] == "r":
            out.append(complex(a, 0.0))
        else:
            b = float(F(r[2]))
            out += [complex(a, b), complex(a, -b)]
    return out


def phase(a, w):
    """Lean `NyquistArg.phase a w` = arctan((w - Im a)/(-Re a)) + (pi if Re a > 0 else 0), vectorised"""
    return np.arctan((w - a.imag) / (-a.real)) + (math.pi if a.real > 0 else 0.0)


def Phi(k, cs, ps, w):
    """Lean `NyquistArg.Phi k cs ps w`"""
    out = np.full_like(w, math.pi if k < 0 else 0.0, dtype=float)
    for c in cs:
        out = out + phase(c, w)
    for p in ps:
        out = out - phase(p, w)
    return out


def hypotheses_label(case, o):
    """-> 'hold' | 'H2-fails' | 'tail-fails' | 'H2+tail-fail' | 'marginal' | 'n/a:<reason>'"""
    if case.get("kind") == "unwrap":
        return "n/a:unit"
    if case["disc"]:
        return "n/a:discrete-time"
    if "exc" in o or "contour" not in o:
        return "n/a:raises"
    if any(F(r[1]) == 0 for r in case["ol"] + case["cl"]):
        return "n/a:pole-on-axis"
    con = np.asarray(o["contour"], dtype=complex)
    if len(con) < 2 or con[0] != 0 or np.any(con.real != 0):
        return "n/a:indented-contour"
    w = con.imag
    cs, ps = expand(case["cl"]), expand(case["ol"])
    k = float(F(case["k"]))
    ph = Phi(k, cs, ps, w)
    step = float(np.max(np.abs(np.diff(ph))))
    wN = float(w[-1])
    allr = cs + ps
    if wN <= max(a.imag for a in allr):
        tail = math.inf
    else:
        tail = sum(math.atan(abs(a.real) / (wN - a.imag)) for a in allr)
    h2 = step / math.pi
    tl = tail / (math.pi / 2)
    if abs(h2 - 1) < MARGIN or abs(tl - 1) < MARGIN:
        return "marginal"
    if h2 < 1 and tl < 1:
        return "hold"
    if h2 >= 1 and tl >= 1:
        return "H2+tail-fail"
    return "H2-fails" if h2 >= 1 else "tail-fails"
