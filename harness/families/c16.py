"""C16 — system norms: correspondence between control.system_norm (method 'scipy') and the Lean
model `CtrlVerif.Model.Norm` (driver family `norm`).

The driver executes `Norm.h2` / `Norm.linf` over Q.  External numerical routines are parameters
of the model; the harness supplies certified data for them (exact Gramian candidate, the value
NumPy returns for ||D||_2) and records what the real code passes to `ct.lyap` / `ct.dlyap` /
`la.eigvals`."""
import functools
import json
import math
import re
from fractions import Fraction

import numpy as np
import control as ct

from core.runner import Family, Verdict, AGREE, VIOLATES, DIFFERS
from core import exact, exmat
from core.exact import fr, tok, Tokens

F = Fraction
TAU_H2 = F(1, 10 ** 8)           # relative tolerance on the squared H2 norm
TAU_H = F(1, 10 ** 8)            # entrywise tolerance on Hamiltonian / solver arguments
SLACK = F(1, 10 ** 9)
DEFAULT_TOL = 1e-6
OMEGAS = [F(0), F(1, 8), F(1, 4), F(1, 2), F(3, 4), F(1), F(3, 2), F(2), F(3), F(5), F(10), F(100)]
TS = [F(0), F(1, 16), F(1, 8), F(1, 4), F(1, 2), F(3, 4), F(1), F(3, 2), F(2), F(4), F(16), F(1000)]


# ----------------------------------------------------------------------------
# exact helpers
# ----------------------------------------------------------------------------

def mats(case):
    n, p, m = case["n"], case["p"], case["m"]
    return (exmat.from_flat(case["A"], n, n), exmat.from_flat(case["B"], n, m),
            exmat.from_flat(case["C"], p, n), exmat.from_flat(case["D"], p, m))


def transpose(M, rows=None, cols=None):
    if not M:
        return [[] for _ in range(cols or 0)]
    return [list(r) for r in zip(*M)] if M[0] else [[] for _ in range(0)]


def mmul(A, B, p, k, m):
    """A (p x k) * B (k x m) with explicit sizes (handles empty dimensions)"""
    return [[sum((A[i][t] * B[t][j] for t in range(k)), F(0)) for j in range(m)] for i in range(p)]


def gramian(A, Q, n, disc):
    """exact solution of A P + P A^T + Q = 0 (or A P A^T - P + Q = 0), None if not unique"""
    if n == 0:
        return []
    N = n * n
    M = [[F(0)] * N for _ in range(N)]
    for i in range(n):
        for j in range(n):
            r = i * n + j
            if disc:
                for k in range(n):
                    for l in range(n):
                        M[r][k * n + l] += A[i][k] * A[j][l]
                M[r][r] -= 1
            else:
                for k in range(n):
                    M[r][k * n + j] += A[i][k]
                    M[r][i * n + k] += A[j][k]
    rhs = [[-Q[i][j]] for i in range(n) for j in range(n)]
    X = exmat.solve(M, rhs)
    if X is None:
        return None
    return [[X[i * n + j][0] for j in range(n)] for i in range(n)]


def freq_eval(A, B, C, D, n, p, m, a, b):
    """G(a + ib) = C ((a+ib) I - A)^-1 B + D as (real, imag) Fraction matrices; None at a pole"""
    if n == 0 or m == 0:
        return [list(r) for r in D], exmat.zeros(p, m)
    # (a - A) Xr - b Xi = B ;  b Xr + (a - A) Xi = 0
    M = [[F(0)] * (2 * n) for _ in range(2 * n)]
    for i in range(n):
        for j in range(n):
            v = (a if i == j else F(0)) - A[i][j]
            M[i][j] = v
            M[n + i][n + j] = v
        M[i][n + i] = -b
        M[n + i][i] = b
    rhs = [list(B[i]) for i in range(n)] + [[F(0)] * m for _ in range(n)]
    X = exmat.solve(M, rhs)
    if X is None:
        return None
    Xr, Xi = X[:n], X[n:]
    Yr = exmat.add(mmul(C, Xr, p, n, m), D) if p else []
    Yi = mmul(C, Xi, p, n, m)
    return Yr, Yi


def sigma_max(Yr, Yi, p, m):
    """largest singular value of an exactly known complex matrix: (float value, exact square or None)"""
    if p == 0 or m == 0:
        return 0.0, F(0)
    if p == 1 or m == 1:
        sq = sum((x * x for r in Yr for x in r), F(0)) + sum((x * x for r in Yi for x in r), F(0))
        return math.sqrt(sq), sq
    M = np.array([[float(x) for x in r] for r in Yr]) + 1j * np.array([[float(x) for x in r] for r in Yi])
    return float(np.linalg.svd(M, compute_uv=False)[0]), None


def dt_value(tokn):
    if tokn == "N":
        return None
    if tokn == "T":
        return True
    if tokn == "C":
        return 0
    return float(F(tokn[1:]))


def is_ctime(dt):      # sys.isctime()
    return dt in ("N", "C")


def is_dtime(dt):      # sys.isdtime()
    return dt != "C"


def np_mats(case):
    n, p, m = case["n"], case["p"], case["m"]
    f = lambda v, r, c: np.array([float(F(x)) for x in v], dtype=float).reshape(r, c)
    return f(case["A"], n, n), f(case["B"], n, m), f(case["C"], p, n), f(case["D"], p, m)


def poles_of(case):
    out = []
    for f in case["factors"]:
        if f[0] == "R":
            out.append((F(f[1]), F(0)))
        else:
            out.append((F(f[1]), F(f[2])))
            out.append((F(f[1]), -F(f[2])))
    return out


def stable(case, disc):
    ps = poles_of(case)
    if disc:
        return all(a * a + b * b < 1 for a, b in ps)
    return all(a < 0 for a, b in ps)


def boundary(case, disc):
    ps = poles_of(case)
    if disc:
        return any(a * a + b * b == 1 for a, b in ps)
    return any(a == 0 for a, b in ps)


@functools.lru_cache(maxsize=20000)
def _line(key):
    case = json.loads(key)
    n, p, m, dt = case["n"], case["p"], case["m"], case["dt"]
    sysd = "%d %d %d %s" % (n, p, m, " ".join(case["A"] + case["B"] + case["C"] + case["D"]))
    fac = "%d%s" % (len(case["factors"]), "".join(" " + " ".join(f) for f in case["factors"]))
    A, B, C, D = mats(case)
    if case["kind"] == "h2":
        disc = not is_ctime(dt)
        P = None
        if stable(case, disc):
            Q = mmul(B, transpose(B, cols=n), n, m, n)
            P = gramian(A, Q, n, disc)
        if P is None:
            P = exmat.zeros(n, n)
        return "norm h2 %s %s %s %s" % (dt, sysd, fac, " ".join(exmat.flat_tokens(P))), None
    # linf: the value NumPy returns for ||D||_2 of the system the continuous-time part works on
    An, Bn, Cn, Dn = np_mats(case)
    gaml = 0.0
    try:
        if is_dtime(dt):
            In = np.eye(n)
            Adinv = np.linalg.inv(An + In)
            Dn = Dn - Cn @ Adinv @ Bn
        gaml = float(np.linalg.norm(Dn, ord=2)) if Dn.size else 0.0
        if not math.isfinite(gaml):
            gaml = 0.0
    except Exception:
        gaml = 0.0
    return "norm linf %s %s %s %s %s" % (dt, tok(fr(case["tol"])), sysd, fac, tok(fr(gaml))), gaml


def canon_key(case):
    return json.dumps(case, sort_keys=True)


# ----------------------------------------------------------------------------
# recording wrappers around the external routines the real code calls
# ----------------------------------------------------------------------------

class Recorder:
    def __init__(self):
        self.lyap = []       # (name, A, Q, X)
        self.eig = []        # matrices passed to numpy.linalg.eigvals

    def __enter__(self):
        self.o_lyap, self.o_dlyap, self.o_eig = ct.lyap, ct.dlyap, np.linalg.eigvals

        def wl(A, Q, *a, **k):
            X = self.o_lyap(A, Q, *a, **k)
            self.lyap.append(("lyap", np.array(A, dtype=float), np.array(Q, dtype=float), np.array(X)))
            return X

        def wd(A, Q, *a, **k):
            X = self.o_dlyap(A, Q, *a, **k)
            self.lyap.append(("dlyap", np.array(A, dtype=float), np.array(Q, dtype=float), np.array(X)))
            return X

        def we(M, *a, **k):
            self.eig.append(np.array(M))
            return self.o_eig(M, *a, **k)
        ct.lyap, ct.dlyap, np.linalg.eigvals = wl, wd, we
        return self

    def __exit__(self, *exc):
        ct.lyap, ct.dlyap, np.linalg.eigvals = self.o_lyap, self.o_dlyap, self.o_eig
        return False


def classify_exc(e):
    if isinstance(e, ct.exception.ControlArgument):
        return "badArg"
    if isinstance(e, np.linalg.LinAlgError):
        return "illPosed"
    return type(e).__name__


def mat_tokens(a):
    try:
        return [tok(fr(x)) for x in np.asarray(a, dtype=float).flatten()]
    except ValueError:
        return None


# ----------------------------------------------------------------------------

class C16(Family):
    prop = "C16"
    # source-text tie (notes/NOTES-py2lean-norm.md): Generated/Norm*.lean are rewritten from
    # control/sysnorm.py on every run; these modules prove model = generated
    extra_modules = ["CtrlVerif.Props.C16GenH2", "CtrlVerif.Props.C16GenHam", "CtrlVerif.Props.C16GenBil",
                     "CtrlVerif.Props.C16GenLoops", "CtrlVerif.Props.C16GenLinf", "CtrlVerif.Props.C16Gen"]

    def pre_build(self):
        import os
        from core import py2lean_norm, leanproj
        problems, self.gen_info = py2lean_norm.regenerate(os.environ.get("VERIF_REPO") or "/repo", leanproj.LEAN)
        return problems

    externals = [
        "scipy.linalg.solve_continuous_lyapunov / solve_discrete_lyapunov through ct.lyap / ct.dlyap "
        "(parameter of the model; the driver uses an exact candidate that it checks against the "
        "Lyapunov equation, the arguments the real code passes are recorded and compared, the "
        "residual of SciPy's answer is recorded)",
        "numpy.linalg.eigvals: G.poles() (the model is given the exact pole list, certified against "
        "the characteristic polynomial of A), the precaution eigvals(P).real < 0 (decided exactly by "
        "principal minors), and 'H(gamma) has an eigenvalue with zero real part' (decided exactly by "
        "characteristic polynomial + Sturm sequence)",
        "numpy.linalg.norm(D, 2) (parameter; the value is certified to enclose the largest singular "
        "value of the model's D within 1e-9)",
        "numpy.linalg.inv (the model uses det != 0 and det^-1 * adjugate)",
        "np.isclose thresholds are modelled as exact equalities; generated poles are exactly on the "
        "stability boundary (simple) or at distance >= 1/16 from it",
    ]
    assumptions = [
        "method='scipy' (Slycot is not installed); StateSpace inputs (TransferFunction inputs go "
        "through tf2ss, which is C03)",
        "H2: the squared norm is compared to 1e-8 relative with the exact Gramian expression; "
        "Linf: |impl - model| <= (2.5 tol + 1e-9) * model (both are within tol of the supremum by "
        "theorem linf_within_tol), the first Hamiltonian matrix entrywise to 1e-8, and the returned "
        "value is checked directly against exact frequency-response samples",
        "data are small dyadic rationals, so the floats the implementation sees are exactly the "
        "rationals the model sees",
    ]
    rule = ("systems A = T (block-diagonal of chosen real poles / complex pairs + upper coupling) T^-1 "
            "with unimodular integer T, order 0..3 (thorough: 0..4), 1..3 inputs/outputs (non-square included), B, C, D "
            "small integers (D zero or not, uncontrollable and zero-transfer cases included), stable / "
            "unstable / simple boundary poles, timebases 0, 1, 0.5, True, None; p=2 and p='inf' with "
            "tol in {1e-2, 1e-3, 1e-4, default}.  Non-trivial: order >= 2, or non-square, or discrete "
            "time, or a non-default tol")

    # ---- generation -------------------------------------------------------
    C_STABLE = [["R", "-1/2"], ["R", "-1"], ["R", "-2"], ["R", "-3"], ["R", "-3/2"],
                ["C", "-1", "1"], ["C", "-1/2", "2"], ["C", "-2", "1"], ["C", "-1", "3"], ["C", "-1/4", "1"]]
    C_UNSTABLE = [["R", "1/2"], ["R", "1"], ["R", "2"], ["C", "1", "1"], ["C", "1/2", "2"]]
    C_BOUNDARY = [["R", "0"], ["C", "0", "1"], ["C", "0", "2"]]
    D_STABLE = [["R", "1/2"], ["R", "-1/2"], ["R", "1/4"], ["R", "-3/4"], ["R", "3/4"],
                ["C", "1/2", "1/2"], ["C", "-1/4", "1/2"], ["C", "0", "1/2"], ["C", "3/4", "1/2"]]
    D_ORIGIN = [["R", "0"]]
    D_UNSTABLE = [["R", "2"], ["R", "-3/2"], ["R", "5/4"], ["C", "1", "1"], ["C", "1/2", "1"]]
    D_BOUNDARY = [["R", "1"], ["R", "-1"], ["C", "0", "1"]]

    def pick_factors(self, rng, n, disc, klass):
        """klass: stable | unstable | boundary | origin"""
        st, un, bd = (self.D_STABLE, self.D_UNSTABLE, self.D_BOUNDARY) if disc else \
            (self.C_STABLE, self.C_UNSTABLE, self.C_BOUNDARY)
        for _ in range(200):
            fs, deg = [], 0
            special_used = klass == "stable"
            while deg < n:
                pool = st
                if not special_used and rng.random() < 0.6:
                    pool = {"unstable": un, "boundary": bd, "origin": self.D_ORIGIN}[klass]
                elif klass == "unstable" and rng.random() < 0.3:
                    pool = un
                f = rng.choice(pool)
                d = 1 if f[0] == "R" else 2
                if deg + d > n:
                    continue
                if pool is not st and pool is not un:
                    if special_used:
                        continue
                    special_used = True
                elif pool is un:
                    special_used = True
                fs.append(list(f))
                deg += d
            if special_used or n == 0:
                return fs
        return fs

    def build_A(self, rng, fs, n):
        L = exmat.zeros(n, n)
        i = 0
        blocks = []
        for f in fs:
            if f[0] == "R":
                L[i][i] = F(f[1])
                blocks.append((i, 1))
                i += 1
            else:
                a, b = F(f[1]), F(f[2])
                L[i][i] = a
                L[i][i + 1] = b
                L[i + 1][i] = -b
                L[i + 1][i + 1] = a
                blocks.append((i, 2))
                i += 2
        # coupling above the block diagonal (does not change the poles)
        if rng.random() < 0.5:
            for bi, (s, d) in enumerate(blocks):
                for (s2, d2) in blocks[bi + 1:]:
                    for r in range(s, s + d):
                        for c in range(s2, s2 + d2):
                            if rng.random() < 0.6:
                                L[r][c] = F(rng.randint(-2, 2))
        T = exmat.eye(n)
        Ti = exmat.eye(n)
        if n >= 2 and rng.random() < 0.75:
            for _ in range(rng.randint(1, 3)):
                i, j = rng.sample(range(n), 2)
                c = F(rng.choice([-2, -1, 1, 2]))
                E = exmat.eye(n)
                E[i][j] = c
                Ei = exmat.eye(n)
                Ei[i][j] = -c
                T = exmat.mul(T, E)
                Ti = exmat.mul(Ei, Ti)
        A = exmat.mul(exmat.mul(T, L), Ti) if n else []
        return A, T, Ti

    def make(self, rng, kind, tier):
        disc_dt = rng.choice(["D1", "D1", "D1/2", "T"])
        dt = rng.choice(["C", "C", "C", disc_dt, disc_dt, disc_dt, "N"]) if rng.random() < 0.97 else "N"
        disc = (not is_ctime(dt)) if kind == "h2" else is_dtime(dt)
        n = rng.choice([0, 1, 1, 2, 2, 2, 3, 3] + ([3, 4] if tier == "thorough" else []))
        if kind == "linf":
            p, m = rng.choice([(1, 1), (1, 1), (1, 2), (2, 1), (2, 2), (2, 2), (1, 3), (3, 1), (2, 3), (3, 2)])
            if n >= 3 and p * m > 4:
                p, m = rng.choice([(1, 2), (2, 1), (2, 2)])
        else:
            p, m = rng.choice([1, 1, 2, 2, 3]), rng.choice([1, 1, 2, 2, 3])
        r = rng.random()
        if n == 0:
            klass = "stable"
        elif r < 0.62:
            klass = "stable"
        elif r < 0.8:
            klass = "unstable"
        elif r < 0.92 or not (disc and kind == "linf"):
            klass = "boundary" if r >= 0.8 else "unstable"
        else:
            klass = "origin"
        if kind == "h2" and disc and n and rng.random() < 0.1:
            klass = "origin"
        fs = self.pick_factors(rng, n, disc, klass)
        A, T, Ti = self.build_A(rng, fs, n)
        ri = lambda: F(rng.randint(-2, 2))
        B0 = [[ri() for _ in range(m)] for _ in range(n)]
        C0 = [[ri() for _ in range(n)] for _ in range(p)]
        u = rng.random()
        flavour = "generic"
        if n and u < 0.15:          # an uncontrollable mode: a zero row of B in modal coordinates
            flavour = "uncontrollable"
            B0[rng.randrange(n)] = [F(0)] * m
            if fs and fs[-1][0] == "C" and rng.random() < 0.5:
                B0[n - 1] = [F(0)] * m
                B0[n - 2] = [F(0)] * m
        elif n and u < 0.175:       # identically zero transfer function
            flavour = "zero"
            if rng.random() < 0.5:
                B0 = exmat.zeros(n, m)
            else:
                C0 = exmat.zeros(p, n)
        elif n and u < 0.3 and all(any(x != 0 for x in row) for row in B0):
            flavour = "generic"
        B = exmat.mul(T, B0) if n else []
        C = mmul(C0, Ti, p, n, n)
        sc = rng.random()
        if sc < 0.15:
            B = exmat.scale(F(1, 2), B)
        elif sc < 0.27:             # small norms (an absolute stopping rule would be too coarse)
            B = exmat.scale(F(1, 16), B)
            if rng.random() < 0.5:
                C = exmat.scale(F(1, 4), C)
        elif sc < 0.32:             # large norms
            C = exmat.scale(F(8), C)
        dz = rng.random()
        if kind == "h2" and not disc:
            zeroD = dz < 0.8
        else:
            zeroD = dz < 0.4
        if kind == "linf" and n == 0:
            zeroD = dz < 0.08          # the static gain 0 is the zero transfer function again
        D = exmat.zeros(p, m) if zeroD else [[ri() for _ in range(m)] for _ in range(p)]
        if flavour == "zero" and kind == "linf":
            D = exmat.zeros(p, m) if rng.random() < 0.7 else D
        case = {"kind": kind, "dt": dt, "n": n, "p": p, "m": m,
                "A": exmat.flat_tokens(A) if n else [], "B": exmat.flat_tokens(B) if n else [],
                "C": exmat.flat_tokens(C) if n else [], "D": exmat.flat_tokens(D),
                "factors": fs}
        if kind == "linf":
            case["tol"] = rng.choice([1e-2, 1e-3, 1e-3, 1e-4, DEFAULT_TOL]) if tier == "quick" else \
                rng.choice([1e-2, 1e-3, 1e-4, 1e-5, DEFAULT_TOL, DEFAULT_TOL])
        return case

    def generate(self, rng, tier):
        n = 330 if tier == "quick" else 10000
        out = []
        for i in range(n):
            kind = "h2" if i % 2 == 0 else "linf"
            out.append(self.make(rng, kind, tier))
        return out

    def corpus(self):
        base = {"dt": "C", "n": 1, "A": ["-1"], "factors": [["R", "-1"]]}
        return [
            # Ip = eye(len(D)) used for both identities: 1 state, 1x2 / 2x1, p='inf'
            dict(base, kind="linf", p=1, m=2, B=["1", "2"], C=["1"], D=["0", "0"], tol=1e-3),
            dict(base, kind="linf", p=2, m=1, B=["1"], C=["1", "2"], D=["0", "0"], tol=1e-3),
            dict(base, kind="linf", p=1, m=2, B=["1", "2"], C=["1"], D=["1", "1"], tol=1e-3),
            # static gains, p=2
            {"kind": "h2", "dt": "C", "n": 0, "p": 1, "m": 1, "A": [], "B": [], "C": [], "D": ["0"], "factors": []},
            {"kind": "h2", "dt": "D1", "n": 0, "p": 1, "m": 2, "A": [], "B": [], "C": [], "D": ["3", "4"], "factors": []},
            # stable, uncontrollable mode in skew coordinates: Gramian singular
            {"kind": "h2", "dt": "C", "n": 2, "p": 1, "m": 1, "A": ["-1", "2", "0", "-3"], "B": ["1", "1"],
             "C": ["1", "0"], "D": ["0"], "factors": [["R", "-1"], ["R", "-3"]]},
            # stable, transfer function identically zero by cancellation: radicand -1e-16 (known finding)
            {"kind": "h2", "dt": "C", "n": 2, "p": 1, "m": 1, "A": ["-1", "2", "-1", "-4"], "B": ["2", "-2"],
             "C": ["1", "1"], "D": ["0"], "factors": [["R", "-2"], ["R", "-3"]]},
            {"kind": "linf", "dt": "N", "n": 2, "p": 1, "m": 2, "A": ["-3/2", "0", "0", "-3/2"],
             "B": ["2", "-1", "2", "-1"], "C": ["16", "-16"], "D": ["0", "0"],
             "factors": [["R", "-3/2"], ["R", "-3/2"]], "tol": 1e-2},
            # identically zero transfer function with states, p='inf'
            dict(base, kind="linf", p=1, m=1, B=["0"], C=["1"], D=["0"], tol=1e-3),
            dict(base, kind="linf", p=1, m=1, B=["1"], C=["1"], D=["0"], tol=DEFAULT_TOL),
            dict(base, kind="linf", dt="D1", A=["1/2"], factors=[["R", "1/2"]], p=1, m=1, B=["1"], C=["1"],
                 D=["1"], tol=1e-4),
        ]

    # ---- execution ----------------------------------------------------------
    def line(self, case):
        return _line(canon_key(case))[0]

    def impl(self, case):
        A, B, C, D = np_mats(case)
        rec = Recorder()
        out = {}
        try:
            sys_ = ct.StateSpace(A, B, C, D, dt_value(case["dt"]))
            with rec:
                if case["kind"] == "h2":
                    v = ct.system_norm(sys_, 2, print_warning=False, method="scipy")
                else:
                    tol = case["tol"]
                    if tol == DEFAULT_TOL:
                        v = ct.system_norm(sys_, "inf", print_warning=False, method="scipy")
                    else:
                        v = ct.system_norm(sys_, "inf", tol=tol, print_warning=False, method="scipy")
            v = float(np.asarray(v).reshape(-1)[0]) if np.asarray(v).size == 1 else None
            if v is None:
                out = {"ok": {"type": "nonscalar"}}
            elif math.isinf(v):
                out = {"ok": {"inf": True, "sign": 1 if v > 0 else -1}}
            elif math.isnan(v):
                out = {"ok": {"nan": True}}
            else:
                out = {"ok": {"val": tok(fr(v))}}
        except Exception as e:  # noqa
            out = {"err": classify_exc(e), "exc": "%s: %s" % (type(e).__name__, str(e)[:160])}
        r = {}
        if rec.lyap:
            name, a, q, x = rec.lyap[0]
            r["lyap"] = {"name": name, "A": mat_tokens(a), "Q": mat_tokens(q), "X": mat_tokens(x)}
        n = case["n"]
        hs = [h for h in rec.eig if h.ndim == 2 and h.shape == (2 * n, 2 * n)] if n else []
        if case["kind"] == "linf":
            r["neig"] = len(hs)
            if hs:
                r["H0"] = mat_tokens(hs[0])
            r["eigshapes"] = sorted({"x".join(map(str, h.shape)) for h in rec.eig})
        out["rec"] = r
        return out

    def parse_model(self, case, out):
        if out.startswith("err "):
            return {"err": out.split()[1]}
        tk = Tokens(out)
        assert tk.next() == "ok"
        kind = tk.next()
        if kind == "inf":
            o = {"inf": True}
            if not tk.done():
                o["why"] = tk.next()
            return {"ok": o}
        if kind == "diverged":
            return {"ok": {"diverged": True}}
        if kind == "sqrt":
            q = tk.next()
            r, c = tk.nat(), tk.nat()
            return {"ok": {"sqrt": q, "Q": [tk.next() for _ in range(r * c)]}}
        if kind == "val":
            o = {"val": tk.next()}
            while not tk.done():
                t = tk.next()
                if t == "H0":
                    g = tk.next()
                    if g != "none":
                        o["g0"] = g
                        r, c = tk.nat(), tk.nat()
                        o["H0"] = [tk.next() for _ in range(r * c)]
                elif t == "D":
                    r, c = tk.nat(), tk.nat()
                    o["Dc"] = [tk.next() for _ in range(r * c)]
            return {"ok": o}
        raise ValueError(out)

    # ---- comparison ------------------------------------------------------------
    def shape_class(self, case):
        p, m = case["p"], case["m"]
        return "square" if p == m else ("wide" if p < m else "tall")

    def features(self, case, kind, impl, **extra):
        feat = {"kind": kind, "norm": case["kind"], "shape": self.shape_class(case),
                "static": case["n"] == 0}
        if "err" in impl:
            feat["exc"] = impl["exc"].split(":")[0]
            feat["msg"] = re.sub(r"[0-9]+", "#", impl["exc"].split(":", 1)[1].strip())[:50]
        feat.update(extra)
        return feat

    @staticmethod
    def zero_noise(case, disc):
        """level below which a value returned for an identically zero transfer function counts as 0:
        1e-7 x the product of the largest entries of the input and output matrices of the realisation
        the code's Hamiltonian test works on (the inverse-bilinear image for discrete time)"""
        A_, B_, C_, D_ = mats(case)
        if disc and case["n"]:
            Ai = exmat.solve(exmat.add(A_, exmat.eye(case["n"])), exmat.eye(case["n"]))
            if Ai is not None:
                B_ = exmat.scale(F(2), exmat.mul(Ai, B_))
                C_ = exmat.scale(F(2), exmat.mul(C_, Ai))
        return F(1, 10 ** 7) * max(F(1), exmat.maxabs(B_) * exmat.maxabs(C_))

    def zero_tf(self, case):
        """transfer function identically zero (checked at 2n+1 points) and D = 0"""
        A, B, C, D = mats(case)
        n, p, m = case["n"], case["p"], case["m"]
        if any(x != 0 for r in D for x in r):
            return False
        cnt = 0
        for k in range(3, 40):
            Y = exmat.ss_eval(A, B, C, D, F(k, 1) + F(1, 3), p, m)
            if Y is None:
                continue
            if any(x != 0 for r in Y for x in r):
                return False
            cnt += 1
            if cnt >= 2 * n + 1:
                break
        return True

    def singular_gramian(self, case):
        key = canon_key(case)
        ln = _line(key)[0].split()
        n = case["n"]
        if n == 0:
            return False
        P = exmat.from_flat(ln[-n * n:], n, n)
        return exmat.det(P) == 0

    def sample_sup(self, case, disc):
        """(largest sampled sigma_max as float, where) over exact frequency-response samples"""
        A, B, C, D = mats(case)
        n, p, m = case["n"], case["p"], case["m"]
        best, where = 0.0, None
        pts = []
        if disc:
            for t in TS:
                pts.append(((1 - t * t) / (1 + t * t), 2 * t / (1 + t * t)))
            pts.append((F(-1), F(0)))
        else:
            for w in OMEGAS:
                pts.append((F(0), w))
        for (a, b) in pts:
            Y = freq_eval(A, B, C, D, n, p, m, a, b)
            if Y is None:
                continue
            s, _ = sigma_max(Y[0], Y[1], p, m)
            if s > best:
                best, where = s, (a, b)
        return best, where

    def first_order_sup_sq(self, case, disc):
        """exact squared supremum for one state and a single input or output (monotone in frequency)"""
        if case["n"] != 1 or min(case["p"], case["m"]) != 1:
            return None
        A, B, C, D = mats(case)
        n, p, m = 1, case["p"], case["m"]
        vals = []
        if disc:
            pts = [(F(1), F(0)), (F(-1), F(0))]
        else:
            pts = [(F(0), F(0))]
            vals.append(sum((x * x for r in D for x in r), F(0)))      # omega -> infinity
        for (a, b) in pts:
            Y = freq_eval(A, B, C, D, n, p, m, a, b)
            if Y is None:
                return None
            vals.append(sigma_max(Y[0], Y[1], p, m)[1])
        return max(vals)

    def compare_h2(self, case, impl, model):
        if "err" in model:
            if "err" in impl:
                return Verdict(AGREE)
            return Verdict(DIFFERS, "model raises %s, implementation returns %s" % (model["err"], impl["ok"]),
                           self.features(case, "returns-" + model["err"], impl))
        mo = model["ok"]
        if "err" in impl:
            return Verdict(VIOLATES, "system_norm(sys, 2) raises %s; the norm is %s" % (
                impl["exc"], "inf" if "inf" in mo else "sqrt(%s)" % mo["sqrt"]),
                self.features(case, "raises", impl, zero_norm=("sqrt" in mo and F(mo["sqrt"]) == 0)))
        io = impl["ok"]
        if "inf" in mo:
            if io.get("inf") and io.get("sign") == 1:
                return Verdict(AGREE)
            return Verdict(VIOLATES, "norm is infinite (%s), implementation returns %s" % (mo.get("why"), io),
                           self.features(case, "finite-for-infinite", impl, why=mo.get("why")))
        q = F(mo["sqrt"])
        if io.get("inf"):
            return Verdict(VIOLATES, "system is asymptotically stable%s, norm^2 = %s, implementation returns inf"
                           % ("" if not is_ctime(case["dt"]) else " without direct term", q),
                           self.features(case, "inf-for-finite", impl,
                                         singular_gramian=self.singular_gramian(case)))
        if "val" not in io:
            return Verdict(VIOLATES, "implementation returns %s, norm^2 = %s" % (io, q),
                           self.features(case, "not-a-number", impl))
        v = F(io["val"])
        # conditioning: the generator hides the spectrum behind an integer similarity; the Gramian
        # solve loses about cond(T)^2 ~ (max |a_ij|)^2 digits relative to the eigenvalue scale
        amax = max([abs(F(x)) for x in case["A"]] + [F(1)])
        if v < 0 or abs(v * v - q) > TAU_H2 * max(F(1), amax * amax) * max(F(1), q):
            return Verdict(VIOLATES, "H2 norm %s (square %s), exact square %s" % (float(v), float(v * v), float(q)),
                           self.features(case, "h2-value", impl))
        # arguments passed to the Lyapunov solver
        rec = impl.get("rec", {}).get("lyap")
        n = case["n"]
        if n > 0:
            if rec is None:
                return Verdict(DIFFERS, "no call of ct.lyap / ct.dlyap recorded", self.features(case, "no-lyap", impl))
            want = "lyap" if is_ctime(case["dt"]) else "dlyap"
            Aex = [[F(x) for x in case["A"]]]
            Qex = [[F(x) for x in mo["Q"]]]
            if rec["name"] != want or rec["A"] is None or rec["Q"] is None or \
                    len(rec["A"]) != n * n or len(rec["Q"]) != n * n or \
                    not exmat.close([[F(x) for x in rec["A"]]], Aex, TAU_H) or \
                    not exmat.close([[F(x) for x in rec["Q"]]], Qex, TAU_H):
                return Verdict(DIFFERS, "arguments of %s differ from (A, B B^T)" % rec["name"],
                               self.features(case, "lyap-args", impl))
        return Verdict(AGREE)

    def compare_linf(self, case, impl, model):
        tol = fr(case["tol"])
        if "err" in model:
            if "err" in impl:
                return Verdict(AGREE)
            return Verdict(DIFFERS, "model raises %s, implementation returns %s" % (model["err"], impl["ok"]),
                           self.features(case, "returns-" + model["err"], impl))
        mo = model["ok"]
        disc = is_dtime(case["dt"])
        if "diverged" not in mo and "val" in mo and "ok" in impl and "val" in impl["ok"] \
                and case["n"] and self.zero_tf(case) and abs(F(impl["ok"]["val"])) < self.zero_noise(case, disc):
            # identically zero transfer function for which the model's bisection happened to stop (at a
            # value of order 1e-15) instead of running out of fuel: the same rule as below applies
            # (thorough seed 12)
            return Verdict(AGREE)
        if "diverged" in mo:
            # the loops of the code do not terminate in exact arithmetic
            if self.zero_tf(case):
                # (an identically zero transfer function is zero only up to rounding in floating
                # point; a value at noise level counts as 0)
                A_, B_, C_, D_ = mats(case)
                if disc and case["n"]:
                    # the code runs its Hamiltonian test on the inverse-bilinear image
                    # B' = 2 (A+I)^-1 B, C' = 2 C (A+I)^-1 of the discrete system: the level below which
                    # its eigenvalue test (np.isclose, atol 1e-8) cannot tell gamma from 0 scales with THOSE
                    # matrices (thorough seed 10: |B'||C'| = 14 for |B||C| = 2, value returned 3.5e-7)
                    Ai = exmat.solve(exmat.add(A_, exmat.eye(case["n"])), exmat.eye(case["n"]))
                    if Ai is not None:
                        B_ = exmat.scale(F(2), exmat.mul(Ai, B_))
                        C_ = exmat.scale(F(2), exmat.mul(C_, Ai))
                noise = F(1, 10 ** 7) * max(F(1), exmat.maxabs(B_) * exmat.maxabs(C_))
                if "ok" in impl and "val" in impl["ok"] and abs(F(impl["ok"]["val"])) < noise:
                    return Verdict(AGREE)
                return Verdict(VIOLATES, "transfer function is identically zero (norm 0); implementation: %s"
                               % (impl.get("exc") or impl.get("ok")),
                               dict({"kind": "zero-tf", "norm": "linf"},
                                    **({"exc": impl["exc"].split(":")[0]} if "err" in impl else {})))
            return Verdict(DIFFERS, "model loop ran out of fuel", self.features(case, "fuel", impl))
        if "err" in impl:
            return Verdict(VIOLATES, "system_norm(sys, 'inf') raises %s; the norm is %s" % (
                impl["exc"], "inf" if "inf" in mo else "about %.9g" % float(F(mo["val"]))),
                self.features(case, "raises", impl))
        io = impl["ok"]
        if "inf" in mo:
            if io.get("inf") and io.get("sign") == 1:
                return Verdict(AGREE)
            return Verdict(VIOLATES, "pole on the stability boundary, implementation returns %s" % io,
                           self.features(case, "finite-for-infinite", impl))
        g = F(mo["val"])
        if "val" not in io:
            return Verdict(VIOLATES, "implementation returns %s, model %.12g" % (io, float(g)),
                           self.features(case, "not-a-number", impl))
        v = F(io["val"])
        # direct evaluation of the property on the implementation's value
        best, where = self.sample_sup(case, disc)
        if float(v) < (1 - float(tol)) * best * (1 - 1e-9) - 1e-12:
            return Verdict(VIOLATES, "returned %.12g is smaller than sigma_max(G) = %.12g at %s (tol %g)"
                           % (float(v), best, where, float(tol)), self.features(case, "linf-below-sample", impl))
        if float(g) < (1 - float(tol)) * best * (1 - 1e-9) - 1e-12:
            return Verdict(DIFFERS, "MODEL value %.12g below sampled sigma_max %.12g" % (float(g), best),
                           self.features(case, "model-below-sample", impl))
        ssq = self.first_order_sup_sq(case, disc)
        if ssq is not None:
            for nm, x in (("implementation", v), ("model", g)):
                lo_ok = x * x * (1 + SLACK) >= (1 - tol) ** 2 * ssq
                hi_ok = (1 - tol) ** 2 * x * x <= ssq * (1 + SLACK)
                if not (lo_ok and hi_ok):
                    st = VIOLATES if nm == "implementation" else DIFFERS
                    return Verdict(st, "%s value %.12g, exact supremum sqrt(%s) = %.12g, tol %g"
                                   % (nm, float(x), ssq, math.sqrt(ssq), float(tol)),
                                   self.features(case, "linf-first-order-" + nm, impl))
        if abs(v - g) > (F(5, 2) * tol + SLACK) * g:
            return Verdict(VIOLATES, "L-infinity norm %.12g, model %.12g, tol %g" % (float(v), float(g), float(tol)),
                           self.features(case, "linf-value", impl))
        # first Hamiltonian matrix
        rec = impl.get("rec", {})
        if case["n"] > 0 and "H0" in mo:
            h = rec.get("H0")
            Hm = [[F(x) for x in mo["H0"]]]
            if h is None or len(h) != len(mo["H0"]) or not exmat.close([[F(x) for x in h]], Hm, TAU_H):
                return Verdict(DIFFERS, "first Hamiltonian matrix (gamma = %s) differs from the model's" % mo["g0"],
                               self.features(case, "hamiltonian", impl))
        return Verdict(AGREE)

    def compare(self, case, impl, model):
        if case["kind"] == "h2":
            return self.compare_h2(case, impl, model)
        return self.compare_linf(case, impl, model)

    def nontrivial(self, case, model):
        if "ok" not in model:
            return False
        return case["n"] >= 2 or case["p"] != case["m"] or case["dt"] not in ("C",) or \
            (case["kind"] == "linf" and case["tol"] != DEFAULT_TOL)

    def stats(self, case, impl, model):
        st = {"kind": case["kind"], "n": case["n"], "shape": "%dx%d" % (case["p"], case["m"]),
              "dt": case["dt"] if case["dt"] in ("C", "N", "T") else "D"}
        if "err" in model:
            st["outcome"] = "err:" + model["err"]
        else:
            mo = model["ok"]
            st["outcome"] = "inf:" + mo.get("why", "boundary") if "inf" in mo else (
                "diverged" if "diverged" in mo else "value")
        if case["kind"] == "linf":
            st["tol"] = case["tol"]
            if "ok" in model and "val" in model["ok"] and "ok" in impl and "val" in impl["ok"]:
                g, v = F(model["ok"]["val"]), F(impl["ok"]["val"])
                st["tight"] = bool(g and abs(v - g) <= F(1, 10 ** 9) * g)
        else:
            rec = impl.get("rec", {}).get("lyap")
            if rec and rec.get("X") and "ok" in model and "sqrt" in model["ok"]:
                # residual of SciPy's answer in its own equation (sanity of the contract)
                n = case["n"]
                try:
                    A = np.array([float(F(x)) for x in rec["A"]]).reshape(n, n)
                    Q = np.array([float(F(x)) for x in rec["Q"]]).reshape(n, n)
                    X = np.array([float(F(x)) for x in rec["X"]]).reshape(n, n)
                    res = A @ X + X @ A.T + Q if rec["name"] == "lyap" else A @ X @ A.T - X + Q
                    st["lyap_residual_ok"] = bool(np.max(np.abs(res)) <= 1e-9 * max(1.0, np.max(np.abs(X))))
                except Exception:
                    pass
        return st

    # ---- shrinking / search ----------------------------------------------------
    def shrink(self, case):
        n, p, m = case["n"], case["p"], case["m"]
        if any(x != "0" for x in case["D"]):
            yield dict(case, D=["0"] * (p * m))
        if m > 1:
            B = [case["B"][i * m + j] for i in range(n) for j in range(m - 1)]
            D = [case["D"][i * m + j] for i in range(p) for j in range(m - 1)]
            yield dict(case, m=m - 1, B=B, D=D)
        if p > 1:
            yield dict(case, p=p - 1, C=case["C"][:(p - 1) * n], D=case["D"][:(p - 1) * m])
        if case["dt"] not in ("C", "D1"):
            yield dict(case, dt="D1" if is_dtime(case["dt"]) and case["dt"] != "N" else "C")
        if case["kind"] == "linf" and case["tol"] != 1e-2:
            yield dict(case, tol=1e-2)
        for key in ("B", "C"):
            v = case[key]
            for i, x in enumerate(v):
                if x not in ("0", "1"):
                    w = list(v)
                    w[i] = "1"
                    yield dict(case, **{key: w})

    def search(self, rng, case, tier):
        return [self.make(rng, case["kind"], "quick") for _ in range(300)]


FAMILY = C16
