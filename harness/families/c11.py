"""C11 — state-feedback and estimator synthesis: correspondence between control/statefbk.py,
control/stochsys.py (ctrb, obsv, place_acker, place, lqr, dlqr, lqe, dlqe,
create_statefbk_iosystem) and the Lean model `CtrlVerif.Model.StateFbk(Dyn)` (driver family `sf`).

Case kinds (JSON-able; matrices are [rows, cols, [rational tokens row major]]):
  {"op": "ctrb"|"obsv", "A", "B", "t": null|int}
  {"op": "acker", "fn": "place_acker"|"acker"|"place", "A", "B", "poles": [[re, im], ...]}
  {"op": "lqr", "fn": "lqr"|"dlqr", "form": "sys"|"mat", "dt": tok, "A", "B", "Q", "R",
   "N": null|mat, "Ci": null|mat, "Ci_kind": "array"|"list", "chain": bool}
  {"op": "lqe", "fn": "lqe"|"dlqe", "form", "dt", "A", "G", "C", "QN", "RN", "NN": bool}
  {"op": "fbk", "dt", "A", "B", "Cp", "K", "Ci": null|mat}
  {"op": "fbks", "dt", "A", "B" (n x mt), "Cp", "labels": null|[mt names], "outs": null|[n names],
   "ci": null|selector, "si": null|selector (identity forms only), "ctype": "linear"|"nonlinear",
   "K", "Ci"}      create_statefbk_iosystem(..., control_indices=ci): the controller drives a
                   selection of the plant inputs, in the order given
  lqr cases may carry "embed": {"mt", "sel": [plant input of each designed input], "extra": n x (mt-m),
   "names": bool}: the chain is run on a plant with mt inputs, B_full[:, sel] = B, control_indices=sel
selector = ["I", k] | ["N", name] | ["S", a, b, c] | ["L", [["I", k] | ["N", name], ...]] | ["X", kind]
"""
import re
from fractions import Fraction

import numpy as np
import control as ct
import control.statefbk as _sf
import control.stochsys as _st

from core.runner import Family, Verdict, AGREE, VIOLATES, DIFFERS
from core import exact, exmat
from core.exact import fr, tok, Tokens

DT01 = exact.dt_tok(0.1)
TOL_K = Fraction(1, 10 ** 6)        # place_acker / place gains (relative to max(1, |K|))
TOL_P = Fraction(1, 10 ** 6)        # characteristic polynomial of A - B K from the returned gain
TOL_PLACE = Fraction(1, 10 ** 2)    # same for scipy place_poles with several inputs (worst seen 1.7e-6)
MARGINS = {}                        # worst observed errors (for NOTES / tolerance margins)


def _rec(k, v):
    MARGINS[k] = max(MARGINS.get(k, 0.0), float(v))
TOL_CL = Fraction(1, 10 ** 6)       # closed loop matrices (interconnect linearises with eps=1e-6)
TOL_RIC = 1e-6                      # Riccati residual / eigenvalue polynomial (contract validation)


# ---------------------------------------------------------------------------------------------
# matrices
# ---------------------------------------------------------------------------------------------

def M(rows):
    """case encoding of a list-of-lists matrix (cols must be given for empty)"""
    r = len(rows)
    c = len(rows[0]) if r else 0
    return [r, c, [tok(Fraction(x)) for row in rows for x in row]]


def Mrc(r, c, flat):
    return [r, c, [tok(Fraction(x)) for x in flat]]


def mfr(m):
    return exmat.from_flat(m[2], m[0], m[1]) if m[0] and m[1] else [[] for _ in range(m[0])]


def mnp(m):
    return np.array([float(Fraction(x)) for x in m[2]], dtype=float).reshape(m[0], m[1])


def mline(m):
    return "%d %d%s" % (m[0], m[1], "".join(" " + x for x in m[2]))


def optline(m):
    return "0" if m is None else "1 " + mline(m)


def np_enc(a):
    a = np.atleast_2d(np.asarray(a, dtype=float))
    return [a.shape[0], a.shape[1], [tok(fr(x)) for x in a.flatten()]]


def rd_mat(tk):
    r, c = tk.nat(), tk.nat()
    return [r, c, [tk.next() for _ in range(r * c)]]


def mat_close(a, b, tol):
    if a[0] != b[0] or a[1] != b[1]:
        return False
    va = [Fraction(x) for x in a[2]]
    vb = [Fraction(x) for x in b[2]]
    sc = max([Fraction(1)] + [abs(x) for x in vb])
    return all(abs(x - y) <= tol * sc for x, y in zip(va, vb))


def maxerr(a, b):
    va = [Fraction(x) for x in a[2]]
    vb = [Fraction(x) for x in b[2]]
    sc = max([Fraction(1)] + [abs(x) for x in vb])
    return float(max([Fraction(0)] + [abs(x - y) for x, y in zip(va, vb)]) / sc)


def block(rows):
    """np.block on Fraction matrices (lists of lists); blocks given with explicit shapes"""
    out = []
    for brow in rows:
        h = len(brow[0])
        for i in range(h):
            out.append([x for b in brow for x in b[i]])
    return out


def charpoly(Mx):
    """exact characteristic polynomial (highest power first), Faddeev-LeVerrier over Fraction"""
    n = len(Mx)
    c = [Fraction(1)]
    Mk = exmat.eye(n)
    for k in range(1, n + 1):
        AM = exmat.mul(Mx, Mk)
        ck = -sum(AM[i][i] for i in range(n)) / k
        c.append(ck)
        Mk = exmat.add(AM, exmat.scale(ck, exmat.eye(n)))
    return c


def cmul(a, b):
    return (a[0] * b[0] - a[1] * b[1], a[0] * b[1] + a[1] * b[0])


def poly_from_roots(poles):
    """exact numpy.poly over Gaussian rationals: list of (re, im), highest power first"""
    a = [(Fraction(1), Fraction(0))]
    for (re_, im_) in poles:
        z = (Fraction(re_), Fraction(im_))
        nxt = [(Fraction(0), Fraction(0))] * (len(a) + 1)
        for i, c in enumerate(a):
            nxt[i] = (nxt[i][0] + c[0], nxt[i][1] + c[1])
            t = cmul(c, (-z[0], -z[1]))
            nxt[i + 1] = (nxt[i + 1][0] + t[0], nxt[i + 1][1] + t[1])
        a = nxt
    return a


def dt_value(tokn):
    if tokn == "N":
        return None
    if tokn == "T":
        return True
    if tokn == "C":
        return 0
    return float(Fraction(tokn[1:]))


IN_POOL = ["b", "a", "thr", "F", "tau", "c", "u1", "v", "w2", "ail"]
OUT_POOL = ["pos", "vel", "acc", "th", "om", "h", "p1", "q2"]
X_KINDS = {"float": lambda: 1.0, "npint": lambda: np.int64(1), "ndarray": lambda: np.array([1, 0]),
           "tuple": lambda: (1, 0)}


def sel_obj(sel):
    """the Python object a selector stands for"""
    if sel is None:
        return None
    k = sel[0]
    if k in ("I", "N"):
        return sel[1]
    if k == "S":
        return slice(sel[1], sel[2], sel[3])
    if k == "L":
        return [it[1] for it in sel[1]]
    if k == "X":
        return X_KINDS[sel[1]]()
    raise ValueError(k)


def sel_tokens(sel):
    if sel is None:
        return "0"
    k = sel[0]
    if k == "I":
        return "1 I %d" % sel[1]
    if k == "N":
        return "1 N s:" + sel[1]
    if k == "S":
        return "1 S " + " ".join("_" if v is None else str(v) for v in sel[1:4])
    if k == "L":
        return "1 L %d" % len(sel[1]) + "".join(
            " I %d" % it[1] if it[0] == "I" else " N s:" + it[1] for it in sel[1])
    if k == "X":
        return "1 X"
    raise ValueError(k)


def sel_count(sel, labels):
    """number of entries a selector denotes for an axis with these labels (generator only: used to
    give the gain the matching number of rows); None where the selector itself is rejected"""
    n = len(labels)
    if sel is None:
        return n
    k = sel[0]
    if k == "I":
        return sel[1] if sel[1] > 0 else len(list(range(n))[sel[1]:])
    if k == "S":
        if sel[3] == 0:
            return None
        return len(list(range(n))[slice(sel[1], sel[2], sel[3])])
    if k == "L":
        if len(sel[1]) > n or any(it[0] == "N" and it[1] not in labels for it in sel[1]):
            return None
        return len(sel[1])
    return None


def sel_class(sel):
    """coarse class of a selector for features / histogram"""
    if sel is None:
        return "none"
    k = sel[0]
    if k == "L":
        kinds = {it[0] for it in sel[1]}
        neg = any(it[0] == "I" and it[1] < 0 for it in sel[1])
        return "list-" + ("empty" if not kinds else "mixed" if len(kinds) > 1 else
                          "names" if kinds == {"N"} else "negint" if neg else "int")
    return {"I": "int", "N": "name", "S": "slice", "X": "other"}[k]


def classify_exc(e):
    msg = str(e)
    if isinstance(e, ct.exception.ControlDimension):
        return "shape"
    if isinstance(e, ct.exception.ControlArgument):
        return "badArg"
    if isinstance(e, NotImplementedError):
        return "notImplemented"
    if isinstance(e, np.linalg.LinAlgError):
        return "shape" if "square" in msg else "illPosed"
    if isinstance(e, IndexError):
        return "indexRange"
    if isinstance(e, ValueError):
        if "is not in list" in msg:
            return "unknownName"
        if "_indices" in msg or "signal index" in msg:
            return "badArg"
        if "reachable" in msg:
            return "illPosed"
        if "poles" in msg or "eigenvalue" in msg:
            return "badArg"
        return "shape"
    if isinstance(e, TypeError):
        return "badArg"
    return type(e).__name__


def exc_info(e):
    return {"err": classify_exc(e), "exc": "%s: %s" % (type(e).__name__, str(e)[:160])}


def norm_msg(impl):
    if "exc" not in impl:
        return {}
    name, _, msg = impl["exc"].partition(":")
    return {"exc": name, "msg": re.sub(r"[0-9]+", "#", msg.strip())[:60]}


class Recorder:
    """wrap the references control.statefbk / control.stochsys hold to care and dare"""

    def __init__(self, mod):
        self.mod = mod
        self.calls = []

    def __enter__(self):
        self.orig = (self.mod.care, self.mod.dare)

        def wrap(name, f):
            def g(A, B, Q, R=None, S=None, E=None, *a, **kw):
                rec = {"routine": name, "A": np.array(A, dtype=float, ndmin=2),
                       "B": np.array(B, dtype=float, ndmin=2), "Q": np.array(Q, dtype=float, ndmin=2),
                       "R": None if R is None else np.array(R, dtype=float, ndmin=2),
                       "S": None if S is None else np.array(S, dtype=float, ndmin=2),
                       "E": E, "extra": len(a), "ret": None, "raised": None}
                self.calls.append(rec)
                try:
                    ret = f(A, B, Q, R, S, E, *a, **kw)
                except Exception as e:  # noqa
                    rec["raised"] = e
                    raise
                rec["ret"] = ret
                return ret
            return g
        self.mod.care = wrap("care", self.orig[0])
        self.mod.dare = wrap("dare", self.orig[1])
        return self

    def __exit__(self, *a):
        self.mod.care, self.mod.dare = self.orig
        return False


def poly_close(p_impl, p_ref, tol):
    if len(p_impl) != len(p_ref):
        return False
    sc = max([Fraction(1)] + [abs(x) for x in p_ref])
    return all(abs(a - b) <= tol * sc for a, b in zip(p_impl, p_ref))


def eig_poly_ok(E, Mx, tol=TOL_RIC):
    """poly(E) (float) against the exact characteristic polynomial of the Fraction matrix Mx"""
    pe = np.poly(np.asarray(E).ravel()) if len(np.asarray(E).ravel()) else np.array([1.0])
    ref = [float(x) for x in charpoly(Mx)]
    pe = np.atleast_1d(pe)
    if len(pe) != len(ref):
        return False, 1.0
    sc = max(1.0, max(abs(x) for x in ref))
    err = max(abs(complex(a) - b) for a, b in zip(pe, ref)) / sc
    return err <= tol, err


class C11(Family):
    prop = "C11"
    # source-text tie (notes/NOTES-py2lean-statefbk.md): Generated/Sfb*.lean are rewritten from
    # control/statefbk.py / control/stochsys.py on every run; these modules prove model = generated
    extra_modules = ["CtrlVerif.Props.C11GenGram", "CtrlVerif.Props.C11GenAcker", "CtrlVerif.Props.C11GenSpec",
                     "CtrlVerif.Props.C11GenLqr", "CtrlVerif.Props.C11GenLqe",
                     # source-text tie of statesp._ssmatrix (py2lean_ssmat): the argument conversion of ctrb /
                     # obsv / place / place_acker and of the StateSpace constructor = its specification
                     "CtrlVerif.Props.C11GenSsMat",
                     # the 2-D primitive PySfb.ssmatrix of the other C11 ties follows the generated function
                     "CtrlVerif.Props.C11GenSsMatUses"]

    def pre_build(self):
        import os
        from core import py2lean_sfb, leanproj
        problems, self.gen_info = py2lean_sfb.regenerate(os.environ.get("VERIF_REPO") or "/repo", leanproj.LEAN)
        from core import py2lean_ssmat
        p2, i2 = py2lean_ssmat.regenerate(os.environ.get("VERIF_REPO") or "/repo", leanproj.LEAN)
        self.gen_info.update(i2)
        return problems + p2

    externals = [
        "control.mateqn.care / dare (property C10; scipy.linalg.solve_continuous_are / "
        "solve_discrete_are underneath): contract = Riccati equation, gain formula, L = eig(A - B G)",
        "scipy.signal.place_poles (place): contract = eigenvalues of A - B K are the requested ones",
        "numpy.poly, numpy.linalg.solve / matrix_rank (model: exact product of linear factors, "
        "det != 0 and det^-1 * adjugate)",
        "control.interconnect for a plant and one controller (property C07; model: closedLoop)"]
    assumptions = [
        "IEEE arithmetic is exact on the generated small-integer / dyadic data for ctrb, obsv, the "
        "arguments handed to care/dare and the controller matrices (exact equality required); gains "
        "of place_acker/place are compared to 1e-6 relative, closed-loop matrices to 1e-6 "
        "(interconnect obtains them by finite differences, eps = 1e-6)",
        "requested pole sets are closed under conjugation; Riccati problems are generated with "
        "Q > 0, R > 0 so that the stabilising solution exists"]
    rule = ("reachable integer pairs (A,B) of order 1..4(5) with requested real/complex-conjugate poles "
            "for place_acker/place; lqr/dlqr/lqe/dlqe in both call forms and all timebase kinds with "
            "cross weight and integral action; create_statefbk_iosystem with integer gains in both "
            "timebases with/without integral action; the same with control_indices in every accepted "
            "form (int of either sign, slice, list of ints / negative ints / input names in any order, "
            "mostly not increasing) on plants with 1..4 named or default-named inputs of which the "
            "controller drives a selection, linear and (continuous time) nonlinear controller type, and "
            "the rejected selectors; lqr/dlqr designs for B[:, sel] closed on the full plant with "
            "control_indices = sel; a case is non-trivial when the order is >= 2 or a "
            "non-default option (cross weight, integral action, horizon, complex poles, a selection other "
            "than all inputs in order) is used")

    # ---- generation ------------------------------------------------------------------------
    def rmat(self, rng, r, c, lo=-3, hi=3, sparse=0.0):
        return [[(0 if rng.random() < sparse else rng.randint(lo, hi)) for _ in range(c)] for _ in range(r)]

    @staticmethod
    def is_reachable(A, B):
        n = len(A)
        Af = [[Fraction(x) for x in r] for r in A]
        Bf = [[Fraction(x) for x in r] for r in B]
        blocks = [Bf]
        for _k in range(1, n):
            blocks.append(exmat.mul(Af, blocks[-1]))
        Cm = [[x for b in blocks for x in b[i]] for i in range(n)]
        G = exmat.mul(Cm, [list(r) for r in zip(*Cm)])
        return exmat.det(G) != 0

    def reachable_pair(self, rng, n, m, want=True):
        for _ in range(200):
            A = self.rmat(rng, n, n, sparse=0.3)
            B = self.rmat(rng, n, m, -2, 2)
            if self.is_reachable(A, B) == want:
                return A, B
        return A, B

    def unreachable_pair(self, rng, n, m):
        kind = rng.choice(["zeroB", "scalarA", "decoupled"])
        if kind == "zeroB" or n == 1:
            return self.rmat(rng, n, n), [[0] * m for _ in range(n)]
        if kind == "scalarA":
            c = rng.randint(-2, 2)
            return [[c if i == j else 0 for j in range(n)] for i in range(n)], self.rmat(rng, n, m, -2, 2)
        A = self.rmat(rng, n, n)
        B = self.rmat(rng, n, m, -2, 2)
        for j in range(n - 1):
            A[n - 1][j] = 0
        B[n - 1] = [0] * m
        return A, B

    def poles(self, rng, n, complex_ok=True, maxmult=None):
        out = []
        while len(out) < n:
            if complex_ok and n - len(out) >= 2 and rng.random() < 0.4:
                a = Fraction(rng.randint(-8, 2), rng.choice([1, 1, 2]))
                b = Fraction(rng.randint(1, 6), rng.choice([1, 1, 2]))
                out += [[tok(a), tok(b)], [tok(a), tok(-b)]]
            else:
                out.append([tok(Fraction(rng.randint(-10, 3), rng.choice([1, 1, 2, 4]))), "0"])
        if maxmult is not None:
            # scipy's place_poles refuses a pole repeated more than rank(B) times
            seen = {}
            fixed = []
            for p in out:
                k = (p[0], p[1])
                seen[k] = seen.get(k, 0) + 1
                if seen[k] > maxmult:
                    return self.poles(rng, n, complex_ok, maxmult)
                fixed.append(p)
            out = fixed
        rng.shuffle(out)
        return out

    def spd(self, rng, n, integer=True):
        """symmetric positive definite integer matrix: L L^T + diag"""
        L = self.rmat(rng, n, n, -1, 1, sparse=0.5)
        Q = [[sum(L[i][k] * L[j][k] for k in range(n)) + (rng.randint(1, 3) if i == j else 0)
              for j in range(n)] for i in range(n)]
        return Q

    def gen_gram(self, rng):
        n = rng.choice([1, 2, 2, 3, 3, 4])
        m = rng.choice([1, 1, 2, 3])
        op = rng.choice(["ctrb", "obsv"])
        A = self.rmat(rng, n, n)
        B = self.rmat(rng, n, m) if op == "ctrb" else self.rmat(rng, m, n)
        t = rng.choice([None, None, 1, 2, n, n + 2, 3])
        r = rng.random()
        if r < 0.06:
            A = self.rmat(rng, n, n + 1)
        elif r < 0.12:
            B = self.rmat(rng, n + 1, m) if op == "ctrb" else self.rmat(rng, m, n + 1)
        elif r < 0.15:
            t = 0
        return {"op": op, "A": M(A), "B": M(B) if m and n else Mrc(len(B), len(B[0]) if B else 0, []), "t": t}

    def gen_acker(self, rng, tier):
        n = rng.choice([1, 2, 2, 3, 3, 4] if tier == "quick" else [1, 2, 3, 3, 4, 4, 5])
        fn = rng.choice(["place_acker", "place_acker", "acker", "place", "place"])
        r = rng.random()
        m = 1
        if fn == "place" and rng.random() < 0.5 and n >= 2:
            m = rng.choice([2, 2, 3])
        if fn != "place" and r < 0.05:
            m = 2
        if r < 0.12 and fn != "place":
            A, B = self.unreachable_pair(rng, n, m)
        else:
            A, B = self.reachable_pair(rng, n, m)
        npoles = n
        if fn != "place" and 0.12 <= r < 0.2:
            npoles = max(1, n + rng.choice([-1, 1, 2])) if n > 1 else 2
        if fn == "place":
            Bf = [[Fraction(x) for x in row] for row in B]
            rank = np.linalg.matrix_rank(np.array(B, dtype=float))
            poles = self.poles(rng, npoles, maxmult=max(1, int(rank)))
        else:
            poles = self.poles(rng, npoles)
        case = {"op": "acker", "fn": fn, "A": M(A), "B": M(B), "poles": poles}
        if r > 0.97 and fn != "place":
            case["A"] = M(self.rmat(rng, n, n + 1))
        return case

    def gen_lqr(self, rng, tier):
        n = rng.choice([1, 2, 2, 3] if tier == "quick" else [1, 2, 2, 3, 3, 4])
        m = rng.choice([1, 1, 2])
        fn = rng.choice(["lqr", "lqr", "dlqr"])
        form = rng.choice(["sys", "sys", "mat"])
        if form == "sys":
            dt = rng.choice(["C", "C", "T", DT01, "N", "D1/4"])
        else:
            dt = "M"
        A, B = self.reachable_pair(rng, n, m)
        q = 0
        Ci = None
        if rng.random() < 0.5:
            q = rng.choice([1, 1, 2]) if n > 1 else 1
            q = min(q, m)          # more integrators than inputs cannot be stabilised
            # the augmented pair must be reachable in both timebases (else no stabilising solution)
            for _ in range(100):
                Ci = self.rmat(rng, q, n, -1, 1)
                ok = True
                for J in (0, 1):
                    Aa = [A[i] + [0] * q for i in range(n)] + \
                         [Ci[i] + [J * int(i == j) for j in range(q)] for i in range(q)]
                    Ba = B + [[0] * m for _ in range(q)]
                    ok = ok and self.is_reachable(Aa, Ba)
                if ok:
                    break
            else:
                q, Ci = 0, None
        Q = self.spd(rng, n + q)
        R = self.spd(rng, m)
        N = None
        if rng.random() < 0.35:
            N = self.rmat(rng, n + q, m, -1, 1, sparse=0.5)
            # keep [[Q, N], [N^T, R]] positive definite: scale the weights up
            Q = [[Q[i][j] + (4 * m if i == j else 0) for j in range(n + q)] for i in range(n + q)]
            R = [[R[i][j] + (4 * (n + q) if i == j else 0) for j in range(m)] for i in range(m)]
        case = {"op": "lqr", "fn": fn, "form": form, "dt": dt, "A": M(A), "B": M(B), "Q": M(Q), "R": M(R),
                "N": None if N is None else M(N), "Ci": None if Ci is None else M(Ci),
                "Ci_kind": "array", "chain": form == "sys"}
        r = rng.random()
        if r < 0.04:
            case["Q"] = M(self.spd(rng, n + q + 1))
        elif r < 0.08 and n + q > 1:
            Qb = [row[:] for row in Q]
            Qb[0][1] += 1
            case["Q"] = M(Qb)
        elif r < 0.11 and Ci is not None:
            case["Ci"] = M(self.rmat(rng, q, n + 1, -1, 1))
        elif r < 0.13 and Ci is not None:
            case["Ci_kind"] = "list"
        elif r < 0.16:
            case["R"] = M(self.spd(rng, m + 1))
        elif r < 0.18 and N is not None:
            case["N"] = M(self.rmat(rng, n + q, m + 1, -1, 1))
        return case

    def gen_lqe(self, rng, tier):
        n = rng.choice([1, 2, 2, 3] if tier == "quick" else [1, 2, 2, 3, 3, 4])
        g = rng.choice([1, 1, 2])
        o = rng.choice([1, 1, 2])
        fn = rng.choice(["lqe", "lqe", "dlqe"])
        form = rng.choice(["sys", "mat", "mat"])
        dt = rng.choice(["C", "C", "T", DT01, "N"]) if form == "sys" else "M"
        # (A^T, C^T) reachable <=> (A, C) observable; (A, G) reachable for a definite G QN G^T
        At, Ct = self.reachable_pair(rng, n, o)
        A = [list(r) for r in zip(*At)]
        C = [list(r) for r in zip(*Ct)]
        for _ in range(200):
            G = self.rmat(rng, n, g, -2, 2)
            if self.is_reachable(A, G):
                break
        else:
            G = [[int(i == j) for j in range(n)] for i in range(n)]
            g = n
        case = {"op": "lqe", "fn": fn, "form": form, "dt": dt, "A": M(A), "G": M(G), "C": M(C),
                "QN": M(self.spd(rng, g)), "RN": M(self.spd(rng, o)), "NN": False}
        r = rng.random()
        if r < 0.05:
            case["NN"] = True
        elif r < 0.1:
            case["QN"] = M(self.spd(rng, g + 1))
        elif r < 0.15:
            case["RN"] = M(self.spd(rng, o + 1))
        elif r < 0.18 and o > 1:
            Rb = mfr(case["RN"])
            Rb[0][1] += 1
            case["RN"] = M(Rb)
        return case

    def gen_fbk(self, rng, tier):
        n = rng.choice([1, 2, 2, 3] if tier == "quick" else [1, 2, 3, 3, 4])
        m = rng.choice([1, 1, 2])
        dt = rng.choice(["C", "C", "T", DT01, "N", "D1/4"])
        A = self.rmat(rng, n, n)
        B = self.rmat(rng, n, m, -2, 2)
        Cp = [[int(i == j) for j in range(n)] for i in range(n)]
        if rng.random() < 0.15:
            Cp = self.rmat(rng, n, n, -2, 2)
        q = 0
        Ci = None
        if rng.random() < 0.6:
            q = rng.choice([1, 1, 2])
            Ci = self.rmat(rng, q, n, -2, 2)
        Kg = self.rmat(rng, m, n + q, -4, 4)
        if rng.random() < 0.15:
            Kg = [[Fraction(x, 2) for x in row] for row in Kg]
        case = {"op": "fbk", "dt": dt, "A": M(A), "B": M(B), "Cp": M(Cp), "K": M(Kg),
                "Ci": None if Ci is None else M(Ci)}
        r = rng.random()
        if r < 0.05:
            case["K"] = M(self.rmat(rng, m, n + q + 1, -4, 4))
        elif r < 0.08 and Ci is not None:
            case["Ci"] = M(self.rmat(rng, q, n + 1, -2, 2))
        return case

    def gen_selector(self, rng, labels):
        """a `control_indices` value for a plant with these input labels: every accepted form
        (None, int of either sign, slice, list of ints / negative ints / names / both, in any
        order) and the rejected ones (repeated or non-existent input, list too long, unknown
        name, zero step, objects that are no selector)"""
        mt = len(labels)
        r = rng.random()
        if r < 0.08:
            return None
        if r < 0.16:
            return ["I", rng.randint(-mt - 1, mt + 1)]
        if r < 0.28:
            ends = [None, None] + list(range(-mt - 1, mt + 2))
            return ["S", rng.choice(ends), rng.choice(ends),
                    rng.choice([None, None, 1, -1, -1, 2, -2, 0] if rng.random() < 0.15 else
                               [None, None, 1, -1, -1, 2, -2])]
        if r < 0.88:
            k = rng.choice(list(range(1, mt + 1)) + list(range(2, mt + 1))) if rng.random() < 0.97 else 0
            idx = rng.sample(range(mt), k)
            if k >= 2 and idx == sorted(idx) and rng.random() < 0.85:
                idx = idx[::-1] if rng.random() < 0.5 else idx[1:] + idx[:1]
            style = rng.choice(["int", "int", "int", "names", "mixed", "neg"])
            items = []
            for i in idx:
                if style == "names" or (style == "mixed" and rng.random() < 0.5):
                    items.append(["N", labels[i]])
                elif style == "neg" and rng.random() < 0.6:
                    items.append(["I", i - mt])
                else:
                    items.append(["I", i])
            return ["L", items]
        # rejected selectors
        kind = rng.choice(["dup", "dup", "dup", "range", "range", "long", "name", "bare", "X"])
        if kind == "dup":
            i = rng.randrange(mt)
            items = [["I", i], rng.choice([["I", i], ["I", i - mt], ["N", labels[i]]])]
            if mt > 2 and rng.random() < 0.5:
                items.insert(rng.randint(0, 2), ["I", (i + 1) % mt])
            return ["L", items]
        if kind == "range":
            items = [["I", i] for i in rng.sample(range(mt), rng.randint(0, mt - 1))]
            items.insert(rng.randint(0, len(items)), ["I", rng.choice([mt, mt + 1, -mt - 1, -mt - 2])])
            return ["L", items]
        if kind == "long":
            return ["L", [["I", i % mt] for i in range(mt + 1)]]
        if kind == "name":
            return ["L", [["N", "zz"]] + [["I", 0]] * rng.randint(0, min(1, mt - 1))]
        if kind == "bare":
            return ["N", labels[0]]
        return ["X", rng.choice(sorted(X_KINDS))]

    def gen_fbks(self, rng, tier):
        n = rng.choice([1, 2, 2, 3] if tier == "quick" else [1, 2, 3, 3, 4])
        mt = rng.choice([1, 2, 2, 3, 3, 4])
        dt = rng.choice(["C", "C", "T", DT01, "N", "D1/4"])
        A = self.rmat(rng, n, n)
        B = self.rmat(rng, n, mt, -2, 2)
        Cp = [[int(i == j) for j in range(n)] for i in range(n)]
        if rng.random() < 0.1:
            Cp = self.rmat(rng, n, n, -2, 2)
        labels = rng.sample(IN_POOL, mt) if rng.random() < 0.5 else None
        outs = rng.sample(OUT_POOL, n) if rng.random() < 0.3 else None
        lab = labels or ["u[%d]" % i for i in range(mt)]
        ci = self.gen_selector(rng, lab)
        m = sel_count(ci, lab)
        if m is None or m > 6:
            m = rng.randint(1, mt)
        elif ci is not None and ci[0] == "L" and rng.random() < 0.5:
            # a list that names an input twice: also with one gain row per *distinct* input
            norm = {(it[1] % mt if -mt <= it[1] < mt else it[1]) if it[0] == "I" else lab.index(it[1])
                    for it in ci[1]}
            if len(norm) < len(ci[1]):
                m = max(1, len(norm))
        q = 0
        Ci = None
        if rng.random() < 0.5:
            q = rng.choice([1, 1, 2])
            Ci = self.rmat(rng, q, n, -2, 2)
        Kg = self.rmat(rng, m, n + q, -4, 4)
        if rng.random() < 0.15:
            Kg = [[Fraction(x, 2) for x in row] for row in Kg]
        ctype = "nonlinear" if dt == "C" and rng.random() < 0.3 else "linear"
        si = None
        if rng.random() < 0.15:
            # forms of state_indices that denote "all states, in order"
            si = rng.choice([["I", n], ["L", [["I", i] for i in range(n)]], ["S", None, None, None],
                             ["L", [["N", "x[%d]" % i] for i in range(n)]], ["I", -n]])
        case = {"op": "fbks", "dt": dt, "A": M(A), "B": Mrc(n, mt, [x for r_ in B for x in r_]),
                "Cp": M(Cp), "labels": labels, "outs": outs, "ci": ci, "si": si, "ctype": ctype,
                "K": Mrc(m, n + q, [x for r_ in Kg for x in r_]), "Ci": None if Ci is None else M(Ci)}
        r = rng.random()
        if r < 0.04:
            case["K"] = M(self.rmat(rng, m + 1, n + q, -4, 4))
        elif r < 0.06:
            case["K"] = M(self.rmat(rng, max(m, 1), n + q + 1, -4, 4))
        elif r < 0.08 and Ci is not None:
            case["Ci"] = M(self.rmat(rng, q, n + 1, -2, 2))
        return case

    def embed(self, rng, case):
        """run the chain of an lqr case on a plant with more inputs than the design used, and/or
        with the designed inputs listed in another order: B_full[:, sel] = B"""
        n, m = case["A"][0], case["B"][1]
        mt = m + rng.choice([0, 0, 1, 2])
        sel = rng.sample(range(mt), m)
        if m >= 2 and sel == sorted(sel) and rng.random() < 0.8:
            sel = sel[::-1]
        extra = self.rmat(rng, n, mt - m, -2, 2)
        case["embed"] = {"mt": mt, "sel": sel, "names": rng.random() < 0.3,
                         "extra": Mrc(n, mt - m, [x for r_ in extra for x in r_])}

    def generate(self, rng, tier):
        n = 800 if tier == "quick" else 6000
        out = []
        for i in range(n):
            k = i % 10
            if k < 1:
                out.append(self.gen_gram(rng))
            elif k < 5:
                out.append(self.gen_acker(rng, tier))
            elif k < 7:
                out.append(self.gen_lqr(rng, tier))
            elif k < 8:
                out.append(self.gen_lqe(rng, tier))
            else:
                out.append(self.gen_fbk(rng, tier))
        # selector streams (control_indices): drawn after the streams above
        for c in out:
            if c["op"] == "lqr" and c.get("chain") and rng.random() < 0.5:
                self.embed(rng, c)
        for _ in range(n // 4):
            out.append(self.gen_fbks(rng, tier))
        return out

    def corpus(self):
        A2 = M([[0, 1], [-2, -3]])
        b2 = M([[0], [1]])
        return [
            {"op": "acker", "fn": "place_acker", "A": A2, "B": b2, "poles": [["-2", "0"], ["-5", "0"]]},
            {"op": "acker", "fn": "place_acker", "A": A2, "B": b2, "poles": [["-1", "2"], ["-1", "-2"]]},
            # more / fewer requested poles than states
            {"op": "acker", "fn": "place_acker", "A": A2, "B": b2,
             "poles": [["-2", "0"], ["-5", "0"], ["-6", "0"]]},
            {"op": "acker", "fn": "place_acker", "A": A2, "B": b2, "poles": [["-3", "0"]]},
            {"op": "lqr", "fn": "lqr", "form": "sys", "dt": "T", "A": A2, "B": b2,
             "Q": M([[1, 0, 0], [0, 1, 0], [0, 0, 1]]), "R": M([[1]]), "N": None, "Ci": M([[1, 0]]),
             "Ci_kind": "array", "chain": True},
            {"op": "lqr", "fn": "lqr", "form": "sys", "dt": "C", "A": A2, "B": b2,
             "Q": M([[1, 0, 0], [0, 1, 0], [0, 0, 1]]), "R": M([[1]]), "N": None, "Ci": M([[1, 0]]),
             "Ci_kind": "array", "chain": True},
            {"op": "fbk", "dt": "T", "A": A2, "B": b2, "Cp": M([[1, 0], [0, 1]]), "K": M([[1, 2, 3]]),
             "Ci": M([[1, 0]])},
            # control_indices in decreasing order: row 0 of K drives input 1
            {"op": "fbks", "dt": "C", "A": A2, "B": M([[1, 0], [0, 1]]), "Cp": M([[1, 0], [0, 1]]),
             "labels": None, "outs": None, "ci": ["L", [["I", 1], ["I", 0]]], "si": None,
             "ctype": "linear", "K": M([[1, 2], [3, 4]]), "Ci": None},
            {"op": "fbks", "dt": "T", "A": A2, "B": M([[1, 0, 2], [0, 1, -1]]), "Cp": M([[1, 0], [0, 1]]),
             "labels": ["b", "a", "thr"], "outs": None, "ci": ["L", [["N", "thr"], ["I", -3]]], "si": None,
             "ctype": "linear", "K": M([[1, 2, 5], [3, 4, 6]]), "Ci": M([[1, 0]])},
            # design for B[:, [1, 0]] with unequal input weights, closed loop on the full plant
            {"op": "lqr", "fn": "lqr", "form": "sys", "dt": "C", "A": M([[0, 1, 0], [0, 0, 1], [1, -2, 1]]),
             "B": M([[1, 0], [0, 1], [2, 1]]), "Q": M([[1, 0, 0], [0, 2, 0], [0, 0, 3]]),
             "R": M([[1, 0], [0, 25]]), "N": None, "Ci": None, "Ci_kind": "array", "chain": True,
             "embed": {"mt": 2, "sel": [1, 0], "names": False, "extra": Mrc(3, 0, [])}},
        ]

    # ---- driver line -------------------------------------------------------------------------
    def line(self, c):
        op = c["op"]
        if op in ("ctrb", "obsv"):
            return "sf %s %s %s %s" % (op, mline(c["A"]), mline(c["B"]), "N" if c["t"] is None else c["t"])
        if op == "acker":
            return "sf acker %s %s %d %s" % (mline(c["A"]), mline(c["B"]), len(c["poles"]),
                                             " ".join(p[0] + " " + p[1] for p in c["poles"]))
        if op == "lqr":
            A, B = c["A"], c["B"]
            return "sf lqr %s %s %d %d %s %s %s %s %s %s" % (
                c["fn"], c["dt"], A[0], B[1], " ".join(A[2]), " ".join(B[2]), mline(c["Q"]), mline(c["R"]),
                optline(c["N"]),
                "0" if c["Ci"] is None else ("1 " if c["Ci_kind"] == "array" else "2 ") + mline(c["Ci"]))
        if op == "lqe":
            A, G, C = c["A"], c["G"], c["C"]
            return "sf lqe %s %s %d %d %d %s %s %s %s %s %d" % (
                c["fn"], c["dt"], A[0], G[1], C[0], " ".join(A[2]), " ".join(G[2]), " ".join(C[2]),
                mline(c["QN"]), mline(c["RN"]), 1 if c["NN"] else 0)
        if op == "fbk":
            A, B = c["A"], c["B"]
            return "sf fbk %s %d %d %s %s %s %s %s" % (
                c["dt"], A[0], B[1], " ".join(A[2]), " ".join(B[2]), " ".join(c["Cp"][2]), mline(c["K"]),
                optline(c["Ci"]))
        if op == "fbks":
            A, B = c["A"], c["B"]
            return "sf fbks %s %d %d %s %s %s %s %s %s %s" % (
                c["dt"], A[0], B[1], " ".join(A[2]), " ".join(B[2]), " ".join(c["Cp"][2]),
                " ".join("s:" + x for x in self.in_labels(c)), sel_tokens(c["ci"]), mline(c["K"]),
                optline(c["Ci"]))
        raise ValueError(op)

    @staticmethod
    def in_labels(c):
        return c["labels"] or ["u[%d]" % i for i in range(c["B"][1])]

    def parse_model(self, c, out):
        if out.startswith("err "):
            return {"err": out.split()[1]}
        tk = Tokens(out)
        assert tk.next() == "ok"
        op = c["op"]
        if op in ("ctrb", "obsv"):
            return {"ok": {"M": rd_mat(tk)}}
        if op == "acker":
            imz = tk.next()
            k = tk.nat()
            return {"ok": {"imzero": imz.endswith("1"), "K": [1, k, [tk.next() for _ in range(k)]]}}
        if op == "lqr":
            o = {"routine": tk.next(), "q": tk.nat()}
            for nm in ("A", "B", "Q", "R"):
                o[nm] = rd_mat(tk)
            o["S"] = rd_mat(tk) if tk.nat() == 1 else None
            return {"ok": o}
        if op == "lqe":
            o = {"routine": tk.next()}
            for nm in ("A", "B", "Q", "R"):
                o[nm] = rd_mat(tk)
            tk.nat()
            o["S"] = None
            return {"ok": o}
        if op == "fbk":
            o = {"q": tk.nat()}
            for nm in ("cA", "cB", "cC", "cD", "A", "B", "C", "D"):
                o[nm] = rd_mat(tk)
            return {"ok": o}
        if op == "fbks":
            o = {"q": tk.nat()}
            m, r = tk.nat(), tk.nat()
            o["sel"] = [tk.nat() for _ in range(m)]
            o["rest"] = [tk.nat() for _ in range(r)]
            for nm in ("cA", "cB", "cC", "cD", "A", "B", "C", "D"):
                o[nm] = rd_mat(tk)
            return {"ok": o}
        raise ValueError(op)

    # ---- implementation ----------------------------------------------------------------------
    def impl(self, c):
        try:
            return getattr(self, "impl_" + c["op"])(c)
        except Exception as e:  # noqa
            return exc_info(e)

    def impl_ctrb(self, c):
        r = ct.ctrb(mnp(c["A"]), mnp(c["B"]), t=c["t"])
        return {"ok": {"M": np_enc(r)}}

    def impl_obsv(self, c):
        r = ct.obsv(mnp(c["A"]), mnp(c["B"]), t=c["t"])
        return {"ok": {"M": np_enc(r)}}

    def impl_acker(self, c):
        A, B = mnp(c["A"]), mnp(c["B"])
        poles = [complex(float(Fraction(p[0])), float(Fraction(p[1]))) for p in c["poles"]]
        if all(p.imag == 0 for p in poles):
            poles = [p.real for p in poles]
        f = {"place_acker": ct.place_acker, "acker": ct.acker, "place": ct.place}[c["fn"]]
        import warnings as _w
        with _w.catch_warnings(record=True) as wl:
            _w.simplefilter("always")
            Kv = f(A, B, poles)
        Kv = np.asarray(Kv)
        shape = list(Kv.shape)
        K2 = np.atleast_2d(Kv)
        o = {"K": np_enc(K2), "shape": shape}
        if any("onvergence" in str(x.message) for x in wl):
            o["not_converged"] = True      # scipy.signal.place_poles reports that it failed
        return {"ok": o}

    def build_sys(self, A, B, C, dt):
        n = A.shape[0]
        return ct.ss(A, B, C, np.zeros((C.shape[0], B.shape[1])), dt_value(dt))

    def impl_lqr(self, c):
        A, B, Q, R = mnp(c["A"]), mnp(c["B"]), mnp(c["Q"]), mnp(c["R"])
        n = A.shape[0]
        args = []
        sys = None
        if c["form"] == "sys":
            sys = self.build_sys(A, B, np.eye(n), c["dt"])
            args = [sys, Q, R]
        else:
            args = [A, B, Q, R]
        if c["N"] is not None:
            args.append(mnp(c["N"]))
        kw = {}
        if c["Ci"] is not None:
            Ci = mnp(c["Ci"])
            kw["integral_action"] = Ci if c["Ci_kind"] == "array" else Ci.tolist()
        f = ct.lqr if c["fn"] == "lqr" else ct.dlqr
        with Recorder(_sf) as rec:
            try:
                K, S, E = f(*args, **kw)
            except Exception as e:  # noqa
                if rec.calls and rec.calls[-1]["raised"] is e and \
                        isinstance(e, np.linalg.LinAlgError):
                    return {"ok": self.rec_enc(rec.calls[-1]), "solver_raised": str(e)[:100]}
                raise
        call = rec.calls[-1]
        o = self.rec_enc(call)
        X, L, G = call["ret"]
        o["ret_identity"] = bool(K is G or np.array_equal(K, G)) and bool(np.array_equal(S, X)) \
            and bool(np.array_equal(np.asarray(E), np.asarray(L)))
        o["K"] = np_enc(K)
        o["S"] = np_enc(S)
        o["E"] = [[float(np.real(e)), float(np.imag(e))] for e in np.asarray(E).ravel()]
        res = {"ok": o}
        # the closed loop is assembled only where design and plant agree on the timebase kind
        # (dlqr on a plant with dt=None designs in discrete time, create_statefbk_iosystem reads
        # dt=None as continuous: not a combination the property speaks about)
        if c.get("chain") and sys is not None and \
                (call["routine"] == "dare") == (c["dt"] not in ("C", "N")):
            try:
                kw2 = {}
                if c["Ci"] is not None:
                    kw2["integral_action"] = mnp(c["Ci"])
                plant = sys
                emb = c.get("embed")
                if emb:
                    # the plant has mt inputs, the design used its inputs emb["sel"] in this order
                    Bf = np.zeros((n, emb["mt"]))
                    Bf[:, emb["sel"]] = B
                    free = [j for j in range(emb["mt"]) if j not in emb["sel"]]
                    Bf[:, free] = mnp(emb["extra"])
                    plant = self.build_sys(A, Bf, np.eye(n), c["dt"])
                    kw2["control_indices"] = [plant.input_labels[j] for j in emb["sel"]] \
                        if emb["names"] else list(emb["sel"])
                ctrl, clsys = ct.create_statefbk_iosystem(plant, np.asarray(K), **kw2)
                o["clA"] = np_enc(clsys.A)
                o["cl_dt"] = exact.dt_canon(clsys.dt)
            except Exception as e:  # noqa
                o["chain_exc"] = "%s: %s" % (type(e).__name__, str(e)[:120])
        return res

    def rec_enc(self, call):
        o = {"routine": call["routine"]}
        for nm in ("A", "B", "Q", "R"):
            o["arg" + nm] = None if call[nm] is None else np_enc(call[nm])
        o["argS"] = None if call["S"] is None else np_enc(call["S"])
        o["argE"] = call["E"] is not None
        o["extra"] = call["extra"]
        return o

    def impl_lqe(self, c):
        A, G, C = mnp(c["A"]), mnp(c["G"]), mnp(c["C"])
        QN, RN = mnp(c["QN"]), mnp(c["RN"])
        n = A.shape[0]
        if c["form"] == "sys":
            sys = ct.ss(A, G, C, np.zeros((C.shape[0], G.shape[1])), dt_value(c["dt"]))
            args = [sys, QN, RN]
        else:
            args = [A, G, C, QN, RN]
        if c["NN"]:
            args.append(np.zeros((G.shape[1], C.shape[0])))
        f = ct.lqe if c["fn"] == "lqe" else ct.dlqe
        with Recorder(_st) as rec:
            try:
                L, P, E = f(*args)
            except Exception as e:  # noqa
                if rec.calls and rec.calls[-1]["raised"] is e and \
                        isinstance(e, np.linalg.LinAlgError):
                    return {"ok": self.rec_enc(rec.calls[-1]), "solver_raised": str(e)[:100]}
                raise
        call = rec.calls[-1]
        o = self.rec_enc(call)
        X, Lc, Gc = call["ret"]
        o["ret_identity"] = bool(np.array_equal(L, np.asarray(Gc).T)) and bool(np.array_equal(P, X)) \
            and bool(np.array_equal(np.asarray(E), np.asarray(Lc)))
        o["K"] = np_enc(L)
        o["S"] = np_enc(P)
        o["E"] = [[float(np.real(e)), float(np.imag(e))] for e in np.asarray(E).ravel()]
        return {"ok": o}

    def impl_fbk(self, c):
        A, B, Cp, Kg = mnp(c["A"]), mnp(c["B"]), mnp(c["Cp"]), mnp(c["K"])
        sys = self.build_sys(A, B, Cp, c["dt"])
        kw = {}
        if c["Ci"] is not None:
            kw["integral_action"] = mnp(c["Ci"])
        ctrl, clsys = ct.create_statefbk_iosystem(sys, Kg, **kw)
        o = {"q": ctrl.nstates, "ctrl_dt": exact.dt_canon(ctrl.dt), "cl_dt": exact.dt_canon(clsys.dt),
             "cl_type": type(clsys).__name__, "ctrl_type": type(ctrl).__name__}
        q, m, n = ctrl.nstates, ctrl.noutputs, sys.nstates
        shapes = {"cA": (q, q), "cB": (q, ctrl.ninputs), "cC": (m, q), "cD": (m, ctrl.ninputs)}
        for nm, mat in (("cA", ctrl.A), ("cB", ctrl.B), ("cC", ctrl.C), ("cD", ctrl.D)):
            o[nm] = exmat_enc(mat, *shapes[nm])
        N = clsys.nstates
        shapes = {"A": (N, N), "B": (N, clsys.ninputs), "C": (clsys.noutputs, N),
                  "D": (clsys.noutputs, clsys.ninputs)}
        for nm, mat in (("A", clsys.A), ("B", clsys.B), ("C", clsys.C), ("D", clsys.D)):
            o[nm] = exmat_enc(mat, *shapes[nm])
        return {"ok": o}

    def impl_fbks(self, c):
        A, B, Cp, Kg = mnp(c["A"]), mnp(c["B"]), mnp(c["Cp"]), mnp(c["K"])
        n, mt = A.shape[0], B.shape[1]
        names = {"inputs": self.in_labels(c)}
        if c["outs"]:
            names["outputs"] = list(c["outs"])
        sys = ct.ss(A, B, Cp, np.zeros((n, mt)), dt_value(c["dt"]), **names)
        kw = {}
        if c["Ci"] is not None:
            kw["integral_action"] = mnp(c["Ci"])
        if c["ci"] is not None:
            kw["control_indices"] = sel_obj(c["ci"])
        if c["si"] is not None:
            kw["state_indices"] = sel_obj(c["si"])
        if c["ctype"] != "linear":
            kw["controller_type"] = c["ctype"]
        import warnings as _w
        with _w.catch_warnings():
            _w.simplefilter("ignore")
            ctrl, clsys = ct.create_statefbk_iosystem(sys, Kg, **kw)
            lin_c, lin_cl = ctrl, clsys
            if c["ctype"] != "linear":
                # same law as a nonlinear I/O system: compared through its linearisation at the origin
                lin_c = ctrl.linearize(np.zeros(ctrl.nstates), np.zeros(ctrl.ninputs))
                lin_cl = clsys.linearize(np.zeros(clsys.nstates), np.zeros(clsys.ninputs))
        o = {"q": ctrl.nstates, "ctrl_dt": exact.dt_canon(ctrl.dt), "cl_dt": exact.dt_canon(clsys.dt),
             "cl_type": type(clsys).__name__, "ctrl_type": type(ctrl).__name__,
             "ctrl_in": list(ctrl.input_labels), "ctrl_out": list(ctrl.output_labels),
             "cl_in": list(clsys.input_labels), "cl_out": list(clsys.output_labels)}
        q, m = ctrl.nstates, ctrl.noutputs
        shapes = {"cA": (q, q), "cB": (q, ctrl.ninputs), "cC": (m, q), "cD": (m, ctrl.ninputs)}
        for nm, mat in (("cA", lin_c.A), ("cB", lin_c.B), ("cC", lin_c.C), ("cD", lin_c.D)):
            o[nm] = exmat_enc(mat, *shapes[nm])
        N = clsys.nstates
        shapes = {"A": (N, N), "B": (N, clsys.ninputs), "C": (clsys.noutputs, N),
                  "D": (clsys.noutputs, clsys.ninputs)}
        for nm, mat in (("A", lin_cl.A), ("B", lin_cl.B), ("C", lin_cl.C), ("D", lin_cl.D)):
            o[nm] = exmat_enc(mat, *shapes[nm])
        return {"ok": o}

    # ---- comparison --------------------------------------------------------------------------
    def feat(self, c, kind, impl=None, **kw):
        f = {"op": c["op"], "kind": kind}
        if "fn" in c:
            f["fn"] = c["fn"]
        if impl is not None:
            f.update(norm_msg(impl))
        f.update(kw)
        return f

    def compare(self, c, impl, model):
        op = c["op"]
        if op == "acker" and c["fn"] == "place" and c["B"][1] != 1 and "ok" in impl \
                and model.get("err") == "shape":
            # several inputs: the gain is not unique, Ackermann does not apply; only the property
            # itself (charpoly of A - B K) is evaluated -- validation of scipy's contract
            return self.cmp_acker(c, impl["ok"], None, impl)
        if "err" in model:
            if "err" in impl:
                return Verdict(AGREE)
            if "solver_raised" in impl:
                return Verdict(AGREE)
            return getattr(self, "returns_" + op, self.returns_default)(c, impl, model)
        if "err" in impl:
            extra = self.sel_feat(c, model["ok"]) if op == "fbks" else {}
            return Verdict(VIOLATES, "implementation raises %s where the model returns" % impl["exc"],
                           self.feat(c, "raises", impl, **extra))
        return getattr(self, "cmp_" + op)(c, impl["ok"], model["ok"], impl)

    def returns_default(self, c, impl, model):
        return Verdict(VIOLATES, "a result was returned where the model raises %s" % model["err"],
                       self.feat(c, "returns-" + model["err"]))

    def returns_acker(self, c, impl, model):
        n = c["A"][0]
        extra = {}
        if model["err"] == "badArg":
            extra["npoles"] = "more" if len(c["poles"]) > n else "fewer"
            detail = ("%s returned a gain for %d requested eigenvalues and %d states: A - B K cannot "
                      "have the requested eigenvalues" % (c["fn"], len(c["poles"]), n))
        else:
            detail = "%s returned a gain where the model raises %s" % (c["fn"], model["err"])
        return Verdict(VIOLATES, detail, self.feat(c, "returns-" + model["err"], **extra))

    def cmp_ctrb(self, c, a, b, impl):
        if a["M"] != b["M"]:
            return Verdict(VIOLATES, "%s: implementation %s, definition %s" % (c["op"], a["M"], b["M"]),
                           self.feat(c, "value"))
        return Verdict(AGREE)

    cmp_obsv = cmp_ctrb

    def cmp_acker(self, c, a, b, impl):
        A, B = mfr(c["A"]), mfr(c["B"])
        n, m = c["A"][0], c["B"][1]
        Ki = a["K"]
        if (Ki[0], Ki[1]) != (m, n):
            return Verdict(VIOLATES, "gain of shape %s for %d inputs, %d states" % (a["shape"], m, n),
                           self.feat(c, "shape"))
        # the property itself, on the implementation's gain: charpoly(A - B K) = requested polynomial
        pc = poly_from_roots([(Fraction(p[0]), Fraction(p[1])) for p in c["poles"]])
        preq = [z[0] for z in pc]
        Kf = mfr(Ki)
        Acl = exmat.sub(A, exmat.mul(B, Kf))
        pimpl = charpoly(Acl)
        sc_ = max([Fraction(1)] + [abs(x) for x in preq])
        _rec("charpoly/%s/%s" % (c["fn"], "mimo" if m > 1 else "siso"),
             max(abs(x - y) for x, y in zip(pimpl, preq)) / sc_ if len(pimpl) == len(preq) else 0)
        if not poly_close(pimpl, preq, TOL_PLACE if (c["fn"] == "place" and m > 1) else TOL_P):
            if c["fn"] == "place" and a.get("not_converged"):
                # scipy's YT iteration did not converge and said so (UserWarning): the contract
                # parameter failed, not python-control; recorded in the histogram
                return Verdict(AGREE)
            return Verdict(VIOLATES, "charpoly(A - B K) = %s, requested %s" % (
                [float(x) for x in pimpl], [float(x) for x in preq]), self.feat(c, "eigenvalues"))
        if m == 1:
            _rec("gain/" + c["fn"], maxerr(Ki, b["K"]))
        if m == 1 and not mat_close(Ki, b["K"], TOL_K):
            return Verdict(DIFFERS, "gain %s, Ackermann %s" % (Ki[2], b["K"][2]), self.feat(c, "gain"))
        return Verdict(AGREE)

    def cmp_lq(self, c, a, b, impl, aug):
        if a["routine"] != b["routine"]:
            return Verdict(VIOLATES, "%s(%s, dt=%s) reaches %s, should reach %s" % (
                c["fn"], c["form"], c["dt"], a["routine"], b["routine"]), self.feat(c, "dispatch", dt=c["dt"]))
        for nm in ("A", "B", "Q", "R"):
            if a["arg" + nm] != b[nm]:
                return Verdict(VIOLATES, "argument %s of %s: implementation %s, model %s" % (
                    nm, a["routine"], a["arg" + nm], b[nm]),
                    self.feat(c, "arg" + nm, integral=c.get("Ci") is not None, routine=b["routine"]))
        sa, sb = a["argS"], b["S"]
        if sa is not None and sb is None and all(Fraction(x) == 0 for x in sa[2]):
            sa = None      # an explicit zero cross weight is the same problem
        if sb is not None and sa is None and all(Fraction(x) == 0 for x in sb[2]):
            sb = None
        if sa != sb:
            return Verdict(VIOLATES, "cross weight handed to %s: %s, model %s" % (a["routine"], sa, sb),
                           self.feat(c, "argS"))
        if a["argE"] or a["extra"]:
            return Verdict(DIFFERS, "unexpected E / positional arguments", self.feat(c, "argE"))
        if "solver_raised" in impl:
            return Verdict(AGREE)
        if not a["ret_identity"]:
            return Verdict(VIOLATES, "returned triple is not (G, X, L) of the Riccati routine",
                           self.feat(c, "returned-triple"))
        return self.oracle_lq(c, a, aug)

    def oracle_lq(self, c, a, aug):
        """the property on the implementation's own outputs, for the problem as *stated* by the case:
        Riccati residual, gain relation, E = eigenvalues of the closed loop, stability."""
        Aa, Ba, Q, R, N, disc, transpose = aug
        Kf = mnp(a["K"])
        S = mnp(a["S"])
        if transpose:       # estimator: dual problem
            K = Kf.T
        else:
            K = Kf
        A_, B_ = np.array([[float(x) for x in r] for r in Aa]), np.array([[float(x) for x in r] for r in Ba])
        Qn, Rn = np.array(Q, dtype=float), np.array(R, dtype=float)
        Nn = np.zeros((A_.shape[0], B_.shape[1])) if N is None else np.array(N, dtype=float)
        if disc:
            res = A_.T @ S @ A_ - S - (A_.T @ S @ B_ + Nn) @ K + Qn
            gain = (B_.T @ S @ B_ + Rn) @ K - (B_.T @ S @ A_ + Nn.T)
        else:
            res = A_.T @ S + S @ A_ - (S @ B_ + Nn) @ K + Qn
            gain = Rn @ K - (B_.T @ S + Nn.T)
        sc = max(1.0, np.abs(S).max(), np.abs(Qn).max()) * max(1.0, np.abs(A_).max()) ** 2
        r1 = np.abs(res).max() / sc
        r2 = np.abs(gain).max() / (sc * max(1.0, np.abs(B_).max()) ** 2)
        _rec("riccati", r1)
        _rec("gainrel", r2)
        if r1 > TOL_RIC or r2 > TOL_RIC or np.abs(S - S.T).max() / sc > TOL_RIC:
            return Verdict(VIOLATES, "returned (K, S) do not satisfy the Riccati equation of the stated "
                           "problem: residual %.2e, gain %.2e" % (r1, r2), self.feat(c, "riccati"))
        E = np.array([complex(x, y) for x, y in a["E"]])
        Kex = mfr(a["K"])
        if transpose:
            Kex = [list(r) for r in zip(*Kex)]
        Acl = exmat.sub([[fr(x) for x in r] for r in Aa], exmat.mul([[fr(x) for x in r] for r in Ba], Kex))
        ok, err = eig_poly_ok(E, Acl)
        _rec("eigpoly", err)
        if not ok:
            return Verdict(VIOLATES, "returned E are not the eigenvalues of the closed loop of the "
                           "returned gain (polynomial error %.2e)" % err, self.feat(c, "eigs"))
        stable = all(abs(e) < 1 for e in E) if disc else all(e.real < 0 for e in E)
        if not stable:
            return Verdict(VIOLATES, "closed loop not stable: %s" % E, self.feat(c, "unstable"))
        if "chain_exc" in a:
            return Verdict(VIOLATES, "create_statefbk_iosystem raises %s" % a["chain_exc"],
                           self.feat(c, "chain-raises", **self.embed_feat(c)))
        if "clA" in a:
            ref = [1, 1, []]
            ref = [len(Acl), len(Acl), [tok(x) for r in Acl for x in r]]
            _rec("chainA", maxerr(a["clA"], ref))
            if not mat_close(a["clA"], ref, TOL_CL):
                return Verdict(VIOLATES, "closed loop A-matrix of create_statefbk_iosystem differs from "
                               "A_aug - B_aug K (max err %.2e)" % maxerr(a["clA"], ref),
                               self.feat(c, "chain-A", dt=c["dt"], **self.embed_feat(c)))
            ok, err = eig_poly_ok(E, mfr(a["clA"]), 1e-5)
            _rec("chaineig", err)
            if not ok:
                return Verdict(VIOLATES, "assembled closed loop does not have the returned eigenvalues",
                               self.feat(c, "chain-eigs", dt=c["dt"], **self.embed_feat(c)))
        return Verdict(AGREE)

    def cmp_lqr(self, c, a, b, impl):
        A, B = mfr(c["A"]), mfr(c["B"])
        n, m = c["A"][0], c["B"][1]
        disc = b["routine"] == "dare"
        if c["Ci"] is not None:
            Ci = mfr(c["Ci"])
            q = c["Ci"][0]
            J = [[Fraction(int(i == j and disc)) for j in range(q)] for i in range(q)]
            Aa = block([[A, exmat.zeros(n, q)], [Ci, J]])
            Ba = block([[B], [exmat.zeros(q, m)]])
        else:
            Aa, Ba = A, B
        N = None if c["N"] is None else mnp(c["N"])
        aug = (Aa, Ba, mnp(c["Q"]), mnp(c["R"]), N, disc, False)
        return self.cmp_lq(c, a, b, impl, aug)

    def cmp_lqe(self, c, a, b, impl):
        A, G, C = mfr(c["A"]), mfr(c["G"]), mfr(c["C"])
        disc = b["routine"] == "dare"
        At = [list(r) for r in zip(*A)]
        Ct = [list(r) for r in zip(*C)]
        Gn, QN = mnp(c["G"]), mnp(c["QN"])
        aug = (At, Ct, Gn @ QN @ Gn.T, mnp(c["RN"]), None, disc, True)
        return self.cmp_lq(c, a, b, impl, aug)

    def cmp_fbk(self, c, a, b, impl):
        if a["q"] != b["q"]:
            return Verdict(VIOLATES, "controller has %d states, %d integrators requested" % (a["q"], b["q"]),
                           self.feat(c, "ctrl-states"))
        for nm in ("cA", "cB", "cC", "cD"):
            if a[nm] != b[nm]:
                return Verdict(VIOLATES, "controller %s: implementation %s, model %s" % (nm[1], a[nm], b[nm]),
                               self.feat(c, "ctrl-" + nm[1], dt=c["dt"], integral=c["Ci"] is not None))
        for nm in ("A", "B", "C", "D"):
            if a[nm][:2] == b[nm][:2]:
                _rec("closed" + nm, maxerr(a[nm], b[nm]))
            if not mat_close(a[nm], b[nm], TOL_CL):
                return Verdict(VIOLATES, "closed loop %s: implementation %s, model %s (max err %.2e)" % (
                    nm, a[nm], b[nm], maxerr(a[nm], b[nm]) if a[nm][:2] == b[nm][:2] else -1),
                    self.feat(c, "closed-" + nm, dt=c["dt"], integral=c["Ci"] is not None))
        want = exact.dt_canon(dt_value(c["dt"]))
        if a["ctrl_dt"] != want or a["cl_dt"] != want:
            return Verdict(DIFFERS, "timebase of controller/closed loop %s/%s, plant %s" % (
                a["ctrl_dt"], a["cl_dt"], want), self.feat(c, "dt"))
        return Verdict(AGREE)

    @staticmethod
    def embed_feat(c):
        emb = c.get("embed")
        if not emb:
            return {}
        sel = emb["sel"]
        return {"control_indices": ("names-" if emb["names"] else "") +
                ("in-order" if sel == sorted(sel) else "not-in-order"),
                "free_inputs": emb["mt"] > len(sel)}

    def sel_feat(self, c, b=None):
        f = {"dt": c["dt"], "integral": c["Ci"] is not None, "selector": sel_class(c["ci"]),
             "ctype": c["ctype"]}
        if b is not None:
            f["in_order"] = b["sel"] == sorted(b["sel"])
            f["free_inputs"] = len(b["rest"]) > 0
        return f

    def cmp_fbks(self, c, a, b, impl):
        n = c["A"][0]
        lab = self.in_labels(c)
        sel, rest = b["sel"], b["rest"]
        m = len(sel)
        ft = self.sel_feat(c, b)
        # the names do not depend on the timebase or on integral action
        ftn = {k: v for k, v in ft.items() if k not in ("dt", "integral")}
        if a["q"] != b["q"]:
            return Verdict(VIOLATES, "controller has %d states, %d integrators requested" % (a["q"], b["q"]),
                           self.feat(c, "ctrl-states", **ft))
        # the closed loop inputs are x_d, u_d, then the plant inputs the controller does not drive;
        # the order in which interconnect appends those is not C11's subject: matched by name
        want_out = [lab[i] for i in sel]
        want_in = ["xd[%d]" % i for i in range(n)] + ["ud[%d]" % i for i in range(m)]
        free = a["cl_in"][n + m:]
        names_in_ok = a["cl_in"][:n + m] == want_in and sorted(free) == sorted(lab[i] for i in rest)
        perm = list(range(n + m)) + [n + m + free.index(lab[i]) for i in rest] if names_in_ok else []
        exact_ctrl = c["ctype"] == "linear"
        for nm in ("cA", "cB", "cC", "cD"):
            if (a[nm] != b[nm]) if exact_ctrl else (not mat_close(a[nm], b[nm], TOL_CL)):
                return Verdict(VIOLATES, "controller %s: implementation %s, model %s" % (nm[1], a[nm], b[nm]),
                               self.feat(c, "ctrl-" + nm[1], **ft))
        for nm in ("A", "B", "C", "D"):
            am = a[nm]
            if nm in ("B", "D") and perm and am[1] == len(perm):
                rows = [am[2][i * am[1]:(i + 1) * am[1]] for i in range(am[0])]
                am = [am[0], am[1], [row[j] for row in rows for j in perm]]
            if am[:2] == b[nm][:2]:
                _rec("closed" + nm, maxerr(am, b[nm]))
            if not mat_close(am, b[nm], TOL_CL):
                return Verdict(VIOLATES, "closed loop %s (control_indices -> plant inputs %s): implementation "
                               "%s, model %s (max err %.2e); controller outputs are named %s" % (
                                   nm, sel, am, b[nm], maxerr(am, b[nm]) if am[:2] == b[nm][:2] else -1,
                                   a["ctrl_out"]),
                               self.feat(c, "closed-" + nm, **ft))
        # the signal names (they carry the wiring; with the matrices above in agreement a difference
        # here is a difference in naming only)
        if a["ctrl_out"] != want_out:
            return Verdict(DIFFERS, "controller outputs %s, control_indices select %s in this order" % (
                a["ctrl_out"], want_out), self.feat(c, "ctrl-outputs", **ftn))
        if a["cl_out"][len(a["cl_out"]) - m:] != want_out or len(a["cl_out"]) != n + m:
            return Verdict(DIFFERS, "closed loop outputs %s, expected the %d plant outputs then %s" % (
                a["cl_out"], n, want_out), self.feat(c, "closed-outputs", **ftn))
        if not names_in_ok:
            return Verdict(DIFFERS, "closed loop inputs %s, expected %s then the free plant inputs %s" % (
                a["cl_in"], want_in, [lab[i] for i in rest]), self.feat(c, "closed-inputs", **ftn))
        want = exact.dt_canon(dt_value(c["dt"]))
        if a["ctrl_dt"] != want or a["cl_dt"] != want:
            return Verdict(DIFFERS, "timebase of controller/closed loop %s/%s, plant %s" % (
                a["ctrl_dt"], a["cl_dt"], want), self.feat(c, "dt", **ft))
        return Verdict(AGREE)

    def returns_fbks(self, c, impl, model):
        return Verdict(VIOLATES, "create_statefbk_iosystem returned a closed loop for control_indices=%r "
                       "where the model raises %s" % (sel_obj(c["ci"]) if c["ci"] is None or c["ci"][0] != "X"
                                                      else c["ci"][1], model["err"]),
                       self.feat(c, "returns-" + model["err"], **self.sel_feat(c)))

    # ---- evidence ------------------------------------------------------------------------------
    def nontrivial(self, c, model):
        if "ok" not in model:
            return False
        op = c["op"]
        n = c["A"][0]
        if op in ("ctrb", "obsv"):
            return n >= 2 or c["t"] is not None
        if op == "acker":
            return n >= 2 or any(p[1] != "0" for p in c["poles"])
        if op == "lqr":
            return n >= 2 or c["N"] is not None or c["Ci"] is not None
        if op == "lqe":
            return n >= 2 or c["fn"] == "dlqe"
        if op == "fbks":
            b = model["ok"]
            return b["sel"] != list(range(c["B"][1])) or n >= 2 or c["Ci"] is not None
        return n >= 2 or c["Ci"] is not None

    def stats(self, c, impl, model):
        st = {"op": c["op"] + ("/" + c["fn"] if "fn" in c else ""), "n": c["A"][0],
              "outcome": ("err:" + model["err"]) if "err" in model else "ok"}
        if "err" in model and "err" in impl:
            st["errkind_equal"] = impl["err"] == model["err"]
        if c["op"] == "acker":
            st["complex_poles"] = any(p[1] != "0" for p in c["poles"])
            st["inputs"] = c["B"][1]
            if "ok" in impl and impl["ok"].get("not_converged"):
                st["place_poles_not_converged"] = True
        if c["op"] in ("lqr", "lqe"):
            st["form/dt"] = c["form"] + "/" + c["dt"]
            if "ok" in model:
                st["routine"] = model["ok"]["routine"]
            if "solver_raised" in impl:
                st["solver_raised"] = True
        if c["op"] == "lqr":
            st["integral"] = c["Ci"] is not None
            st["cross"] = c["N"] is not None
        if c["op"] == "fbk":
            st["fbk_dt/integral"] = "%s/%s" % (c["dt"], c["Ci"] is not None)
        if c["op"] == "lqr" and c.get("embed") and "ok" in impl and "clA" in impl["ok"]:
            st["chain_control_indices"] = "%s/free=%s" % (
                self.embed_feat(c)["control_indices"], c["embed"]["mt"] > len(c["embed"]["sel"]))
        if c["op"] == "fbks":
            st["fbks_dt/integral"] = "%s/%s" % (c["dt"], c["Ci"] is not None)
            st["selector"] = sel_class(c["ci"])
            st["ctype"] = c["ctype"]
            st["named_inputs"] = c["labels"] is not None
            if c["si"] is not None:
                st["state_indices_form"] = c["si"][0]
            if "ok" in model:
                b = model["ok"]
                st["selected/inputs"] = "%d/%d" % (len(b["sel"]), c["B"][1])
                st["selection_order"] = ("single" if len(b["sel"]) < 2 else
                                         "increasing" if b["sel"] == sorted(b["sel"]) else "not-increasing")
        return st

    # ---- shrinking -----------------------------------------------------------------------------
    def shrink(self, c):
        op = c["op"]
        if op == "acker":
            n = c["A"][0]
            if n > 1 and c["A"][1] == n and c["B"][0] == n:
                A, B = mfr(c["A"]), mfr(c["B"])
                d = dict(c)
                d["A"] = M([r[:n - 1] for r in A[:n - 1]])
                d["B"] = M(B[:n - 1])
                d["poles"] = c["poles"][:max(1, len(c["poles"]) - 1)]
                if all(p[1] == "0" for p in d["poles"]) or len(d["poles"]) % 2 == 0:
                    yield d
            if any(p[1] != "0" for p in c["poles"]):
                d = dict(c)
                d["poles"] = [[p[0], "0"] for p in c["poles"]]
                yield d
        if op == "lqr":
            for key in ("N", "Ci"):
                if c[key] is not None and key == "N":
                    d = dict(c)
                    d["N"] = None
                    yield d
            if c["form"] == "sys" and c["dt"] not in ("C", "T"):
                d = dict(c)
                d["dt"] = "T" if c["dt"].startswith("D") else "C"
                yield d
        if op in ("fbk", "fbks"):
            if c["dt"] not in ("C", "T"):
                d = dict(c)
                d["dt"] = "T" if c["dt"].startswith("D") else "C"
                yield d
        if op == "fbks":
            for key in ("labels", "outs", "si"):
                if c[key] is not None and not (key == "labels" and c["ci"] is not None and
                                               "N" in [it[0] for it in (c["ci"][1] if c["ci"][0] == "L" else [])]):
                    d = dict(c)
                    d[key] = None
                    yield d
            if c["ctype"] != "linear":
                d = dict(c)
                d["ctype"] = "linear"
                yield d
            if c["Ci"] is not None and c["K"][1] == c["A"][0] + c["Ci"][0]:
                d = dict(c)
                Kf = mfr(c["K"])
                d["K"] = M([row[:c["A"][0]] for row in Kf]) if Kf else c["K"]
                d["Ci"] = None
                if Kf:
                    yield d
        if op == "lqr" and c.get("embed") and c["embed"]["mt"] > c["B"][1]:
            # same selection without the free inputs
            d = dict(c)
            sel = c["embed"]["sel"]
            rank = {j: k for k, j in enumerate(sorted(sel))}
            d["embed"] = {"mt": len(sel), "sel": [rank[j] for j in sel], "names": c["embed"]["names"],
                          "extra": Mrc(c["A"][0], 0, [])}
            yield d

    def search(self, rng, c, tier):
        gen = {"ctrb": lambda: self.gen_gram(rng), "obsv": lambda: self.gen_gram(rng),
               "acker": lambda: self.gen_acker(rng, "quick"), "lqr": lambda: self.gen_lqr(rng, "quick"),
               "lqe": lambda: self.gen_lqe(rng, "quick"), "fbk": lambda: self.gen_fbk(rng, "quick"),
               "fbks": lambda: self.gen_fbks(rng, "quick")}[c["op"]]
        return [gen() for _ in range(200)]


def exmat_enc(mat, r, c):
    a = np.asarray(mat, dtype=float).reshape(r, c)
    return [r, c, [tok(fr(x)) for x in a.flatten()]]


from families import select_streams as _sel      # direct stream for statesp._ssmatrix
FAMILY = _sel.extend(C11, _sel.SsMatrixStream())
