"""C20 (history / typing part) — two input classes of control.flatsys on linear SISO flat systems that the
value-only streams of c20.py do not reach:

kind "hist" — CALL HISTORIES ON OBJECTS THE CALLER KEEPS.  The caller holds (x, u) pairs and flags
    (`[ndarray]`), passes THE SAME OBJECTS to `LinearFlatSystem.forward` / `reverse` again and again and
    keeps every result (registers S[0..], F[0..]; calls `["fwd", s]`: F.append(sys.forward(*S[s], params)),
    `["rev", f]`: S.append(sys.reverse(F[f], params))).  Model: `CtrlVerif.Model.FlatHist` (driver op
    `hist`): a store that only grows.  Oracles on the implementation's own outputs: every reverse of a
    flag that came out of forward(x, u) gives (x, u) - at its first, second, third ... use; every forward of
    a pair that came out of reverse(z) gives z; the content of every object the caller holds is, after the
    whole history, what it was when the caller got / made it.  Literal registers are float64 arrays,
    int64 arrays or Python lists (x, u only: "list or array" in the docstring).

kind "tt" — TYPED TIME STAMPS / TYPED DATA and LONG HORIZONS for point_to_point and
    SystemTrajectory.eval: the final time as a Python int / NumPy integer scalar, `timepts` as a list of
    ints or an integer array (int64, int32, int16, uint8, ...), the evaluation times as a list of ints, an
    integer array, a tuple, a `range`; the basis horizon `T` as an int; boundary conditions as int arrays
    or lists; integer horizons from 1 to 10^7 (basis rescaled to the horizon), rest-to-rest moves with
    integer equilibria (exact flags) and general boundary conditions.  The model is the one of c20.py
    (times are field elements: the integer 3600 and the float 3600.0 are the same time).  Oracles: both
    end points, evaluated at float times AND at the typed times; the dynamics residual from the values at N
    typed nodes (exact Lagrange differentiation, normalised by the horizon); the trajectory evaluated at
    the same instants given as integers and as floats is the same; then a SECOND trajectory planned
    with the same system / basis / time objects meets its own end points and leaves the first one as
    it was; no argument object (time array, boundary arrays, evaluation list) is modified.
"""
import re
import warnings
from fractions import Fraction
from math import lcm

import numpy as np
import control as ct
import control.flatsys as fs

from core.runner import Verdict, AGREE, VIOLATES, DIFFERS
from core import exmat
from core.exact import fr, tok
from families.c20_multi import F, ftok, vals, basis_exact, lagrange_diff_rows, classify_exc, excstr

TOL = Fraction(1, 10 ** 6)          # regime T; worst observed on 3000 cases: see notes
TOL_TRAJ = Fraction(1, 10 ** 5)     # typed-time part, trajectory vs model at long horizons (worst observed 7e-10)
TOL_SAME = Fraction(1, 10 ** 9)     # int-typed vs float-typed instants, repeated calls (observed: bitwise equal)
COND_MAX = 1e5                      # of the boundary matrix in the rescaled time s = t / T
HN_MAX = 1e8                        # horizon ** order: the rows of M are scaled by T^-k (see notes)

INT_TYPES = {"i64": np.int64, "i32": np.int32, "i16": np.int16, "i8": np.int8,
             "u8": np.uint8, "u16": np.uint16, "u32": np.uint32, "u64": np.uint64}


def fits(ty, values):
    if ty in ("pyint", "pyfloat", "f64"):
        return True
    info = np.iinfo(INT_TYPES[ty])
    return all(info.min <= v <= info.max for v in values)


def scalar_of(ty, v):
    """one time stamp of the given type (v: Fraction)"""
    if ty == "pyfloat":
        return float(v)
    if ty == "f64":
        return np.float64(float(v))
    if ty == "pyint":
        return int(v)
    return INT_TYPES[ty](int(v))


def timelist_of(ety, ts):
    """an evaluation-time container: (container kind, element type)"""
    cont, ty = ety
    if cont == "range":
        step = int(ts[1] - ts[0]) if len(ts) > 1 else 1
        return range(int(ts[0]), int(ts[0]) + step * len(ts), step)
    if cont == "array":
        if ty in ("pyfloat", "f64"):
            return np.array([float(t) for t in ts], dtype=float)
        if ty == "pyint":
            return np.array([int(t) for t in ts])
        return np.array([int(t) for t in ts], dtype=INT_TYPES[ty])
    items = [scalar_of(ty, t) for t in ts]
    return tuple(items) if cont == "tuple" else items


def data_of(ty, tokens):
    """a state / input vector of the given container type"""
    v = [F(t) for t in tokens]
    if ty == "int":
        return np.array([int(x) for x in v], dtype=np.int64)
    if ty == "list":
        return [int(x) if x.denominator == 1 else float(x) for x in v]
    return np.array([float(x) for x in v], dtype=float)


def snapshot(obj):
    if isinstance(obj, range):
        return list(obj)
    if isinstance(obj, (list, tuple)):
        return [snapshot(o) for o in obj]
    if isinstance(obj, np.ndarray):
        return obj.copy()
    return obj


def same_obj(a, b):
    """content of an argument object now (a) and at the call (b)"""
    if isinstance(b, list):
        if isinstance(a, range):
            a = list(a)
        return isinstance(a, (list, tuple)) and len(a) == len(b) and all(same_obj(x, y) for x, y in zip(a, b))
    if isinstance(b, np.ndarray):
        return isinstance(a, np.ndarray) and a.shape == b.shape and a.dtype == b.dtype and bool(np.all(a == b))
    return type(a) is type(b) and a == b


def build_sys(s):
    n = s["n"]
    A = np.array(vals(s["A"]), dtype=float).reshape(n, n)
    B = np.array(vals(s["B"]), dtype=float).reshape(n, 1)
    C = np.array(vals(s["C"]), dtype=float).reshape(1, n)
    dt = None if s["dt"] == "N" else 0
    return ct.ss(A, B, C, np.zeros((1, 1)), dt)


def flat_exact(s):
    """(T, Tinv, F) of the flat structure, exact (Brunovsky: Cf = last row of ctrb^-1)"""
    n = s["n"]
    A = exmat.from_flat(s["A"], n, n)
    b = [F(v) for v in s["B"]]
    cols, col = [], [[x] for x in b]
    for _ in range(n):
        cols.append([r[0] for r in col])
        col = exmat.mul(A, col)
    W = [[cols[j][i] for j in range(n)] for i in range(n)]
    Cf = exmat.solve(W, exmat.eye(n))[n - 1]
    T, row = [], [Cf]
    for _ in range(n):
        T.append(row[0])
        row = exmat.mul(row, A)
    Tinv = exmat.solve(T, exmat.eye(n))
    Fv = exmat.mul(row, Tinv)[0]
    return T, Tinv, Fv


def equilibrium(s):
    """an integer equilibrium direction (x, u): A x + b u = 0, flag (c, 0, ..., 0)"""
    n = s["n"]
    _, Tinv, Fv = flat_exact(s)
    v = [Tinv[i][0] for i in range(n)] + [-Fv[0]]
    d = lcm(*[x.denominator for x in v])
    return [int(x * d) for x in v]


def cond_rescaled(kind, N, T, n, T0, Tf):
    """2-norm condition number of the stacked boundary matrix in the rescaled time s = t/T
    (rows of d^k/ds^k), from the independent exact basis functions"""
    M = [[float(basis_exact(kind, N, Fraction(1), j, k, t / T)) for j in range(N)]
         for t in (T0, Tf) for k in range(n + 1)]
    return float(np.linalg.cond(np.array(M)))


class Hist:
    def __init__(self, parent):
        self.parent = parent        # the C20 family (system generator, rational generator)

    # ---- generation ----------------------------------------------------------------------------
    def generate(self, rng, tier):
        nh, nt = (50, 60) if tier == "quick" else (400, 500)
        return [self.gen_hist(rng) for _ in range(nh)] + [self.gen_tt(rng) for _ in range(nt)]

    def gen_sys(self, rng, nchoices=(1, 2, 2, 3, 3, 4)):
        s = self.parent.gen_sys(rng, rng.choice(nchoices))
        if rng.random() < 0.2:
            s["dt"] = "N"
        return s

    def gen_hist(self, rng):
        s = self.gen_sys(rng)
        n = s["n"]
        integer = rng.random() < 0.35
        q = (lambda: Fraction(rng.randint(-6, 6))) if integer else (lambda: self.parent.rq(rng))
        nS, nF = rng.choice([1, 1, 2]), rng.choice([0, 1, 1, 2])
        S = [[ftok(q()) for _ in range(n + 1)] for _ in range(nS)]
        Fl = [[ftok(q()) for _ in range(n + 1)] for _ in range(nF)]
        isint = lambda reg: all(F(v).denominator == 1 for v in reg)
        dS = [rng.choice(["float", "float", "list", "int"] if isint(r) else ["float", "float", "list"]) for r in S]
        dF = [rng.choice(["float", "float", "int"] if isint(r) else ["float"]) for r in Fl]
        ops, cS, cF = [], nS, nF
        for _ in range(rng.randint(3, 8)):
            # re-use of recently produced objects is what the class is about
            if cF and (rng.random() < 0.55):
                f = cF - 1 if rng.random() < 0.6 else rng.randrange(cF)
                ops.append(["rev", f])
                cS += 1
            else:
                sidx = cS - 1 if rng.random() < 0.5 else rng.randrange(cS)
                ops.append(["fwd", sidx])
                cF += 1
        return {"kind": "hist", "sys": s, "S": S, "F": Fl, "dS": dS, "dF": dF, "ops": ops,
                "params": rng.choice(["none", "dict"])}

    def gen_tt(self, rng):
        for _try in range(200):
            s = self.gen_sys(rng)
            n = s["n"]
            r = rng.random()
            if r < 0.35:
                H = rng.choice([1, 2, 3, 4, 5, 8, 10])
            elif r < 0.6:
                H = rng.choice([16, 24, 60, 64, 100, 120, 128, 200, 256])
            else:
                H = rng.choice([500, 600, 1000, 1024, 3600, 4096, 8192, 10000, 86400, 10 ** 6, 2 ** 20, 10 ** 7])
            if float(H) ** n > HN_MAX:
                continue
            half = H <= 10 and rng.random() < 0.15          # half-integer instants: float types only
            T0 = Fraction(rng.choice([0, 0, 0, 0, 1, -1, 7, 100, -(H // 2)]))
            if half:
                T0 += Fraction(1, 2)
            Tf = T0 + H
            kind = rng.choice(["P", "P", "P", "B", "B"])
            N = 2 * (n + 1) + rng.choice([0, 0, 1, 1, 2, 3])
            Tc = [Fraction(H), Fraction(H)] + ([Tf] if Tf > 0 else []) + ([Fraction(1), Fraction(2)] if H <= 4 else [])
            T = rng.choice(Tc)
            if cond_rescaled(kind, N, T, n, T0, Tf) > COND_MAX:
                continue
            break
        else:
            raise RuntimeError("no well-conditioned typed-time problem found")
        rest = rng.random() < (0.7 if H > 10 else 0.3)
        if rest:
            v = equilibrium(s)
            big = max(abs(x) for x in v)
            cmax = max(1, min(4, 10 ** 6 // max(1, big)))
            c0, cf = rng.randint(-cmax, cmax), rng.randint(-cmax, cmax)
            bc = {"x0": [tok(Fraction(c0 * a)) for a in v[:n]], "u0": tok(Fraction(c0 * v[n])),
                  "xf": [tok(Fraction(cf * a)) for a in v[:n]], "uf": tok(Fraction(cf * v[n]))}
        else:
            q = (lambda: Fraction(rng.randint(-5, 5))) if rng.random() < 0.6 else (lambda: self.parent.rq(rng))
            bc = {"x0": [ftok(q()) for _ in range(n)], "u0": ftok(q()),
                  "xf": [ftok(q()) for _ in range(n)], "uf": ftok(q())}
        allint = all(F(v).denominator == 1 for v in bc["x0"] + [bc["u0"]] + bc["xf"] + [bc["uf"]])
        bcty = rng.choice(["float", "int", "int", "list"] if allint else ["float", "float", "list"])
        tvals = [int(T0), int(Tf)] if not half else []
        if half:
            ity = ["pyfloat", "f64"]
        else:
            ity = [t for t in ["pyint", "pyint", "pyint", "i64", "i64", "i32", "i16", "i8", "u8", "u16", "u32", "u64",
                               "pyfloat"] if fits(t, tvals)]
        tty = rng.choice(ity)
        via = rng.choice(["scalar", "scalar", "list", "array", "list3"])
        if via == "list3" and H < 2 and not half:
            via = "list"
        # evaluation times: container and element type
        ety_el = rng.choice(ity)
        cont = rng.choice(["list", "list", "array", "array", "tuple", "range"])
        if cont == "range" and (half or ety_el in ("pyfloat", "f64")):
            cont = "list"
        # integer interior instants (typed evaluation), dyadic interior instants (float evaluation)
        if half:
            itimes = []
        else:
            itimes = sorted({int(T0) + (H * k) // 8 for k in rng.sample(range(1, 8), 2)} - {int(T0), int(Tf)})
        Tty = "float"
        if T.denominator == 1 and rng.random() < 0.6:
            Tty = rng.choice(["pyint", "pyint", "i64"])
        pp = {"T0": tok(T0), "Tf": tok(Tf), "basis": {"kind": kind, "N": N, "T": tok(T), "Tty": Tty},
              "via": via, "tty": tty, "ety": [cont, ety_el], "bcty": bcty, "rest": rest,
              "interior": sorted(rng.sample(range(1, 8), 2)), "itimes": itimes, "again": None}
        pp.update(bc)
        pp["bspline"] = None
        if not half and H >= 2 and rng.random() < 0.25:
            # B-splines (external evaluator): end points and int-vs-float instants only
            pp["bspline"] = {"degree": 2 * n + 1, "bty": [rng.choice(["list", "array"]), rng.choice(ity)]}
        if rng.random() < 0.5:
            q2 = lambda: Fraction(rng.randint(-5, 5))
            if rest:
                c2 = rng.randint(-cmax, cmax)
                pp["again"] = {"xf": [tok(Fraction(c2 * a)) for a in v[:n]], "uf": tok(Fraction(c2 * v[n]))}
            else:
                pp["again"] = {"xf": [ftok(q2()) for _ in range(n)], "uf": ftok(q2())}
        return {"kind": "tt", "sys": s, "p2p": pp}

    def corpus(self):
        # the history and the typed-time problem of the seeded demonstrations, and a day in seconds
        s3 = {"dt": "C", "p": 1, "m": 1, "n": 3, "A": ["-1", "1", "0", "1/2", "-2", "1", "1", "0", "-3"],
              "B": ["0", "1", "2"], "C": ["1", "0", "0"]}
        s2 = {"dt": "C", "p": 1, "m": 1, "n": 2, "A": ["-1", "1", "0", "-2"], "B": ["0", "1"], "C": ["1", "0"]}
        s1 = {"dt": "C", "p": 1, "m": 1, "n": 1, "A": ["-1"], "B": ["2"], "C": ["1"]}
        pp = lambda Tf, kind, N, x0, u0, xf, uf, via, tty, ety, it: {
            "T0": "0", "Tf": str(Tf), "basis": {"kind": kind, "N": N, "T": str(Tf), "Tty": "pyint"},
            "via": via, "tty": tty, "ety": ety, "bcty": "list", "rest": True, "interior": [2, 5], "itimes": it,
            "again": {"xf": x0, "uf": u0}, "x0": x0, "u0": u0, "xf": xf, "uf": uf}
        return [
            {"kind": "hist", "sys": s3, "S": [["1", "-2", "1/2", "3"]], "F": [], "dS": ["float"], "dF": [],
             "ops": [["fwd", 0], ["rev", 0], ["rev", 0], ["fwd", 1], ["rev", 0], ["fwd", 3]], "params": "dict"},
            {"kind": "hist", "sys": s2, "S": [["1", "2", "3"]], "F": [["4", "-1", "2"]], "dS": ["int"], "dF": ["int"],
             "ops": [["rev", 0], ["fwd", 1], ["rev", 0], ["rev", 1], ["fwd", 0], ["rev", 2]], "params": "none"},
            {"kind": "tt", "sys": s2, "p2p": pp(3600, "P", 8, ["0", "0"], "0", ["1", "1"], "2", "scalar", "pyint",
                                               ["list", "pyint"], [1800, 3000])},
            {"kind": "tt", "sys": s2, "p2p": pp(4096, "B", 7, ["1", "1"], "2", ["-2", "-2"], "-4", "array", "i32",
                                               ["range", "pyint"], [512, 2048])},
            {"kind": "tt", "sys": s1, "p2p": pp(86400, "P", 5, ["2"], "1", ["-4"], "-2", "list", "i64",
                                               ["array", "i32"], [21600, 43200])},
        ]

    # ---- model line --------------------------------------------------------------------------------
    def tt_times(self, pp):
        T0, Tf = F(pp["T0"]), F(pp["Tf"])
        return [T0, Tf] + [T0 + (Tf - T0) * Fraction(k, 8) for k in pp["interior"]] + [Fraction(t) for t in pp["itimes"]]

    def line(self, case):
        s = case["sys"]
        n = s["n"]
        pre = "flat %s 1 1 %d %s %s" % (s["dt"], n, " ".join(s["A"]), " ".join(s["B"]))
        if case["kind"] == "hist":
            ln = pre + " hist %d %s %d %s %d %s" % (
                len(case["S"]), " ".join(" ".join(r) for r in case["S"]),
                len(case["F"]), " ".join(" ".join(r) for r in case["F"]),
                len(case["ops"]), " ".join("%s %d" % (o[0], o[1]) for o in case["ops"]))
            return " ".join(ln.split())
        pp = case["p2p"]
        b = pp["basis"]
        ts = self.tt_times(pp)
        p2 = lambda xf, uf, tl: " p2p %s %d %s %s %s %s %s %s %s %d %s" % (
            b["kind"], b["N"], b["T"], pp["T0"], pp["Tf"], " ".join(pp["x0"]), pp["u0"], " ".join(xf), uf,
            len(tl), " ".join(tok(t) for t in tl))
        ln = pre + " sys" + p2(pp["xf"], pp["uf"], ts)
        if pp.get("again"):
            ln += p2(pp["again"]["xf"], pp["again"]["uf"], ts[:2])
        return " ".join(ln.split())

    def parse_model(self, case, out):
        n = case["sys"]["n"]
        if out.startswith("err "):
            return {"err": out.split()[1]}
        parts = [o.strip() for o in out.split("|")]
        if case["kind"] == "hist":
            t = parts[0].split()
            if t[0] == "err":
                return {"err": t[1]}
            assert t[0] == "ok", out
            k = int(t[1])
            v = t[2:]
            S = [v[i * (n + 1):(i + 1) * (n + 1)] for i in range(k)]
            v = v[k * (n + 1):]
            kf = int(v[0])
            v = v[1:]
            Fl = [v[i * (n + 1):(i + 1) * (n + 1)] for i in range(kf)]
            assert len(v) == kf * (n + 1), out
            return {"S": S, "F": Fl}
        res = {"p2p": []}
        for part, k in zip(parts[1:], [len(self.tt_times(case["p2p"])), 2]):
            t = part.split()
            if t[0] == "err":
                res["p2p"].append({"err": t[1]})
                continue
            N = int(t[1])
            v = t[2:]
            alpha, rest = v[:N], v[N:]
            assert len(rest) == k * (n + 1), part
            res["p2p"].append({"N": N, "alpha": alpha,
                               "xs": [rest[i * (n + 1):i * (n + 1) + n] for i in range(k)],
                               "us": [rest[i * (n + 1) + n] for i in range(k)]})
        return res

    # ---- implementation ------------------------------------------------------------------------------
    def impl(self, case):
        s = case["sys"]
        try:
            with warnings.catch_warnings():
                warnings.simplefilter("ignore")
                flat = fs.flatsys(build_sys(s))
        except Exception as e:  # noqa
            return {"err": classify_exc(e), "exc": excstr(e)}
        if case["kind"] == "hist":
            return self.impl_hist(flat, case)
        return self.impl_tt(flat, case)

    def impl_hist(self, flat, case):
        n = case["sys"]["n"]
        flt = lambda a: [tok(fr(float(v))) for v in np.asarray(a, dtype=float).flatten()]
        readS = lambda xu: flt(xu[0]) + flt(xu[1])
        S, Fl = [], []
        for reg, ty in zip(case["S"], case["dS"]):
            S.append((data_of(ty, reg[:n]), data_of(ty, reg[n:])))
        for reg, ty in zip(case["F"], case["dF"]):
            Fl.append([data_of(ty, reg)])
        born = {"S": [readS(xu) for xu in S], "F": [flt(z[0]) for z in Fl]}
        shapes = []
        params = None if case["params"] == "none" else {}
        for k, (op, i) in enumerate(case["ops"]):
            try:
                if op == "fwd":
                    z = flat.forward(S[i][0], S[i][1], params)
                    Fl.append(z)
                    born["F"].append(flt(z[0]))
                    shapes.append([len(z), int(np.size(z[0]))])
                else:
                    xu = flat.reverse(Fl[i], params)
                    S.append(xu)
                    born["S"].append(readS(xu))
                    shapes.append([int(np.size(xu[0])), int(np.size(xu[1]))])
            except Exception as e:  # noqa
                return {"err_at": k, "err": classify_exc(e), "exc": excstr(e)}
        # what the caller's objects hold after the whole history
        return {"born": born, "final": {"S": [readS(xu) for xu in S], "F": [flt(z[0]) for z in Fl]},
                "shapes": shapes}

    def impl_tt(self, flat, case):
        n = case["sys"]["n"]
        pp = case["p2p"]
        b = pp["basis"]
        T0, Tf = F(pp["T0"]), F(pp["Tf"])
        integer = T0.denominator == 1 and Tf.denominator == 1
        tty = pp["tty"]
        out = {}
        try:
            with warnings.catch_warnings(record=True) as wl:
                warnings.simplefilter("always")
                Tb = F(b["T"])
                Tbv = float(Tb) if b["Tty"] == "float" else scalar_of(b["Tty"], Tb)
                basis = (fs.PolyFamily if b["kind"] == "P" else fs.BezierFamily)(b["N"], Tbv)
                x0, xf = data_of(pp["bcty"], pp["x0"]), data_of(pp["bcty"], pp["xf"])
                u0, uf = data_of(pp["bcty"], [pp["u0"]]), data_of(pp["bcty"], [pp["uf"]])
                if pp["via"] == "scalar":
                    targ = scalar_of(tty, Tf)
                    kw = {"initial_time": scalar_of(tty, T0)}
                elif pp["via"] == "array":
                    targ = timelist_of(["array", tty], [T0, Tf])
                    kw = {}
                elif pp["via"] == "list3":
                    mid = T0 + (Tf - T0) / 2 if not integer else T0 + int(Tf - T0) // 2
                    targ = timelist_of(["list", tty], [T0, mid, Tf])
                    kw = {}
                else:
                    targ = timelist_of(["list", tty], [T0, Tf])
                    kw = {}
                args = {"timepts": targ, "x0": x0, "u0": u0, "xf": xf, "uf": uf}
                snap = {k: snapshot(v) for k, v in args.items()}
                traj = fs.point_to_point(flat, targ, x0, u0, xf, uf, basis=basis, **kw)
                N = traj.basis.N
                rd = lambda xs, us, k: ([[tok(fr(xs[i, j])) for i in range(n)] for j in range(k)],
                                        [tok(fr(us[0, j])) for j in range(k)])
                # (1) float times: end points, interior dyadic instants, the integer instants as floats
                ts = self.tt_times(pp)
                tf_ = np.array([float(t) for t in ts])
                xs, us = traj.eval(tf_)
                out["xs"], out["us"] = rd(xs, us, len(ts))
                # (2) the typed instants T0, Tf, itimes
                if integer:
                    its = [T0, Tf] + [Fraction(t) for t in pp["itimes"]]
                    cont, el = pp["ety"]
                    if not fits(el, [int(t) for t in its]):
                        el = "pyint"
                    tl = timelist_of([cont if cont != "range" else "list", el], its)
                    args["eval_times"] = tl
                    snap["eval_times"] = snapshot(tl)
                    xt, ut = traj.eval(tl)
                    out["xt"], out["ut"] = rd(xt, ut, len(its))
                # (3) N nodes for the residual: typed integer nodes when the horizon has room for them
                H = Tf - T0
                if integer and H >= N - 1 and N >= 2:
                    step = int(H) // (N - 1)
                    nodes = [T0 + i * step for i in range(N)]
                    cont, el = pp["ety"]
                    if not fits(el, [int(t) for t in nodes]):
                        el = "pyint"
                    nl = timelist_of([cont, el], nodes)
                    out["node_ty"] = "%s/%s" % (cont, el)
                else:
                    nodes = [fr(float(T0 + H * Fraction(i, N - 1))) for i in range(N)]
                    nl = np.array([float(t) for t in nodes])
                    out["node_ty"] = "array/f64"
                args["node_times"] = nl
                snap["node_times"] = snapshot(nl)
                xn, un = traj.eval(nl)
                out["nodes"] = [tok(t) for t in nodes]
                out["xn"], out["un"] = rd(xn, un, N)
                out["N"] = N
                out["alpha"] = [tok(fr(v)) for v in np.asarray(traj.coeffs[0]).flatten()]
                # (4) a second trajectory with the same system, basis and time objects
                if pp.get("again"):
                    ag = pp["again"]
                    xf2, uf2 = data_of(pp["bcty"], ag["xf"]), data_of(pp["bcty"], [ag["uf"]])
                    traj2 = fs.point_to_point(flat, targ, x0, u0, xf2, uf2, basis=basis, **kw)
                    x2, u2 = traj2.eval(tf_[:2])
                    out["xs2"], out["us2"] = rd(x2, u2, 2)
                    xa, ua = traj.eval(tf_)
                    out["xs_again"], out["us_again"] = rd(xa, ua, len(ts))
                # (5) a B-spline basis on typed breakpoints (external evaluator): end points only
                bsp = pp.get("bspline")
                if bsp:
                    try:
                        brk = timelist_of(bsp["bty"], [T0, T0 + int(Tf - T0) // 2, Tf])
                        args["breakpoints"] = brk
                        snap["breakpoints"] = snapshot(brk)
                        bb = fs.BSplineFamily(brk, bsp["degree"])
                        tb = fs.point_to_point(flat, targ, x0, u0, xf, uf, basis=bb, **kw)
                        el = pp["ety"][1] if fits(pp["ety"][1], [int(T0), int(Tf)]) else "pyint"
                        xb, ub = tb.eval(timelist_of(["list", el], [T0, Tf]))
                        xbf, ubf = tb.eval(np.array([float(T0), float(Tf)]))
                        out["bspline"] = {"typed": rd(xb, ub, 2), "float": rd(xbf, ubf, 2)}
                    except Exception as e:  # noqa
                        out["bspline"] = {"err": classify_exc(e), "exc": excstr(e)}
                out["mutated"] = sorted(k for k in args if not same_obj(args[k], snap[k]))
                out["live"] = {k: [tok(fr(float(v))) for v in np.asarray(args[k], dtype=float).flatten()]
                               for k in ("x0", "u0", "xf", "uf")}
                out["warn"] = sorted({re.sub(r"[0-9.]+", "#", str(w.message))[:60] for w in wl
                                      if "basis too small" in str(w.message)})
            return {"p2p": out}
        except Exception as e:  # noqa
            return {"p2p": {"err": classify_exc(e), "exc": excstr(e)}}

    # ---- comparison ------------------------------------------------------------------------------------
    @staticmethod
    def vclose(a, b, scale=None, tol=TOL):
        a = [Fraction(x) for x in a]
        b = [Fraction(x) for x in b]
        if len(a) != len(b):
            return False
        sc = max([Fraction(1)] + [abs(x) for x in b] + ([scale] if scale else []))
        return all(abs(x - y) <= tol * sc for x, y in zip(a, b))

    def feat(self, case, kind, **kw):
        f = {"kind": kind, "class": "history" if case["kind"] == "hist" else "typed-times"}
        f.update(kw)
        return f

    def excfeat(self, d):
        e = d.get("exc", "")
        return {"exc": e.split(":")[0], "msg": re.sub(r"[0-9]+", "#", e.split(":", 1)[-1].strip())[:60]}

    def compare(self, case, impl, model):
        if "err" in model:
            return Verdict(DIFFERS, "model raises %s on a generated %s case" % (model["err"], case["kind"]),
                           self.feat(case, "model-" + model["err"]))
        if "err" in impl and "err_at" not in impl:
            return Verdict(VIOLATES, "reachable continuous SISO system rejected: " + impl["exc"],
                           self.feat(case, "construct-raises", **self.excfeat(impl)))
        if case["kind"] == "hist":
            return self.compare_hist(case, impl, model)
        return self.compare_tt(case, impl, model)

    def compare_hist(self, case, impl, model):
        n = case["sys"]["n"]
        ops = case["ops"]
        fl = lambda v: [float(F(x)) for x in v]
        if "err_at" in impl:
            k = impl["err_at"]
            return Verdict(VIOLATES, "call %d (%s of register %d) raises: %s" % (k, ops[k][0], ops[k][1], impl["exc"]),
                           self.feat(case, "fr-raises", op=ops[k][0], dtype=self.reg_dtype(case, k),
                                     **self.excfeat(impl)))
        for k, sh in enumerate(impl["shapes"]):
            if sh != ([1, n + 1] if ops[k][0] == "fwd" else [n, 1]):
                return Verdict(VIOLATES, "call %d (%s): result shape %s" % (k, ops[k][0], sh),
                               self.feat(case, "flag-shape", op=ops[k][0]))
        born, final = impl["born"], impl["final"]
        allv = [F(v) for reg in model["S"] + model["F"] for v in reg]
        scale = max([Fraction(1)] + [abs(v) for v in allv])
        # provenance of every register: literal, or (call index, op, argument register)
        nS0, nF0 = len(case["S"]), len(case["F"])
        srcS, srcF = [None] * nS0, [None] * nF0
        uses = {}
        for k, (op, i) in enumerate(ops):
            if op == "fwd":
                srcF.append((k, i))
            else:
                srcS.append((k, i))
        # (a) the property on the implementation's own values: inverse laws at every use
        for k, (op, i) in enumerate(ops):
            uses[(op, i)] = uses.get((op, i), 0) + 1
            if op == "rev" and srcF[i] is not None:
                j = srcS.index((k, i))
                src = born["S"][srcF[i][1]]
                if not self.vclose(born["S"][j], src, scale):
                    return Verdict(VIOLATES, "call %d: reverse(z) = %s where z is the object returned by forward(x, u) "
                                   "with (x, u) = %s (use %d of this flag object)" % (
                                       k, fl(born["S"][j]), fl(src), uses[(op, i)]),
                                   self.feat(case, "roundtrip-xu", use="first" if uses[(op, i)] == 1 else "repeated"))
            if op == "fwd" and srcS[i] is not None:
                j = srcF.index((k, i))
                src = born["F"][srcS[i][1]]
                if not self.vclose(born["F"][j], src, scale):
                    return Verdict(VIOLATES, "call %d: forward(x, u) = %s where (x, u) is the object returned by "
                                   "reverse(z) with z = %s (use %d of this pair)" % (
                                       k, fl(born["F"][j]), fl(src), uses[(op, i)]),
                                   self.feat(case, "roundtrip-z", use="first" if uses[(op, i)] == 1 else "repeated"))
        # (b) the same call on the same object gives the same result
        seen = {}
        for k, (op, i) in enumerate(ops):
            cur = born["S"][srcS.index((k, i))] if op == "rev" else born["F"][srcF.index((k, i))]
            if (op, i) in seen and not self.vclose(cur, seen[(op, i)][1], scale, TOL_SAME):
                return Verdict(VIOLATES, "call %d: %s of register %d = %s, the same call earlier (call %d) gave %s" % (
                    k, op, i, fl(cur), seen[(op, i)][0], fl(seen[(op, i)][1])),
                    self.feat(case, "call-not-repeatable", op=op))
            seen.setdefault((op, i), (k, cur))
        # (c) the caller's objects after the history hold what they held when they were made
        for name, src in (("F", srcF), ("S", srcS)):
            for j, (b0, f0) in enumerate(zip(born[name], final[name])):
                if b0 != f0:
                    what = "a literal of the caller" if src[j] is None else "the result of call %d" % src[j][0]
                    users = [k for k, (op, i) in enumerate(ops) if i == j and (op == "rev") == (name == "F")]
                    return Verdict(VIOLATES, "%s register %d (%s) held %s and holds %s after the history (passed to "
                                   "%s in calls %s): the caller's object was written to, so %s no longer holds for it" % (
                                       "flag" if name == "F" else "(x, u)", j, what, fl(b0), fl(f0),
                                       "reverse" if name == "F" else "forward", users,
                                       "z = forward(reverse(z))" if name == "F" else "(x, u) = reverse(forward(x, u))"),
                                   self.feat(case, "argument-modified", arg="flag" if name == "F" else "state-input"))
        # (d) model vs implementation, register by register
        for name in ("S", "F"):
            if len(born[name]) != len(model[name]):
                return Verdict(DIFFERS, "register count", self.feat(case, "hist-registers"))
            for j, (a, m) in enumerate(zip(born[name], model[name])):
                if not self.vclose(a, m, scale):
                    return Verdict(DIFFERS, "%s register %d: %s, model %s" % (name, j, fl(a), fl(m)),
                                   self.feat(case, "hist-value", reg=name))
        return Verdict(AGREE)

    def reg_dtype(self, case, k):
        op, i = case["ops"][k]
        lit = case["dF"] if op == "rev" else case["dS"]
        return lit[i] if i < len(lit) else "result"

    def compare_tt(self, case, impl, model):
        s = case["sys"]
        n = s["n"]
        pp = case["p2p"]
        pi = impl["p2p"]
        pm = model["p2p"][0]
        tyf = {"tty": pp["tty"], "via": pp["via"]}
        if "err" in pm:
            if "err" in pi:
                return Verdict(AGREE)
            return Verdict(DIFFERS, "model raises %s, point_to_point returns" % pm["err"],
                           self.feat(case, "p2p-returns-" + pm["err"]))
        if "err" in pi:
            return Verdict(VIOLATES, "point_to_point / eval with typed times raises: " + pi["exc"],
                           self.feat(case, "p2p-raises", **dict(self.excfeat(pi), **tyf)))
        bc = pp["x0"] + [pp["u0"]] + pp["xf"] + [pp["uf"]]
        allv = [F(v) for k in range(len(pm["xs"])) for v in pm["xs"][k] + [pm["us"][k]]]
        scale = max([Fraction(1)] + [abs(F(v)) for v in bc] + [abs(v) for v in allv])
        x0u0, xfuf = pp["x0"] + [pp["u0"]], pp["xf"] + [pp["uf"]]

        def ends(xs, us, want0, wantf, times, **kw):
            for idx, want, which in ((0, want0, "initial"), (1, wantf, "final")):
                got = xs[idx] + [us[idx]]
                if not self.vclose(got, want, scale):
                    return Verdict(VIOLATES, "(x, u)(%s) = %s, requested %s [times given as %s]" % (
                        "T0" if idx == 0 else "Tf", vals(got), vals(want), times),
                        self.feat(case, "p2p-endpoint", which=which, **kw))
            return None
        # end points: float instants, typed instants
        v = ends(pi["xs"], pi["us"], x0u0, xfuf, "p2p %s/%s, eval float64" % (pp["via"], pp["tty"]), eval="float")
        if v is not None:
            return v
        if "xt" in pi:
            v = ends(pi["xt"], pi["ut"], x0u0, xfuf, "p2p %s/%s, eval %s" % (pp["via"], pp["tty"], pp["ety"]),
                     eval="typed")
            if v is not None:
                return v
            # the same instants as integers and as floats
            nt = len(pi["xt"])
            idx = [0, 1] + list(range(len(pi["xs"]) - (nt - 2), len(pi["xs"])))
            for a, k in enumerate(idx):
                if not self.vclose(pi["xt"][a] + [pi["ut"][a]], pi["xs"][k] + [pi["us"][k]], scale, TOL_SAME):
                    t = self.tt_times(pp)[k]
                    return Verdict(VIOLATES, "(x, u)(t = %s) = %s with the time given as %s, = %s with the time given "
                                   "as float64: the trajectory is not a function of time" % (
                                       t, vals(pi["xt"][a] + [pi["ut"][a]]), pp["ety"], vals(pi["xs"][k] + [pi["us"][k]])),
                                   self.feat(case, "p2p-time-type", ety=pp["ety"][1]))
        # B-spline basis on typed breakpoints: end points, typed and float instants
        bsr = pi.get("bspline")
        if bsr:
            if "err" in bsr:
                return Verdict(VIOLATES, "point_to_point with a B-spline basis on typed breakpoints raises: " + bsr["exc"],
                               self.feat(case, "bspline-raises", **self.excfeat(bsr)))
            for key in ("float", "typed"):
                xs_, us_ = bsr[key]
                if not (self.vclose(xs_[0] + [us_[0]], x0u0, scale, TOL * 10)
                        and self.vclose(xs_[1] + [us_[1]], xfuf, scale, TOL * 10)):
                    return Verdict(VIOLATES, "B-spline trajectory end points %s / %s, requested %s / %s [eval times %s]" % (
                        vals(xs_[0] + [us_[0]]), vals(xs_[1] + [us_[1]]), vals(x0u0), vals(xfuf), key),
                        self.feat(case, "bspline-endpoint", eval=key))
        # feasibility from the node values
        res = self.residual(pi, s)
        if res is not None:
            worst, where, dscale, Hn = res
            if worst * Hn > TOL * 10 * max(scale, dscale * Hn):
                return Verdict(VIOLATES, "d/dt x - (A x + B u) = %.3g at t = %s (x scale %.3g, derivative scale %.3g, "
                               "node times given as %s)" % (float(worst), float(where), float(scale), float(dscale),
                                                            pi["node_ty"]),
                               self.feat(case, "p2p-infeasible", nodes="typed" if pi["node_ty"] != "array/f64" else "float"))
        # the caller's argument objects
        if pi["mutated"]:
            return Verdict(VIOLATES, "argument objects modified by point_to_point / eval: %s; the caller's boundary "
                           "data now read %s" % (pi["mutated"], {k: vals(v) for k, v in pi["live"].items()}),
                           self.feat(case, "argument-modified", arg=pi["mutated"][0]))
        # second trajectory from the same objects; the first one afterwards
        if "xs2" in pi:
            pm2 = model["p2p"][1]
            ag = pp["again"]
            v = ends(pi["xs2"], pi["us2"], x0u0, ag["xf"] + [ag["uf"]], "second call, float64", eval="float",
                     call="second")
            if v is not None:
                return v
            for k in range(len(pi["xs"])):
                if not self.vclose(pi["xs_again"][k] + [pi["us_again"][k]], pi["xs"][k] + [pi["us"][k]], scale, TOL_SAME):
                    return Verdict(VIOLATES, "first trajectory at sample %d: %s before, %s after a second "
                                   "point_to_point with the same system and basis objects" % (
                                       k, vals(pi["xs"][k] + [pi["us"][k]]), vals(pi["xs_again"][k] + [pi["us_again"][k]])),
                                   self.feat(case, "trajectory-changed-by-later-call"))
            if "err" not in pm2:
                for k in range(2):
                    if not self.vclose(pi["xs2"][k] + [pi["us2"][k]], pm2["xs"][k] + [pm2["us"][k]], scale):
                        return Verdict(DIFFERS, "second trajectory at sample %d" % k, self.feat(case, "p2p-trajectory"))
        # model vs implementation
        for k in range(len(pm["xs"])):
            if not self.vclose(pi["xs"][k] + [pi["us"][k]], pm["xs"][k] + [pm["us"][k]], scale, TOL_TRAJ):
                return Verdict(DIFFERS, "trajectory at sample %d (t = %s): %s, model %s" % (
                    k, self.tt_times(pp)[k], vals(pi["xs"][k] + [pi["us"][k]]), vals(pm["xs"][k] + [pm["us"][k]])),
                    self.feat(case, "p2p-trajectory"))
        if pi.get("warn"):
            return Verdict(DIFFERS, "unexpected warning %s" % pi["warn"], self.feat(case, "p2p-warning"))
        return Verdict(AGREE)

    def residual(self, pi, s):
        """max over some nodes of |xdot - A x - B u| from the implementation's values at N nodes
        (exact Lagrange differentiation), with the horizon covered by the nodes"""
        n = s["n"]
        N = pi["N"]
        ts = [F(t) for t in pi["nodes"]]
        if len(set(ts)) != len(ts) or N < 2:
            return None
        rows = sorted({0, N - 1, N // 2, N // 3, (2 * N) // 3})
        Dm = lagrange_diff_rows(ts, rows)
        A = exmat.from_flat(s["A"], n, n)
        B = [F(v) for v in s["B"]]
        X = [[F(v) for v in col] for col in pi["xn"]]
        U = [F(v) for v in pi["un"]]
        worst, where, dscale = Fraction(0), ts[0], Fraction(0)
        for i in rows:
            for st in range(n):
                xdot = sum((Dm[i][j] * X[j][st] for j in range(N)), Fraction(0))
                rhs = sum((A[st][l] * X[i][l] for l in range(n)), Fraction(0)) + B[st] * U[i]
                dscale = max(dscale, abs(xdot), abs(rhs))
                r = abs(xdot - rhs)
                if r > worst:
                    worst, where = r, ts[i]
        return worst, where, dscale, max(Fraction(1), ts[-1] - ts[0])

    # ---- statistics / shrinking ------------------------------------------------------------------------
    def nontrivial(self, case, model):
        if "err" in model or case["sys"]["n"] < 2:
            return False
        if case["kind"] == "hist":
            return len(case["ops"]) >= 3 and any(F(v) != 0 for r in case["S"] + case["F"] for v in r)
        pp = case["p2p"]
        return any(F(v) != 0 for v in pp["x0"] + [pp["u0"]] + pp["xf"] + [pp["uf"]])

    def stats(self, case, impl, model):
        st = {"class": "history" if case["kind"] == "hist" else "typed-times", "order": case["sys"]["n"]}
        if case["kind"] == "hist":
            ops = case["ops"]
            st["hist_calls"] = len(ops)
            reuse = max([sum(1 for o in ops if o == list(o0)) for o0 in {tuple(o) for o in ops}] + [0])
            st["hist_max_uses_of_one_object"] = reuse
            st["hist_literal_types"] = "+".join(sorted(set(case["dS"] + case["dF"])))
            return st
        pp = case["p2p"]
        H = F(pp["Tf"]) - F(pp["T0"])
        st["tt_horizon"] = "1e%d" % (len(str(int(H))) - 1) if H >= 1 else "<1"
        st["tt_p2p_times_via"] = pp["via"]
        st["tt_p2p_time_type"] = pp["tty"]
        st["tt_eval_times_container"] = pp["ety"][0]
        st["tt_eval_time_type"] = pp["ety"][1]
        st["tt_bspline_validated"] = bool(pp.get("bspline"))
        st["tt_bc_type"] = pp["bcty"]
        st["tt_basis"] = pp["basis"]["kind"]
        st["tt_rest_to_rest"] = pp["rest"]
        st["tt_second_trajectory"] = bool(pp.get("again"))
        if H.denominator == 1 and H >= 1:
            st["tt_Tf_pow_Nm1_vs_2^63"] = ">=" if max(abs(F(pp["Tf"])), abs(F(pp["T0"]))) ** (pp["basis"]["N"] - 1) >= 2 ** 63 \
                else "<"
        try:
            pm, pi = model["p2p"][0], impl["p2p"]
            if "err" not in pm and "err" not in pi:
                allv = [F(v) for k in range(len(pm["xs"])) for v in pm["xs"][k] + [pm["us"][k]]]
                scale = max([Fraction(1)] + [abs(v) for v in allv])
                err = max(abs(F(a) - F(b)) for k in range(len(pm["xs"]))
                          for a, b in zip(pi["xs"][k] + [pi["us"][k]], pm["xs"][k] + [pm["us"][k]])) / scale
                st["tt_relerr_vs_model"] = "<=1e-12" if err <= Fraction(1, 10 ** 12) else \
                    "<=1e-%d" % max(d for d in range(0, 12) if err <= Fraction(1, 10 ** d))
        except Exception:  # noqa  (statistics only)
            pass
        return st

    def shrink(self, case):
        if case["kind"] == "hist":
            ops = case["ops"]
            for k in range(len(ops) - 1, 0, -1):
                c = dict(case)
                c["ops"] = ops[:k]
                yield c
            # drop one call in the middle when nothing later refers to its result
            nS0, nF0 = len(case["S"]), len(case["F"])
            for d in range(len(ops)):
                cS, cF, idx = nS0, nF0, None
                for k, (op, i) in enumerate(ops):
                    if k == d:
                        idx = (op, cF if op == "fwd" else cS)
                    if op == "fwd":
                        cF += 1
                    else:
                        cS += 1
                kind, reg = idx
                new, ok = [], True
                for k, (op, i) in enumerate(ops):
                    if k == d:
                        continue
                    uses_kind = "fwd" if op == "rev" else "rev"     # rev uses F registers (made by fwd)
                    if k > d and uses_kind == kind:
                        if i == reg:
                            ok = False
                            break
                        if i > reg:
                            i -= 1
                    new.append([op, i])
                if ok and new:
                    c = dict(case)
                    c["ops"] = new
                    yield c
            c = dict(case)
            c["dS"], c["dF"] = ["float"] * len(case["dS"]), ["float"] * len(case["dF"])
            if c["dS"] != case["dS"] or c["dF"] != case["dF"]:
                yield c
            c = dict(case)
            c["S"] = [[tok(Fraction(round(F(v)))) for v in r] for r in case["S"]]
            c["F"] = [[tok(Fraction(round(F(v)))) for v in r] for r in case["F"]]
            yield c
            return
        pp = case["p2p"]

        def with_pp(**kw):
            c = dict(case)
            c["p2p"] = dict(pp)
            c["p2p"].update(kw)
            return c
        if pp.get("again"):
            yield with_pp(again=None)
        if pp.get("bspline"):
            yield with_pp(bspline=None)
        if pp["itimes"]:
            yield with_pp(itimes=[])
        if pp["bcty"] != "float":
            yield with_pp(bcty="float")
        if pp["basis"]["Tty"] != "float":
            yield with_pp(basis=dict(pp["basis"], Tty="float"))
        if pp["via"] != "list":
            yield with_pp(via="list")
        z = lambda v: ["0"] * len(v)
        for key in ("x0", "xf"):
            if any(F(v) != 0 for v in pp[key]):
                yield with_pp(**{key: z(pp[key])})
        for key in ("u0", "uf"):
            if F(pp[key]) != 0:
                yield with_pp(**{key: "0"})

    def search(self, rng, case, tier):
        g = self.gen_hist if case["kind"] == "hist" else self.gen_tt
        return [g(rng) for _ in range(150)]
